"""Texts for MANIFEST.json (see tools/gen_manifest.py)."""
NOTES = ("All checks are generated-input search (property-based testing with rapidcheck over choice tapes, plus libFuzzer "
         "campaigns in the thorough tier) against explicit oracles. Exit 2 = broken/inconclusive check, never a violation. "
         "known_findings.json lists recorded and fixed defects.")
NOT_APPLICABLE = {}
META = {
    "C20": {
        "technique": "differential vs __int128 / exact rationals + algebraic identities + evaluation homomorphism; choice-tape PBT (rapidcheck) and libFuzzer",
        "text": "Sampled search: every public operation of z_number, q_number, safe_i64 and of linear expressions/constraints/systems is compared "
                "with an independent reference (__int128 arithmetic when operands fit, algebraic identities and decimal-string round trips beyond "
                "64 bits, evaluation on random valuations for the linear layer). It refutes, it does not prove; operands are sampled with a bias to "
                "0, +-1, +-2^31, +-2^63, 2^64 and up to 60 decimal digits.",
        "note": "Trusted: __int128 arithmetic of the compiler, the harness' decimal printer, GMP's decimal parser (cross-checked by round trips). "
                "q_number is only constructed with a positive denominator.",
    },
}
