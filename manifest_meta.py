"""Texts for MANIFEST.json (see tools/gen_manifest.py)."""
NOTES = ("All checks are generated-input search (property-based testing with rapidcheck over choice tapes, plus libFuzzer "
         "campaigns in the thorough tier) against explicit oracles. Exit 2 = broken/inconclusive check, never a violation. "
         "known_findings.json lists recorded and fixed defects.")
NOT_APPLICABLE = {}
META = {
    "C20": {
        "technique": "differential vs __int128 / exact rationals + algebraic identities + evaluation homomorphism; choice-tape PBT (rapidcheck) and libFuzzer",
        "text": "Sampled search: every public operation of z_number, q_number, safe_i64 and of linear expressions/constraints/systems is compared "
                "with an independent reference (__int128 arithmetic when operands fit, algebraic identities and decimal-string round trips beyond "
                "64 bits, evaluation on random valuations for the linear layer). It refutes, it does not prove; operands are sampled with a bias to "
                "0, +-1, +-2^31, +-2^63, 2^64 and up to 60 decimal digits.",
        "note": "Trusted: __int128 arithmetic of the compiler, the harness' decimal printer, GMP's decimal parser (cross-checked by round trips). "
                "q_number is only constructed with a positive denominator.",
    },
    "C07": {
        "technique": "validity predicate over the WTO (independent reachability + edge/nesting conditions); choice-tape PBT (rapidcheck) and libFuzzer",
        "text": "Sampled search over digraphs of up to 14 nodes, every entry node and decoded successor orders, built as CFG, reversed CFG and call graph. "
                "The flattened component tree is checked against the three stated conditions (each reachable node exactly once, every edge forward or "
                "into an enclosing head, nesting() = strictly enclosing heads outermost first) using the harness' own adjacency lists and BFS.",
        "note": "Graphs larger than 14 nodes are not explored. Trusted: the CFG/call-graph builders produce the decoded edge relation (cross-checked for the call graph).",
    },
    "C19": {
        "technique": "model-based testing against std::map / std::set over operation histories; choice-tape PBT (rapidcheck) and libFuzzer",
        "text": "Stateful search: histories of set/forget/join/meet/widening/narrowing/rename/project/copy over four environments are replayed on a "
                "std::map model with default top; lookups, iteration, size, is_top/is_bottom and the inclusion test between all pairs are compared "
                "after every step. Sets (patricia_tree_set, discrete_domain, set_domain) are compared with std::set.",
        "note": "Pointwise results of merges are computed with the value lattice's own operators (the value lattices are C08's subject). At most 12 keys per history.",
    },
    "C08": {
        "technique": "sampled gamma-membership of concrete results + reference corner arithmetic for tightness; choice-tape PBT (rapidcheck) and libFuzzer",
        "text": "Sampled search over pairs of abstract scalars of every class and every operation: concrete members are drawn from each operand, the concrete "
                "operation (DESIGN 2.3) is applied and the result must be a member of the abstract result; lattice operations and the inclusion test are "
                "checked against the sampled members; integer interval + - neg * join meet must equal an independent corner model.",
        "note": "Members are sampled (at most 8 per operand), so a result that misses only unsampled values is not detected. Unsigned operations are only "
                "judged on non-negative operands.",
    },
    "C01": {
        "technique": "concrete reference interpreter for CrabIR + gamma-membership oracle (differential); choice-tape PBT (rapidcheck) and libFuzzer",
        "text": "Sampled search over generated CrabIR programs, fixpoint parameters, initial values and concrete executions: every concrete state "
                "reached at a block entry, after a statement or at a block exit must be a member of the invariant the forward analyzer reports "
                "there, observed only through the public query API (at, operator[], exported constraints, entails, point meet, is_bottom). "
                "Quick tier: six domains (intervals, zones, octagons, intervals+congruences, term equivalences, flat boolean); it refutes, it does not prove.",
        "note": "Trusted: the harness' interpreter (DESIGN 2.3; undocumented corners truncate the execution instead of judging it). Programs have <= 10 "
                "blocks and <= 6+2+3 variables; unsoundness visible only on long executions or huge values is out of reach.",
    },
    "C02": {
        "technique": "per-assertion checker verdict vs concrete executions (differential against the reference interpreter); choice-tape PBT and libFuzzer",
        "text": "Sampled search: a SAFE verdict is refuted by one concrete execution that reaches the assertion with a false condition, an UNREACHABLE "
                "verdict by one execution that reaches it. Warnings are never inspected. Covered: the intra-procedural forward analyzer + checker (six domains), the forward+backward "
                "analyzer + checker (three domains), the checker interleaved with the top-down inter-procedural analyzer and inter_checker on the bottom-up analyzer.",
        "note": "Executions are sampled (4-24 per program); the top-down analyzer's per-context verdict lists are read conservatively (a claim needs every entry to agree).",
    },
    "C03": {
        "technique": "stateful model-based testing with witness sets (concrete images of sampled states) + gamma-membership oracle; choice-tape PBT and libFuzzer",
        "text": "Sampled search over operation histories on several abstract values: each value carries concrete witness states that are members by "
                "construction; after every abstract operation the images of the witnesses under the corresponding concrete operation must be members "
                "of the result (interval queries, exported constraints, entailment, point meet, not bottom).",
        "note": "Witness sets are finite samples (<= 12 states per value): a result that wrongly excludes only unsampled states is not detected.",
    },
    "C04": {
        "technique": "lattice laws checked against witness sets over operation histories; choice-tape PBT and libFuzzer",
        "text": "Sampled search: reflexivity, bottom/top laws, is_bottom/is_top after set_to_*/make_*, and the soundness of yes-answers of the inclusion "
                "test, of join and of meet against the witness sets of values reached by arbitrary histories (including values over different "
                "variable sets).",
        "note": "A wrong yes-answer of <= is only detected when a sampled witness of the left operand falls outside the right operand.",
    },
    "C05": {
        "technique": "deterministic step-budget watchdog on analyses + widening-chain stationarity bound + membership of widening/narrowing arguments; choice-tape PBT and libFuzzer",
        "text": "Sampled search: (a) forward analyses run under a deterministic event budget more than two orders of magnitude above the largest ordinary run observed; (b) generated "
                "ascending chains must become stationary within a generous structural bound on the number of strict increases, every widening result "
                "must contain the witnesses of both arguments and narrowing of a decreasing pair the witnesses of its second argument.",
        "note": "Termination can only be refuted, by exceeding the budget/bound; the bound is an over-estimate (observed increases are reported next to it). "
                "The budget is a count of fixpoint/transfer events, not a clock.",
    },
    "C06": {
        "technique": "reference least-fixpoint model (bit sets over a finite state space) compared for equality + join-only reference iteration for the delay clause; choice-tape PBT and libFuzzer",
        "text": "Sampled search with an exact oracle: the fixpoint iterator is driven with a finite-height client value type whose operations are exact, so "
                "get_pre/get_post must EQUAL the least solution computed by naive iteration, for every start block with empty nesting, assumption map, "
                "delay and descending count. Second sentence: interval analyses of counted loops around the delay are compared with a join-only iteration.",
        "note": "State spaces of at most 64 states and CFGs of at most 10 blocks. The delay clause observes widening through the domain's statistics counter.",
    },
    "C13": {
        "technique": "differential vs uint64/__int128 modular reference (exhaustive for widths <= 6, sampled above) + gamma-membership of bit-vector results; choice-tape PBT and libFuzzer",
        "text": "Sampled (and for small widths exhaustive) search: every wrapint operation must equal arithmetic modulo 2^w, and every wrapped_interval "
                "operation must contain the bit-vector result of every pair of members of its arguments, including pole-crossing intervals.",
        "note": "Programs under machine-integer semantics on the wrapped-interval domain (part c of the design) are not built yet.",
    },
    "C16": {
        "technique": "observation snapshots of untouched values over histories (copy isolation), mutual inclusion around queries, wrapper differential (D vs abstract_domain_ref<D>); choice-tape PBT and libFuzzer",
        "text": "Sampled search over histories with copies, moves, queries, normalize/minimize: values that a step does not operate on must keep the same "
                "observations and witnesses; queries keep the value <=-equal to a pre-copy; the generic wrapper must observe exactly what the wrapped "
                "domain observes after every step.",
        "note": "Sharing bugs that need a memory-level (not API-level) interleaving are only visible as sanitizer reports in the fuzz flavour.",
    },
    "C12": {
        "technique": "model-based testing against brute-force integer point sets (exactness of bottom/entailment/bounds/join/meet/forget) + base-vs-lifting differential; choice-tape PBT (rapidcheck)",
        "text": "Sampled search with an exact oracle: every value of interval/zones/octagons built by in-language histories is compared with the exact set of integer "
                "points it should describe (box of at most 9^4 points): bottom iff empty, entailment of every constraint of the language iff implied, variable "
                "bounds exact, join = best abstraction of the union, meet/forget exact. Liftings (flat boolean, array smashing, array adaptive, region, reduced "
                "product) are run side by side with their base domain on straight-line numerical code and must never report looser bounds.",
        "note": "At most 4 variables and |x|<=4 (plus per-variable offsets for large constants); defects that need more variables are only reachable by the "
                "soundness harnesses (C03). Two recorded findings (meet of split_oct, meet of split_dbm with zones.close_bounds_inline) are excluded by "
                "construction, see known_findings.json.",
    },
    "C14": {
        "technique": "concrete reference interpreter with a byte-offset cell model + gamma-membership of loaded values (differential); choice-tape PBT (rapidcheck) and libFuzzer",
        "text": "Sampled search over generated array programs (initialisations, strong/weak/range stores, array copies, loads with constant and symbolic "
                "indices, loops and branches for joins/widenings) on both array domains over three base domains and all adaptive-domain parameters: the "
                "value a concrete execution loads must be inside the abstract value of the receiving variable, and no array operation may turn a "
                "reached state into bottom.",
        "note": "Histories of array operations outside programs (h_hist) are not generated yet; cell contents are only observed through loads, as the property states. "
                "One recorded finding (array_adaptive with a small max_array_size) is reported as KNOWN-FINDING.",
    },
    "C17": {
        "technique": "well-formedness predicate + bidirectional trace matching between original and transformed CFG under the reference interpreter (differential / translation validation by sampled executions); choice-tape PBT (rapidcheck) and libFuzzer",
        "text": "Sampled search over generated functions (all CFG shapes incl. unreachable blocks, dead ends, self loops, entry in a cycle) and chains of "
                "simplify / dead-code elimination / lower_safe_assertions: the transformed CFG must be well formed and every exit-reaching execution of one CFG "
                "must have a counterpart in the other with the same evaluated conditions, assertion outcomes and outputs.",
        "note": "Equivalence is established on sampled executions only (<= 30 blocks, 2-4 initial states); whether ONLY proven assertions are lowered is not observable "
                "under the property as stated (a failing assertion and a blocked assume both fail to reach the exit).",
    },
    "C18": {
        "technique": "metamorphic non-interference test (perturb a variable reported dead / perturb a variable at block entry and compare the continuation) + independent reachability search; choice-tape PBT (rapidcheck) and libFuzzer",
        "text": "Sampled search: perturbing a variable that liveness reports dead at the end of a block must not change the rest of the execution; every "
                "assertion reachable from a block is listed by the crawler, together with every variable whose perturbation at the block entry changes the "
                "operands of that assertion along the same path.",
        "note": "Sampled executions (<= 24 blocks); control dependences of the crawler are counted, not judged; array cells are perturbed one at a time.",
    },
    "C09": {
        "technique": "inter-procedural concrete reference interpreter + gamma-membership of block invariants and (pre,post) summaries (differential); choice-tape PBT (rapidcheck) and libFuzzer",
        "text": "Sampled search over generated call graphs (name collisions between callers, callees, formals and actuals; permuted/repeated actuals; direct and mutual "
                "recursion) and every parameter of the top-down analyzer: each concrete state reaching a block of any function must be inside the context-insensitive "
                "invariant reported for it, and every stored summary must relate inputs and outputs of every concrete call whose inputs satisfy its precondition.",
        "note": "Recursion depth 6, <= 5 functions. One recorded finding (joined calling contexts when max_call_contexts is finite) is reported as KNOWN-FINDING; it also covers "
                "every summary failure under a finite context bound, so other summary defects there can hide behind it.",
    },
    "C10": {
        "technique": "inter-procedural reference interpreter + gamma-membership of invariants; summaries checked against direct concrete runs of each function from arbitrary inputs; choice-tape PBT (rapidcheck) and libFuzzer",
        "text": "Sampled search over call graphs in the documented domain of the bottom-up analyzer and four (summary domain, invariant domain) pairs including differing ones: "
                "bottom-up summaries must contain the (inputs, outputs) pair of every terminating concrete execution of the function from arbitrary inputs, and the top-down "
                "phase's invariants every state reached from main.",
        "note": "Recursion depth 6, <= 5 functions; main is the single root (documented restriction).",
    },
    "C11": {
        "technique": "concrete reference interpreter: states of violating (resp. good-exit) executions must be members of the backward precondition of every block they pass (differential); choice-tape PBT (rapidcheck) and libFuzzer",
        "text": "Sampled search over programs, error/good mode, supplied forward invariants (none or from a real forward run) and backward-capable domains (intervals, zones in "
                "both representations, octagons, flat boolean; array_adaptive with recorded findings): every entry state of every block on an execution that later violates an "
                "assertion (resp. reaches the exit in a good final state) must be inside the necessary precondition reported for that block; hence an empty precondition at the "
                "entry means no violation.",
        "note": "Preconditions are observable at block entries only; region statements are excluded (backward transformers documented as not implemented).",
    },
    "C15": {
        "technique": "concrete reference interpreter with an explicit heap model + gamma-membership of loaded values + reference queries (nullness, allocation sites, tags) against the concrete heap (differential); choice-tape PBT (rapidcheck) and libFuzzer",
        "text": "Sampled search over generated region/reference programs, five base domains and all region-domain parameters: every value a concrete execution loads through a "
                "reference from a previously stored cell must be inside the abstract value of the receiving variable, a definite null / non-null answer must match every concrete "
                "execution, and reported allocation-site and tag sets must contain the actual ones.",
        "note": "Forward intra-procedural analysis only (no operation histories for the region domain). One recorded finding (reference count kept at one when the counted variable "
                "is redefined while its old target is still aliased) is reported as KNOWN-FINDING and, being event based, can hide other load failures in the same region.",
    },
}
