// h_histg-<domain>: the history engine of h_hist.cpp run in lock-step on the
// domain D and on the type-erased wrapper abstract_domain_ref<var>(D)
// (C16, third sentence): observations must be equal after every step.
#define VERIF_GENERIC 1
#include "h_hist.cpp"
