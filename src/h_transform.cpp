// h_transform: property C17 -- cfg::simplify(), dead_code_elimination and
// lower_safe_assertions (fed with the safe set of a real interval analysis +
// assertion checker) preserve well-formedness and behaviour.
//
// Behaviour = for every execution of the source cfg that ENDS AT THE EXIT
// (executes the exit block) there is an execution of the other cfg from the
// same initial state with the same observable trace (sequence of (condition
// text, outcome) of every assume/assert/bool_assume/bool_assert evaluated) and
// the same final values of the function outputs; checked in both directions
// (original -> transformed: nothing lost; transformed -> original: nothing
// new).  The counterpart is searched by an exhaustive DFS over successor
// choices and havoc values (values the source drew for the same variable, in
// order, skips allowed; or "keep the old value" for a havoc the source does
// not have).  Search exhausted => violation; budget/depth/outside-model =>
// inconclusive (diagnostic only).
#include "core/report.hpp"
#include "core/tape.hpp"
#include "prog/fgen.hpp"
#include "prog/step.hpp"

#include <crab/analysis/fwd_analyzer.hpp>
#include <crab/checkers/assertion.hpp>
#include <crab/checkers/base_property.hpp>
#include <crab/checkers/checker.hpp>
#include <crab/domains/abstract_domain_params.hpp>
#include <crab/domains/flat_boolean_domain.hpp>
#include <crab/domains/intervals.hpp>
#include <crab/transforms/dce.hpp>
#include <crab/transforms/lower_safe_assertions.hpp>

using namespace verif;
using namespace vp;

namespace verif {
const char *harness_name() { return "h_transform"; }
// triage aid: VERIF_CRABLOG=tag1,tag2 enables crab's own CRAB_LOG output
void harness_init() {
  if (const char *e = getenv("VERIF_CRABLOG")) {
    std::string cur;
    for (const char *c = e;; c++) {
      if (*c == ',' || *c == 0) {
        if (!cur.empty())
          crab::CrabEnableLog(cur);
        cur.clear();
        if (*c == 0)
          break;
      } else
        cur += *c;
    }
  }
}
} // namespace verif

// intervals lifted with the flat boolean domain: the plain interval domain ignores every
// boolean statement, so it would never prove (and lower_safe_assertions never lower) a bool_assert
using dom_t = crab::domains::flat_boolean_numerical_domain<ikos::interval_domain<z_number, varname_t>>;
using analyzer_t = crab::analyzer::intra_fwd_analyzer<cfg_ref_t, dom_t>;
using checker_t = crab::checker::intra_checker<analyzer_t>;
using assert_checker_t = crab::checker::assert_property_checker<analyzer_t>;
using dce_t = crab::transforms::dead_code_elimination<cfg_ref_t>;
using lsa_t = crab::transforms::lower_safe_assertions<cfg_ref_t>;

enum class Verdict { Found, Exhausted, Inconclusive };

static bool outputs_equal(const std::vector<var_t> &outs, const State &a, const State &b) {
  for (auto &v : outs) {
    if (v.get_type().is_array()) {
      auto fa = a.arr.find(v), fb = b.arr.find(v);
      bool ha = fa != a.arr.end(), hb = fb != b.arr.end();
      if (ha != hb)
        return false;
      if (ha && fa->second != fb->second)
        return false;
    } else {
      auto fa = a.num.find(v), fb = b.num.find(v);
      bool ha = fa != a.num.end(), hb = fb != b.num.end();
      if (ha != hb)
        return false;
      if (ha && !(fa->second == fb->second))
        return false;
    }
  }
  return true;
}

static std::string outputs_str(const std::vector<var_t> &outs, const State &s) {
  State o;
  for (auto &v : outs) {
    if (v.get_type().is_array()) {
      auto f = s.arr.find(v);
      if (f != s.arr.end())
        o.arr[v] = f->second;
    } else {
      auto f = s.num.find(v);
      if (f != s.num.end())
        o.num[v] = f->second;
    }
  }
  return o.str();
}

// exhaustive search for an execution of `tgt` with the expected trace / outputs
struct Matcher : public StmtExec::Hooks {
  using HPtr = std::map<var_t, unsigned>;
  cfg_t &tgt;
  TextCache &tc;
  const std::vector<CondEv> &expect;
  const std::map<var_t, std::vector<z_number>> &hv;
  const std::vector<var_t> &outputs;
  const State &src_final;
  size_t tidx = 0;
  bool mismatch = false;
  unsigned block_execs = 0, budget = 3000, max_depth = 60;
  bool cut = false;
  std::set<std::string> memo;

  Matcher(cfg_t &t, TextCache &c, const std::vector<CondEv> &e, const std::map<var_t, std::vector<z_number>> &h,
          const std::vector<var_t> &o, const State &f)
      : tgt(t), tc(c), expect(e), hv(h), outputs(o), src_final(f) {}

  void cond(stmt_t &s, bool outcome, bool, const State &) override {
    if (tidx >= expect.size() || outcome != expect[tidx].outcome || *expect[tidx].text != tc.cond_text(s))
      mismatch = true;
    else
      tidx++;
  }
  z_number havoc(const var_t &) override { return z_number(0); } // not used: havoc is a choice point

  static std::string key(const label_t &l, size_t ti, const HPtr &hp, const State &st) {
    std::string k = l + "|" + std::to_string(ti) + "|";
    for (auto &kv : hp)
      k += to_str(kv.first) + ":" + std::to_string(kv.second) + ",";
    return k + "|" + st.str();
  }

  bool go(const label_t &l, State st, size_t ti, const HPtr &hp, unsigned depth) {
    if (depth >= max_depth || ++block_execs > budget) {
      cut = true;
      return false;
    }
    // a configuration seen before either failed or is on the stack (a cycle
    // without progress): no new counterpart through it
    if (!memo.insert(key(l, ti, hp, st)).second)
      return false;
    return body(l, 0, st, ti, hp, depth);
  }

  bool body(const label_t &l, unsigned from, State st, size_t ti, HPtr hp, unsigned depth) {
    block_t &b = tgt.get_node(l);
    StmtExec ex(this);
    unsigned n = (unsigned)b.size();
    for (unsigned i = from; i < n; i++) {
      stmt_t &s = b[i];
      if (s.is_havoc()) {
        const var_t &v = static_cast<visitor_t::havoc_t &>(s).get_variable();
        if (v.get_type().is_bool() || v.get_type().is_integer()) {
          auto f = hv.find(v);
          unsigned len = f == hv.end() ? 0 : (unsigned)f->second.size();
          auto pi = hp.find(v);
          unsigned p = pi == hp.end() ? 0 : pi->second;
          for (unsigned k = p; k < len; k++) {
            State st2 = st;
            st2.num[v] = f->second[k];
            HPtr hp2 = hp;
            hp2[v] = k + 1;
            if (body(l, i + 1, st2, ti, hp2, depth))
              return true;
            if (cut && block_execs > budget)
              return false;
          }
          // a havoc the source execution does not have: keep the old value
          return body(l, i + 1, st, ti, hp, depth);
        }
      }
      tidx = ti;
      mismatch = false;
      ex.exec(s, st);
      ti = tidx;
      if (mismatch)
        return false;
      if (ex.stop == Stop::Outside) {
        cut = true;
        return false;
      }
      if (ex.stop != Stop::None)
        return false;
    }
    if (l == tgt.exit())
      return ti == expect.size() && outputs_equal(outputs, st, src_final);
    std::vector<label_t> first, second;
    for (auto const &nx : boost::make_iterator_range(b.next_blocks())) {
      if (leading_assumes_hold(tgt.get_node(nx), st))
        first.push_back(nx);
      else
        second.push_back(nx);
    }
    for (auto &nx : first)
      if (go(nx, st, ti, hp, depth + 1))
        return true;
    for (auto &nx : second)
      if (go(nx, st, ti, hp, depth + 1))
        return true;
    return false;
  }

  Verdict search(const State &init) {
    bool found = go(tgt.entry(), init, 0, HPtr(), 0);
    if (found)
      return Verdict::Found;
    return cut ? Verdict::Inconclusive : Verdict::Exhausted;
  }
};

static std::string slug(const std::string &m) {
  std::string r;
  for (char c : m) {
    if (isalnum((unsigned char)c))
      r += (char)tolower(c);
    else if (!r.empty() && r.back() != '_')
      r += '_';
    if (r.size() >= 48)
      break;
  }
  return r;
}

static std::string trace_str(const std::vector<CondEv> &tr) {
  std::string s;
  for (auto &e : tr)
    s += std::string(e.is_assert ? "assert" : "assume") + "(" + *e.text + ")=" + (e.outcome ? "T" : "F") + "; ";
  return s;
}
static std::string path_str(const std::vector<label_t> &p) {
  std::string s;
  for (auto &l : p)
    s += l + " ";
  return s;
}

// ---- well-formedness ---------------------------------------------------------------
static void check_wellformed(CaseCtx &ctx, const std::string &T, const cfg_t &orig, const cfg_t &c) {
  std::set<label_t> L;
  for (auto it = c.label_begin(); it != c.label_end(); ++it)
    L.insert(*it);
  VCHECK(ctx, "C17", c.entry() == orig.entry(), T + "_wf_entry_changed", "entry was " << orig.entry() << ", is " << c.entry());
  VCHECK(ctx, "C17", L.count(c.entry()) > 0, T + "_wf_entry_block_missing", "entry block " << c.entry() << " is not a block of the transformed cfg");
  VCHECK(ctx, "C17", c.has_exit(), T + "_wf_exit_dropped", "the transformed cfg has no exit (the original has exit " << orig.exit() << ")");
  VCHECK(ctx, "C17", L.count(c.exit()) > 0, T + "_wf_exit_block_missing", "exit block " << c.exit() << " is not a block of the transformed cfg");
  for (auto &l : L) {
    const block_t &b = c.get_node(l);
    for (auto const &n : boost::make_iterator_range(b.next_blocks())) {
      VCHECK(ctx, "C17", L.count(n) > 0, T + "_wf_dangling_successor", "block " << l << " has successor " << n << " which does not exist");
      const block_t &nb = c.get_node(n);
      auto pr = nb.prev_blocks();
      VCHECK(ctx, "C17", std::find(pr.first, pr.second, l) != pr.second, T + "_wf_succ_without_pred",
             n << " in next(" << l << ") but " << l << " not in prev(" << n << ")");
    }
    for (auto const &p : boost::make_iterator_range(b.prev_blocks())) {
      VCHECK(ctx, "C17", L.count(p) > 0, T + "_wf_dangling_predecessor", "block " << l << " has predecessor " << p << " which does not exist");
      const block_t &pb = c.get_node(p);
      auto nx = pb.next_blocks();
      VCHECK(ctx, "C17", std::find(nx.first, nx.second, l) != nx.second, T + "_wf_pred_without_succ",
             p << " in prev(" << l << ") but " << l << " not in next(" << p << ")");
    }
    for (auto const &s : b)
      if (s.get_parent() != &b)
        R().diag(T + "_statement_parent_pointer_stale");
  }
}

// ---- behaviour ----------------------------------------------------------------------------
struct DirStats {
  unsigned reached_exit = 0, found = 0, inconclusive = 0;
};

// every exit-reaching execution of A (from the given initial states) has a counterpart in B
static DirStats compare_dir(CaseCtx &ctx, Tape &t, TextCache &tc, const std::string &tag, const char *what, cfg_t &A, cfg_t &B,
                            const std::vector<var_t> &outputs, const std::vector<State> &inits, unsigned runs_per_init) {
  DirStats ds;
  for (auto &init : inits) {
    for (unsigned r = 0; r < runs_per_init; r++) {
      Runner run(A, t, tc, A.entry(), init);
      run.max_blocks = 30;
      run.run();
      R().cls(std::string("exec_stop_") + (run.reached_exit ? "exit" : stop_name(run.end)));
      if (run.end == Stop::Outside)
        R().trunc(run.outside_reason);
      if (!run.reached_exit)
        continue;
      ds.reached_exit++;
      Matcher m(B, tc, run.trace, run.havoc_rec, outputs, run.st);
      Verdict v = m.search(init);
      if (v == Verdict::Found) {
        ds.found++;
        continue;
      }
      if (v == Verdict::Inconclusive) {
        ds.inconclusive++;
        R().diag("counterpart_search_inconclusive");
        continue;
      }
      VCHECK(ctx, "C17", false, tag, what << ": from initial state " << init.str() << " the execution [" << path_str(run.path)
                                          << "] ends at the exit with trace {" << trace_str(run.trace) << "} outputs "
                                          << outputs_str(outputs, run.st) << " but the other cfg has no execution with this trace and outputs ("
                                          << m.block_execs << " blocks explored)");
    }
  }
  return ds;
}

namespace verif {
void run_case(const uint8_t *data, size_t size, CaseCtx &ctx) {
  Tape t(data, size);
  crab::CrabSanityCheckFlag = false;
  crab::CrabWarningFlag = false;
  crab::domains::crab_domain_params_man::get() = crab::domains::crab_domain_params();

  // ---- parameters (decoded first so that a long program cannot starve them) -----------
  unsigned nstages = 1 + t.pick(3);
  std::vector<unsigned> kinds;
  for (unsigned i = 0; i < nstages; i++)
    kinds.push_back(t.pick(3));
  unsigned ninit = 2 + t.pick(3);

  // ---- program ---------------------------------------------------------------------
  unsigned caps = CAP_ARITH | CAP_BITWISE | CAP_CAST | CAP_BOOL | CAP_SELECT | CAP_HAVOC | CAP_UNREACHABLE | CAP_ASSERT |
                  CAP_NONLINEAR | CAP_DISEQ | CAP_UNSTRUCTURED;
  if (t.pick(3) == 2)
    caps |= CAP_ARRAY;
  FuncProgram fp;
  build_function(t, fp, caps);
  cfg_t &cfg0 = *fp.prog.cfg;
  std::string text0 = full_text(cfg0);
  ctx.log << text0;
  ctx.mixs(text0);
  type_check(cfg0);
  const FuncShape &sh = fp.shape;
  R().cls(fp.prog.structured ? "shape_structured" : "shape_unstructured");
  if (fp.with_arrays) R().cls("with_arrays");
  if (sh.has_unreachable_block) R().cls("has_block_unreachable_from_entry");
  if (sh.has_deadend_block) R().cls("has_block_not_reaching_exit");
  if (sh.has_self_loop) R().cls("has_self_loop");
  if (sh.entry_in_cycle) R().cls("entry_in_cycle");
  if (sh.exit_has_succ) R().cls("exit_has_successors");
  if (sh.midblock_unreachable) R().cls("unreachable_stmt_mid_block");
  if (!sh.exit_reachable) R().cls("exit_not_reachable_from_entry");
  if (fp.prog.n_loops) R().cls("has_loop");

  // ---- stages -----------------------------------------------------------------------------
  std::vector<State> inits;
  for (unsigned i = 0; i < ninit; i++)
    inits.push_back(initial_state(t, fp));
  for (auto k : kinds)
    ctx.mix(k + 1);

  TextCache tc;
  std::vector<std::unique_ptr<cfg_t>> owned;
  cfg_t *prev = &cfg0;
  bool any_nt = false;
  static const char *KN[] = {"simplify", "dce", "lsa"};
  for (unsigned si = 0; si < nstages; si++) {
    unsigned kind = kinds[si];
    std::string T = KN[kind];
    R().cls("stage_" + T);
    std::string prev_text = full_text(*prev);
    owned.emplace_back(prev->clone());
    cfg_t &cur = *owned.back();
    VCHECK(ctx, "C17", full_text(cur) == prev_text, "clone_differs_from_original", "clone() printed:\n" << full_text(cur) << "original:\n" << prev_text);
    bool exit_succ = shape_of(*prev).exit_has_succ;
    // -- transformation
    unsigned lowered = 0;
    try {
      if (kind == 0) {
        cur.simplify();
      } else if (kind == 1) {
        dce_t dce;
        cfg_ref_t ref(cur);
        dce.run(ref);
      } else {
        cfg_ref_t ref(cur);
        std::set<const stmt_t *> safe;
        bool analysed = false;
        try {
          crab::fixpoint_parameters fpar;
          dom_t top;
          analyzer_t a(ref, top.make_top(), nullptr, fpar);
          typename analyzer_t::assumption_map_t assumptions;
          g_step_count = 0;
          g_step_budget = 400000;
          a.run(cur.entry(), top.make_top(), assumptions);
          g_step_budget = ~0UL;
          typename checker_t::prop_checker_ptr prop(new assert_checker_t(0));
          checker_t checker(a, {prop});
          checker.run();
          safe.insert(prop->get_safe_checks().begin(), prop->get_safe_checks().end());
          analysed = true;
        } catch (const crab_error &e) {
          g_step_budget = ~0UL;
          R().cls("lsa_analysis_rejected:" + slug(e.what()));
        } catch (const step_budget_exceeded &) {
          g_step_budget = ~0UL;
          R().cls("lsa_analysis_step_budget");
        }
        if (!analysed) {
          owned.pop_back();
          continue;
        }
        lowered = (unsigned)safe.size();
        lsa_t lsa(safe);
        lsa.run(ref);
      }
    } catch (const crab_error &e) {
      VCHECK(ctx, "C17", false, T + "_raises_crab_error_" + slug(e.what()), T << " raised CRAB_ERROR on a well-formed cfg: " << e.what());
      throw; // property not selected: count as rejection
    }
    VCHECK(ctx, "C17", full_text(*prev) == prev_text, T + "_modifies_the_cfg_it_was_cloned_from", "the source cfg changed while its clone was transformed");
    std::string cur_text;
    try {
      check_wellformed(ctx, T, *prev, cur);
      cur_text = full_text(cur);
    } catch (const crab_error &e) {
      VCHECK(ctx, "C17", false, T + "_wf_crab_error_" + slug(e.what()), "inspecting the transformed cfg raised " << e.what());
      throw;
    }
    bool changed = cur_text != prev_text;
    R().cls(T + (changed ? "_changed_cfg" : "_unchanged_cfg"));
    if (kind == 2 && lowered)
      R().cls("lsa_lowered_some_assertion");
    ctx.log << "--- after " << T << (changed ? "" : " (unchanged)") << ":\n";
    if (changed)
      ctx.log << cur_text;
    // -- behaviour, both directions
    std::string sfx = exit_succ ? "_exitsucc" : "";
    if (kind == 1) {
      // classifier: liveness seeds the function outputs at the first node of crab's
      // reverse weak topological order; is that node the exit block?
      cfg_ref_t pref(cur); // same graph as before the transformation, same container order as dce saw
      auto order = crab::analyzer::graph_algo::weak_rev_topo_sort(pref);
      if (!order.empty() && !(order[0] == prev->exit())) {
        sfx += "_liveseed_not_at_exit";
        R().cls("dce_rev_order_first_node_is_not_exit");
      }
    }
    DirStats d1 = compare_dir(ctx, t, tc, T + "_original_execution_lost" + sfx, "original -> transformed", *prev, cur, fp.outputs, inits, 2);
    DirStats d2 = compare_dir(ctx, t, tc, T + "_new_execution_introduced" + sfx, "transformed -> original", cur, *prev, fp.outputs, inits, 1);
    if (d1.reached_exit + d2.reached_exit > 0)
      R().cls("stage_with_exit_reaching_execution");
    if (changed && d1.reached_exit > 0 && d1.found > 0) {
      any_nt = true;
      R().cls(T + "_nontrivial");
    }
    ctx.log << "    executions reaching exit: orig " << d1.reached_exit << " (matched " << d1.found << ", inconclusive " << d1.inconclusive
            << "), transformed " << d2.reached_exit << " (matched " << d2.found << ", inconclusive " << d2.inconclusive << ")\n";
    prev = &cur;
  }
  ctx.nontrivial = any_nt;
}
} // namespace verif
