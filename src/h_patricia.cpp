// C19 -- environment maps and sets behave as their mathematical counterparts.
//
// Part A (modes env_*): ikos::separate_domain<Key,Value> against the model
//   "total map Key -> Value with default top, plus one bottom element":
//   std::map<uint64_t,Value> holding only the non-top bindings + a bottom flag.
//   Operation histories over 4 environments that share structure through
//   copies: set, -=, join(k,v), | & || && widening_thresholds, rename, project,
//   copy, top()/bottom()/set_to_bottom(). After every step: at(k) on all keys
//   of the pool and on never-bound neighbour keys, find(k), iteration lists
//   exactly the non-top bindings once, size(), is_top(), is_bottom(), and
//   (A <= B) <=> pointwise <= for the pairs involving the modified env.
//   The pointwise results of | & || && are computed with the VALUE lattice's
//   own operators (the value lattice is tested by other properties).
// Part B (mode pset): ikos::patricia_tree_set<Key> against std::set<uint64_t>.
// Part C (mode dd): ikos::discrete_domain<Key> and
//   crab::domains::set_domain<Key,less> in lockstep against
//   (bool top, std::set<uint64_t>).
//
// Keys: a harness type deriving crab::indexable with arbitrary 64-bit indices
// (0, 1, 2^k, 2^k+-1, 2^63.., 2^64-1.., clustered prefixes, dense ranges,
// one-bit siblings) so that the patricia branching bits vary over all 64 bits.
#include "core/report.hpp"
#include "core/tape.hpp"

#include <crab/domains/boolean.hpp>
#include <crab/domains/constant.hpp>
#include <crab/domains/interval.hpp>
#include <crab/domains/separate_domains.hpp> // + patricia_trees, discrete_domains
#include <crab/fixpoint/thresholds.hpp>

#include <algorithm>
#include <functional>
#include <map>
#include <set>
#include <string>
#include <vector>

using namespace verif;
using ikos::z_number;

namespace verif {
const char *harness_name() { return "h_patricia"; }
} // namespace verif

static const char *P = "C19";

// classifier tags of the finding candidates (see the final report of the round)
static const char *K_JOINKV = "sep_join_kv_stores_top";
static const char *K_LEQLEAF = "sep_leq_leaf_vs_leaf_distinct_keys";
static const char *K_DDEQ = "dd_eq_top_vs_empty";
static const char *K_SDEQ = "setdom_eq_top_vs_empty";

namespace c19 {
class Key : public crab::indexable {
  uint64_t m_id;

public:
  explicit Key(uint64_t id) : m_id(id) {}
  Key(const Key &) = default;
  Key &operator=(const Key &) = default;
  ikos::index_t index() const override { return m_id; }
  uint64_t id() const { return m_id; }
  static std::string name(uint64_t id) {
    if (id < 4096)
      return "k" + std::to_string(id);
    static const char *hx = "0123456789abcdef";
    std::string s;
    for (uint64_t v = id; v; v >>= 4)
      s.insert(s.begin(), hx[v & 15]);
    return "k0x" + s;
  }
  void write(crab::crab_os &o) const override { o << name(m_id); }
  bool operator<(const Key &o) const { return m_id < o.m_id; }
  bool operator==(const Key &o) const { return m_id == o.m_id; }
};
inline crab::crab_os &operator<<(crab::crab_os &o, const Key &k) {
  k.write(o);
  return o;
}
} // namespace c19
using c19::Key;
static std::string kn(uint64_t id) { return Key::name(id); }

template <class T> static std::string str(const T &x) {
  crab::crab_string_os os;
  os << x;
  return os.str();
}

static bool known_excluded(const char *tag) {
  if (R().is_known(tag)) {
    R().excl(tag);
    return true;
  }
  return false;
}

// ---------------------------------------------------------------------------
// key pool
// ---------------------------------------------------------------------------
struct KeyPool {
  std::vector<uint64_t> pool;
  std::vector<uint64_t> probes; // pool + never-bound neighbours
  uint64_t base = 0;

  bool has(uint64_t k) const { return std::find(pool.begin(), pool.end(), k) != pool.end(); }
  uint64_t gen(Tape &t) {
    unsigned b = t.u8();
    unsigned kind = b % 10, par = b / 10; // par in 0..25
    switch (kind) {
    case 0: return par % 16; // dense small range
    case 1: return (uint64_t)1 << (t.u8() % 64);
    case 2: {
      unsigned s = t.u8() % 65;
      return s == 64 ? ~(uint64_t)0 : (((uint64_t)1 << s) - 1);
    }
    case 3: return ((uint64_t)1 << (t.u8() % 64)) + 1;
    case 4: return ((uint64_t)1 << 63) + par;
    case 5: return ~(uint64_t)0 - par;
    case 6: return base + par; // clustered prefix, dense low bits
    case 7: return base ^ ((uint64_t)1 << (t.u8() % 64));
    case 8:
      return pool.empty() ? par : pool[par % pool.size()] ^ ((uint64_t)1 << (t.u8() % 64));
    default: return t.u64();
    }
  }
  uint64_t add_fresh(Tape &t) {
    uint64_t k = gen(t);
    while (has(k))
      k++;
    pool.push_back(k);
    rebuild_probes();
    return k;
  }
  void rebuild_probes() {
    std::set<uint64_t> in(pool.begin(), pool.end());
    probes = pool;
    auto add = [&](uint64_t k) {
      if (in.insert(k).second)
        probes.push_back(k);
    };
    for (size_t i = 0; i < pool.size() && i < 6; i++) {
      add(pool[i] ^ 1);
      add(pool[i] ^ ((uint64_t)1 << 63));
      add(pool[i] + 1);
    }
  }
  void init(Tape &t, CaseCtx &ctx) {
    uint64_t hi = t.u8(), mid = t.u8();
    unsigned sh = t.u8() % 49;
    base = (hi << 56) ^ (mid << sh);
    unsigned n = 4 + t.pick(9);
    for (unsigned i = 0; i < n; i++) {
      uint64_t k = gen(t);
      while (has(k))
        k++;
      pool.push_back(k);
    }
    rebuild_probes();
    ctx.log << "keys:";
    for (auto k : pool)
      ctx.log << " " << kn(k);
    ctx.log << "\n";
    // distribution of the branching structure
    uint64_t orall = 0, andall = ~(uint64_t)0;
    for (auto k : pool)
      orall |= k, andall &= k;
    uint64_t diff = orall & ~andall;
    if (diff >> 63)
      R().cls("keys_differ_in_bit63");
    if (diff >> 32)
      R().cls("keys_differ_above_bit31");
    if ((diff & 0xff) && (diff >> 32))
      R().cls("keys_differ_low_and_high");
  }
  uint64_t pick(Tape &t) { return pool[t.u8() % pool.size()]; }
  // 1..maxn distinct pool keys: start, count, stride (3 bytes)
  std::vector<uint64_t> pick_many(Tape &t, unsigned maxn) {
    unsigned n = 1 + t.u8() % maxn, s = t.u8(), stride = 1 + t.u8() % 3;
    std::vector<uint64_t> r;
    for (unsigned i = 0; i < n; i++) {
      uint64_t k = pool[(s + i * stride) % pool.size()];
      if (std::find(r.begin(), r.end(), k) == r.end())
        r.push_back(k);
    }
    return r;
  }
};

// Does the canonical patricia comparison "A <= B" (default = top) of key sets
// A and B descend -- through nodes with identical (prefix, branching bit), or
// from a left node into the branch that covers the whole right tree -- down
// to a pair of single leaves with different keys?  This is the exact
// structural condition of finding candidate K_LEQLEAF; used only to give
// that failure its own narrow tag / exclusion.
static bool leaf_vs_leaf_reached(const std::vector<uint64_t> &A, const std::vector<uint64_t> &B) {
  if (A.empty() || B.empty())
    return false;
  if (A.size() == 1 && B.size() == 1)
    return A[0] != B[0];
  if (A.size() == 1 || B.size() == 1)
    return false;
  auto top_bit = [](const std::vector<uint64_t> &S) {
    uint64_t o = 0, a = ~(uint64_t)0;
    for (auto k : S)
      o |= k, a &= k;
    uint64_t d = o & ~a; // non-zero: at least 2 distinct keys
    int b = 63;
    while (!((d >> b) & 1))
      b--;
    return b;
  };
  int ba = top_bit(A), bb = top_bit(B);
  if (ba < bb)
    return false; // the walk answers false at once (right has more keys)
  // same prefix above the left branching bit?
  uint64_t above = ba == 63 ? 0 : (~(uint64_t)0 << (ba + 1));
  if ((A[0] & above) != (B[0] & above))
    return false;
  std::vector<uint64_t> A0, A1, B0, B1;
  for (auto k : A)
    (((k >> ba) & 1) ? A1 : A0).push_back(k);
  if (ba > bb) // right tree lies entirely below one branch of the left node
    return leaf_vs_leaf_reached(((B[0] >> ba) & 1) ? A1 : A0, B);
  for (auto k : B)
    (((k >> ba) & 1) ? B1 : B0).push_back(k);
  return leaf_vs_leaf_reached(A0, B0) || leaf_vs_leaf_reached(A1, B1);
}

// ---------------------------------------------------------------------------
// value lattices
// ---------------------------------------------------------------------------
using interval_t = ikos::interval<z_number>;
using bound_t = ikos::bound<z_number>;
using constant_t = crab::domains::constant<z_number>;
using boolean_t = crab::domains::boolean_value;
using dd_t = ikos::discrete_domain<Key>;
using thresholds_t = crab::thresholds<z_number>;

template <class V> struct VT;
template <> struct VT<interval_t> {
  static const char *name() { return "interval"; }
  static constexpr bool has_wt = true;
  static interval_t gen(Tape &t) {
    unsigned b = t.u8();
    if (b == 253 || b == 254)
      return interval_t::bottom();
    if (b >= 248 && b <= 252)
      return interval_t::top();
    int64_t a = t.small_int(6);
    unsigned w = b / 6;
    switch (b % 6) {
    case 0: return interval_t(z_number(a));
    case 1: return interval_t(bound_t(z_number(a)), bound_t(z_number(a + 1 + (int64_t)(w % 4))));
    case 2: return interval_t(bound_t(z_number(a)), bound_t::plus_infinity());
    case 3: return interval_t(bound_t::minus_infinity(), bound_t(z_number(a)));
    case 4: return interval_t(bound_t(z_number(a - (int64_t)(w % 8))), bound_t(z_number(a + (int64_t)(w % 5))));
    default: return interval_t(bound_t(z_number(a * 16)), bound_t(z_number(a * 16 + (int64_t)w)));
    }
  }
  static interval_t wt(const interval_t &a, const interval_t &b, const thresholds_t &ts) {
    return a.widening_thresholds(b, ts);
  }
};
template <> struct VT<constant_t> {
  static const char *name() { return "constant"; }
  static constexpr bool has_wt = true;
  static constant_t gen(Tape &t) {
    unsigned b = t.u8();
    if (b == 253 || b == 254)
      return constant_t::bottom();
    if (b >= 248 && b <= 252)
      return constant_t::top();
    return constant_t(z_number((int64_t)(b % 4)));
  }
  static constant_t wt(const constant_t &a, const constant_t &b, const thresholds_t &ts) {
    return a.widening_thresholds(b, ts);
  }
};
template <> struct VT<boolean_t> {
  static const char *name() { return "boolean"; }
  static constexpr bool has_wt = false;
  static boolean_t gen(Tape &t) {
    unsigned b = t.u8();
    if (b == 253 || b == 254)
      return boolean_t::bottom();
    if (b >= 248 && b <= 252)
      return boolean_t::top();
    return (b & 1) ? boolean_t::get_true() : boolean_t::get_false();
  }
  static boolean_t wt(const boolean_t &a, const boolean_t &b, const thresholds_t &) { return a || b; }
};
template <> struct VT<dd_t> {
  static const char *name() { return "discrete"; }
  static constexpr bool has_wt = false;
  static dd_t gen(Tape &t) {
    unsigned b = t.u8();
    if (b == 253 || b == 254)
      return dd_t::bottom();
    if (b >= 248 && b <= 252)
      return dd_t::top();
    unsigned mask = (b % 15) + 1; // non-empty subset of 4 elements
    dd_t r;
    for (unsigned i = 0; i < 4; i++)
      if (mask & (1u << i))
        r += Key(i * 3);
    return r;
  }
  static dd_t wt(const dd_t &a, const dd_t &b, const thresholds_t &) { return a || b; }
};

// ---------------------------------------------------------------------------
// Part A: separate_domain
// ---------------------------------------------------------------------------
enum { B_JOIN, B_MEET, B_WIDEN, B_NARROW, B_WIDEN_TS };
static const char *bin_name[] = {"|", "&", "||", "&&", "widening_thresholds"};

template <class V> struct EnvRun {
  using env_t = ikos::separate_domain<Key, V>;
  struct Model {
    bool bot = false;
    std::map<uint64_t, V> m;
    void put(uint64_t k, const V &v) {
      m.erase(k);
      m.emplace(k, v);
    }
    std::vector<uint64_t> keys() const {
      std::vector<uint64_t> r;
      for (auto &kv : m)
        r.push_back(kv.first);
      return r;
    }
  };
  Tape &t;
  CaseCtx &ctx;
  KeyPool kp;
  std::set<uint64_t> used; // keys ever bound
  env_t E[4];
  Model M[4];
  int root[4] = {0, 1, 2, 3};
  int next_root = 4;
  bool nt_merge = false, nt_leq = false;

  EnvRun(Tape &t_, CaseCtx &c) : t(t_), ctx(c) {}

  static bool veq(const V &a, const V &b) { return a <= b && b <= a; }
  static V mat(const Model &M, uint64_t k) {
    if (M.bot)
      return V::bottom();
    auto it = M.m.find(k);
    return it == M.m.end() ? V::top() : it->second;
  }
  static V vapply(int op, const V &a, const V &b, const thresholds_t *ts) {
    switch (op) {
    case B_JOIN: return a | b;
    case B_MEET: return a & b;
    case B_WIDEN: return a || b;
    case B_NARROW: return a && b;
    default: return VT<V>::wt(a, b, *ts);
    }
  }
  static Model mbin(int op, const Model &A, const Model &B, const thresholds_t *ts) {
    bool meetlike = (op == B_MEET || op == B_NARROW);
    Model r;
    if (meetlike) {
      if (A.bot || B.bot) {
        r.bot = true;
        return r;
      }
    } else {
      if (A.bot)
        return B;
      if (B.bot)
        return A;
    }
    std::set<uint64_t> ks;
    for (auto &kv : A.m)
      ks.insert(kv.first);
    for (auto &kv : B.m)
      ks.insert(kv.first);
    for (auto k : ks) {
      V v = vapply(op, mat(A, k), mat(B, k), ts);
      if (v.is_bottom()) {
        if (!meetlike)
          throw Truncate{"value_lattice_join_gave_bottom"};
        r.m.clear();
        r.bot = true;
        return r;
      }
      if (!v.is_top())
        r.put(k, v);
    }
    return r;
  }
  static bool mleq(const Model &A, const Model &B) {
    if (A.bot)
      return true;
    if (B.bot)
      return false;
    for (auto &kv : A.m)
      if (!(kv.second <= mat(B, kv.first)))
        return false;
    for (auto &kv : B.m)
      if (!(mat(A, kv.first) <= kv.second))
        return false;
    return true;
  }
  std::string mstr(const Model &m) {
    if (m.bot)
      return "_|_";
    std::string s = "{";
    for (auto &kv : m.m)
      s += kn(kv.first) + "->" + str(kv.second) + ";";
    return s + "}";
  }

  // full observation of one environment against its model
  void check_env(int i, const char *after) {
    const env_t &e = E[i];
    const Model &m = M[i];
    std::string where = std::string(" [E") + std::to_string(i) + " after " + after + "] model=" + mstr(m);
    VCHECK(ctx, P, e.is_bottom() == m.bot, "sep_is_bottom", "is_bottom()=" << e.is_bottom() << where);
    VCHECK(ctx, P, e.is_top() == (!m.bot && m.m.empty()), "sep_is_top",
           "is_top()=" << e.is_top() << " real=" << str(e) << where);
    for (auto k : kp.probes) {
      V got = e.at(Key(k));
      V exp = mat(m, k);
      VCHECK(ctx, P, veq(got, exp), "sep_at", "at(" << kn(k) << ")=" << str(got) << " expected " << str(exp) << where);
      if (!m.bot) {
        const V *f = e.find(Key(k));
        bool bound = m.m.count(k) > 0;
        VCHECK(ctx, P, (f != nullptr) == bound, "sep_find_presence",
               "find(" << kn(k) << ") " << (f ? "found" : "null") << where);
        if (f)
          VCHECK(ctx, P, veq(*f, exp), "sep_find_value", "find(" << kn(k) << ")=" << str(*f) << where);
      }
    }
    if (!m.bot) {
      std::set<uint64_t> seen;
      size_t n = 0;
      for (auto it = e.begin(), et = e.end(); it != et; ++it) {
        uint64_t k = it->first.id();
        V v = it->second;
        VCHECK(ctx, P, ++n <= m.m.size() + 64, "sep_iter_runaway", "iteration does not end" << where);
        VCHECK(ctx, P, seen.insert(k).second, "sep_iter_duplicate", "iteration lists " << kn(k) << " twice" << where);
        VCHECK(ctx, P, !v.is_top(), "sep_iter_top_binding",
               "iteration lists the top binding " << kn(k) << "->" << str(v) << where);
        auto f = m.m.find(k);
        VCHECK(ctx, P, f != m.m.end(), "sep_iter_extra_binding",
               "iteration lists " << kn(k) << "->" << str(v) << " which the model does not bind" << where);
        VCHECK(ctx, P, veq(v, f->second), "sep_iter_wrong_value",
               "iteration lists " << kn(k) << "->" << str(v) << where);
      }
      VCHECK(ctx, P, seen.size() == m.m.size(), "sep_iter_missing_binding",
             "iteration lists " << seen.size() << " bindings, model has " << m.m.size() << " real=" << str(e) << where);
      if (!m.m.empty())
        VCHECK(ctx, P, e.size() == m.m.size(), "sep_size", "size()=" << e.size() << where);
    } else {
      VCHECK(ctx, P, e.size() == 0, "sep_size_bottom", "size() of bottom = " << e.size() << where);
    }
  }

  bool overlapping_different(int a, int b) const {
    if (M[a].bot || M[b].bot)
      return false;
    bool common = false, differ = false;
    for (auto &kv : M[a].m)
      (M[b].m.count(kv.first) ? common : differ) = true;
    for (auto &kv : M[b].m)
      if (!M[a].m.count(kv.first))
        differ = true;
    return common && differ;
  }

  void check_leq(int a, int b, const char *after, bool explicit_op) {
    bool exp = mleq(M[a], M[b]);
    std::string where = std::string(" [E") + std::to_string(a) + "<=E" + std::to_string(b) + " after " + after +
                        "] left=" + mstr(M[a]) + " right=" + mstr(M[b]);
    bool leafleaf = !M[a].bot && !M[b].bot && leaf_vs_leaf_reached(M[a].keys(), M[b].keys());
    if (leafleaf && !exp) {
      R().cls("leq_leaf_vs_leaf_shape");
      if (known_excluded(K_LEQLEAF))
        return;
    }
    bool got = E[a] <= E[b];
    if (explicit_op) {
      R().cls(got ? "leq_op_answer_yes" : "leq_op_answer_no");
      if (M[a].bot || M[b].bot)
        R().cls("leq_op_with_bottom");
    }
    R().cls(exp ? "leq_checked_expected_yes" : "leq_checked_expected_no");
    if (got && !exp) {
      // narrow tag for the candidate: the only pointwise violation is on keys
      // bound on the right and unbound on the left, and the tree walk reaches
      // two different single leaves.
      bool common_ok = true;
      for (auto &kv : M[a].m)
        if (!(kv.second <= mat(M[b], kv.first)))
          common_ok = false;
      VCHECK(ctx, P, !(leafleaf && common_ok), K_LEQLEAF,
             "operator<= answers true but the right env binds a key that is top on the left" << where);
      VCHECK(ctx, P, false, "sep_leq_true_but_not_pointwise", "operator<= answers true" << where);
    }
    VCHECK(ctx, P, got == exp, "sep_leq_false_but_pointwise", "operator<= answers false" << where);
    if (a != b && overlapping_different(a, b))
      nt_leq = true;
    if (explicit_op) {
      bool eq = (E[a] == E[b]);
      bool expeq = exp && mleq(M[b], M[a]);
      bool ll2 = !M[a].bot && !M[b].bot && leaf_vs_leaf_reached(M[b].keys(), M[a].keys());
      // operator== is (a<=b && b<=a): the reverse test may hit the same candidate
      if (ll2 && eq && !expeq) {
        if (!known_excluded(K_LEQLEAF))
          VCHECK(ctx, P, false, K_LEQLEAF, "operator== answers true (reverse inclusion wrongly true)" << where);
      } else
        VCHECK(ctx, P, eq == expeq, "sep_eq", "operator== answers " << eq << where);
    }
  }
  void check_pairs_with(int d, const char *after) {
    for (int x = 0; x < 4; x++) {
      check_leq(d, x, after, false);
      if (x != d)
        check_leq(x, d, after, false);
    }
  }

  void note_merge(int a, int b) {
    R().cls("merges");
    if (a == b)
      R().cls("merge_self");
    else if (root[a] == root[b] && !M[a].m.empty() && !M[b].m.empty())
      R().cls("merge_shared_lineage");
    if (M[a].bot || M[b].bot)
      R().cls("merge_with_bottom");
    if (a != b && overlapping_different(a, b)) {
      R().cls("merge_overlapping_different_keysets");
      nt_merge = true;
    }
    if (!M[a].bot && !M[b].bot) {
      bool disjoint = true, nested = true, nested2 = true;
      for (auto &kv : M[a].m) {
        if (M[b].m.count(kv.first))
          disjoint = false;
        else
          nested = false;
      }
      for (auto &kv : M[b].m)
        if (!M[a].m.count(kv.first))
          nested2 = false;
      if (!M[a].m.empty() && !M[b].m.empty()) {
        if (disjoint)
          R().cls("merge_disjoint_keysets");
        else if ((nested || nested2) && M[a].m.size() != M[b].m.size())
          R().cls("merge_nested_keysets");
      }
    }
  }

  void bind_note(uint64_t k) { used.insert(k); }

  void step() {
    // the driver's byte mixture favours 0..8 and 0xff: spread the operations
    static const uint8_t table[32] = {0, 1, 4, 5, 9,  3, 6,  7, 2, 13, 10, 11, 8, 1,  4,  5,
                                      0, 10, 11, 13, 12, 9, 1, 3, 6, 7,  2,  8,  4, 5, 13, 1};
    unsigned op = table[t.u8() % 32];
    unsigned sel = t.u8();
    int a = sel & 3, boff = (sel >> 2) & 7, d = (sel >> 5) & 3;
    int b = boff == 7 ? a : ((a + 1 + boff % 3) & 3);
    if (sel & 128)
      d = a;
    switch (op) {
    case 0: { // set
      uint64_t k = kp.pick(t);
      V v = VT<V>::gen(t);
      ctx.log << "E" << a << ".set(" << kn(k) << "," << str(v) << ")\n";
      R().cls("op_set");
      if (v.is_bottom())
        R().cls("set_bottom_value");
      if (v.is_top())
        R().cls("set_top_value");
      E[a].set(Key(k), v);
      Model &m = M[a];
      if (!m.bot) {
        if (v.is_bottom())
          m.bot = true, m.m.clear();
        else if (v.is_top())
          m.m.erase(k);
        else
          m.put(k, v), bind_note(k);
      }
      check_env(a, "set");
      check_pairs_with(a, "set");
      break;
    }
    case 1: { // set many
      std::vector<uint64_t> ks = kp.pick_many(t, 8);
      unsigned vb = t.u8();
      ctx.log << "E" << a << ".set-many:";
      R().cls("op_set_many");
      for (size_t i = 0; i < ks.size(); i++) {
        // cheap deterministic non-top non-bottom values
        uint8_t bytes[2] = {(uint8_t)((vb + 7 * i) % 240), (uint8_t)((vb >> 3) + i)};
        Tape vt(bytes, 2);
        V v = VT<V>::gen(vt);
        uint64_t k = ks[i];
        ctx.log << " " << kn(k) << "=" << str(v);
        E[a].set(Key(k), v);
        if (!M[a].bot) {
          if (v.is_bottom())
            M[a].bot = true, M[a].m.clear();
          else if (v.is_top())
            M[a].m.erase(k);
          else
            M[a].put(k, v), bind_note(k);
        }
      }
      ctx.log << "\n";
      check_env(a, "set-many");
      check_pairs_with(a, "set-many");
      break;
    }
    case 2: { // forget
      uint64_t k = kp.pick(t);
      ctx.log << "E" << a << " -= " << kn(k) << "\n";
      R().cls("op_forget");
      if (!M[a].bot && M[a].m.count(k))
        R().cls("forget_bound_key");
      E[a] -= Key(k);
      if (!M[a].bot)
        M[a].m.erase(k);
      check_env(a, "-=");
      check_pairs_with(a, "-=");
      break;
    }
    case 3: { // join(k, v): weak update.  v = bottom is never generated
              // (legality unknown: the code turns the env into bottom).
      uint64_t k = kp.pick(t);
      V v = VT<V>::gen(t);
      if (v.is_bottom())
        v = V::top();
      Model &m = M[a];
      V nv = m.bot ? V::bottom() : (mat(m, k) | v);
      bool top_case = !m.bot && m.m.count(k) && !v.is_top() && nv.is_top();
      if (top_case) {
        R().cls("join_kv_result_top_on_bound_key");
        if (known_excluded(K_JOINKV)) {
          ctx.log << "(skipped E" << a << ".join(" << kn(k) << "," << str(v) << "): known finding)\n";
          break;
        }
      }
      ctx.log << "E" << a << ".join(" << kn(k) << "," << str(v) << ")\n";
      R().cls("op_join_kv");
      E[a].join(Key(k), v);
      if (!m.bot) {
        if (nv.is_top())
          m.m.erase(k);
        else
          m.put(k, nv), bind_note(k);
      }
      if (top_case) {
        bool stored_top = false;
        for (auto it = E[a].begin(), et = E[a].end(); it != et; ++it)
          if (it->first.id() == k && it->second.is_top())
            stored_top = true;
        VCHECK(ctx, P, !stored_top, K_JOINKV,
               "after join(" << kn(k) << "," << str(v) << ") the env iterates the binding " << kn(k)
                             << "->top; is_top()=" << E[a].is_top() << " env=" << str(E[a]));
      }
      check_env(a, "join(k,v)");
      check_pairs_with(a, "join(k,v)");
      break;
    }
    case 4:
    case 5:
    case 6:
    case 7:
    case 8: { // binary lattice operations
      int bop = op == 4 ? B_JOIN : op == 5 ? B_MEET : op == 6 ? B_WIDEN : op == 7 ? B_NARROW : B_WIDEN_TS;
      thresholds_t ts;
      if (bop == B_WIDEN_TS) {
        if (!VT<V>::has_wt)
          bop = B_WIDEN;
        else {
          unsigned n = t.pick(4);
          for (unsigned i = 0; i < n; i++)
            ts.add(bound_t(z_number(t.small_int(24))));
        }
      }
      ctx.log << "E" << d << " = E" << a << " " << bin_name[bop] << " E" << b;
      if (bop == B_WIDEN_TS)
        ctx.log << " ts=" << str(ts);
      ctx.log << "\n";
      R().cls(std::string("op_bin_") + (bop == B_JOIN ? "join" : bop == B_MEET ? "meet" : bop == B_WIDEN ? "widen" : bop == B_NARROW ? "narrow" : "widen_ts"));
      note_merge(a, b);
      Model r = mbin(bop, M[a], M[b], &ts);
      if (r.bot && !M[a].bot && !M[b].bot)
        R().cls("meet_pointwise_bottom");
      env_t res = bop == B_JOIN     ? (E[a] | E[b])
                  : bop == B_MEET   ? (E[a] & E[b])
                  : bop == B_WIDEN  ? (E[a] || E[b])
                  : bop == B_NARROW ? (E[a] && E[b])
                                    : wt_call(E[a], E[b], ts);
      int ra = root[a];
      E[d] = res;
      M[d] = r;
      root[d] = ra;
      for (auto &kv : r.m)
        bind_note(kv.first);
      check_env(d, bin_name[bop]);
      if (a != d)
        check_env(a, "being left operand");
      if (b != d && b != a)
        check_env(b, "being right operand");
      check_pairs_with(d, bin_name[bop]);
      break;
    }
    case 9: { // copy
      ctx.log << "E" << d << " = E" << a << "\n";
      R().cls("op_copy");
      if (t.flag()) {
        env_t tmp(E[a]); // copy ctor + move assign
        E[d] = std::move(tmp);
      } else {
        E[d] = E[a];
      }
      M[d] = M[a];
      root[d] = root[a];
      check_env(d, "copy");
      check_pairs_with(d, "copy");
      break;
    }
    case 10: { // rename: sources distinct; targets distinct, not sources, not bound
      unsigned n = 1 + t.pick(3);
      std::vector<uint64_t> from, to;
      for (unsigned i = 0; i < n; i++) {
        uint64_t k = kp.pick(t);
        if (std::find(from.begin(), from.end(), k) == from.end())
          from.push_back(k);
      }
      for (size_t i = 0; i < from.size(); i++) {
        std::vector<uint64_t> cand;
        for (auto k : kp.pool)
          if (!M[a].m.count(k) && std::find(from.begin(), from.end(), k) == from.end() &&
              std::find(to.begin(), to.end(), k) == to.end())
            cand.push_back(k);
        unsigned c = t.u8();
        if (cand.empty() || c >= 224)
          to.push_back(kp.add_fresh(t));
        else
          to.push_back(cand[c % cand.size()]);
      }
      ctx.log << "E" << a << ".rename(";
      std::vector<Key> kf, kt;
      for (size_t i = 0; i < from.size(); i++) {
        ctx.log << (i ? "," : "") << kn(from[i]) << "->" << kn(to[i]);
        kf.push_back(Key(from[i]));
        kt.push_back(Key(to[i]));
      }
      ctx.log << ")\n";
      R().cls("op_rename");
      E[a].rename(kf, kt);
      Model &m = M[a];
      if (!m.bot) {
        for (size_t i = 0; i < from.size(); i++) {
          auto it = m.m.find(from[i]);
          if (it != m.m.end()) {
            V v = it->second;
            m.m.erase(it);
            m.put(to[i], v);
            bind_note(to[i]);
            R().cls("rename_moved_binding");
          }
        }
      }
      check_env(a, "rename");
      check_pairs_with(a, "rename");
      break;
    }
    case 11: { // project
      std::vector<Key> ks;
      std::set<uint64_t> keep;
      ctx.log << "E" << a << ".project(";
      for (auto k : kp.pick_many(t, 12)) {
        ks.push_back(Key(k));
        keep.insert(k);
        ctx.log << kn(k) << " ";
      }
      ctx.log << ")\n";
      R().cls("op_project");
      if (!M[a].bot && M[a].m.size() > 5)
        R().cls((int)ks.size() < (int)M[a].m.size() * 60 / 100 ? "project_big_env_copy_path" : "project_big_env_remove_path");
      E[a].project(ks);
      if (!M[a].bot)
        for (auto it = M[a].m.begin(); it != M[a].m.end();)
          it = keep.count(it->first) ? std::next(it) : M[a].m.erase(it);
      check_env(a, "project");
      check_pairs_with(a, "project");
      break;
    }
    case 12: { // top / bottom
      unsigned w = t.pick(3);
      ctx.log << "E" << a << (w == 0 ? " = top()" : w == 1 ? " = bottom()" : ".set_to_bottom()") << "\n";
      R().cls("op_top_bottom");
      if (w == 0)
        E[a] = env_t::top();
      else if (w == 1)
        E[a] = env_t::bottom();
      else
        E[a].set_to_bottom();
      M[a] = Model();
      M[a].bot = (w != 0);
      root[a] = next_root++;
      check_env(a, "top/bottom");
      check_pairs_with(a, "top/bottom");
      break;
    }
    default: { // explicit inclusion / equality test
      ctx.log << "E" << a << " <= E" << b << " ?\n";
      R().cls("op_leq");
      if (a != b && root[a] == root[b] && !M[a].m.empty() && !M[b].m.empty())
        R().cls("leq_shared_lineage");
      check_leq(a, b, "<=", true);
      break;
    }
    }
  }

  template <class VV = V>
  static typename std::enable_if<VT<VV>::has_wt, env_t>::type wt_call(const env_t &x, const env_t &y, const thresholds_t &ts) {
    return x.widening_thresholds(y, ts);
  }
  template <class VV = V>
  static typename std::enable_if<!VT<VV>::has_wt, env_t>::type wt_call(const env_t &x, const env_t &y, const thresholds_t &) {
    return x || y;
  }

  void run() {
    ctx.log << "mode env_" << VT<V>::name() << "\n";
    R().cls(std::string("mode_env_") + VT<V>::name());
    kp.init(t, ctx);
    unsigned s = 0;
    for (; s < 32 && (s == 0 || !t.exhausted()); s++)
      step();
    for (int i = 0; i < 4; i++)
      check_env(i, "end of case");
    for (int i = 0; i < 4; i++)
      for (int j = 0; j < 4; j++)
        check_leq(i, j, "end of case", false);
    for (int i = 0; i < 4; i++)
      if (M[i].bot)
        R().cls("final_env_bottom");
      else if (M[i].m.size() >= 6)
        R().cls("final_env_ge6_bindings");
    R().cls("steps", s);
    if (used.size() >= 6) {
      R().cls("case_ge6_distinct_keys");
      if (nt_merge)
        R().cls("nontrivial_by_merge");
      if (nt_leq)
        R().cls("nontrivial_by_leq");
      if (nt_merge || nt_leq)
        ctx.nontrivial = true;
    }
  }
};

// ---------------------------------------------------------------------------
// Part B: patricia_tree_set
// ---------------------------------------------------------------------------
struct PSetRun {
  using pset_t = ikos::patricia_tree_set<Key>;
  Tape &t;
  CaseCtx &ctx;
  KeyPool kp;
  pset_t S[4];
  std::set<uint64_t> M[4];
  std::set<uint64_t> used;
  bool nt = false;
  PSetRun(Tape &t_, CaseCtx &c) : t(t_), ctx(c) {}

  std::string mstr(const std::set<uint64_t> &m) {
    std::string s = "{";
    for (auto k : m)
      s += kn(k) + ";";
    return s + "}";
  }
  void check_set(int i, const char *after) {
    const pset_t &s = S[i];
    const auto &m = M[i];
    std::string where = std::string(" [S") + std::to_string(i) + " after " + after + "] model=" + mstr(m) + " real=" + str(s);
    VCHECK(ctx, P, s.size() == m.size(), "pset_size", "size()=" << s.size() << where);
    VCHECK(ctx, P, s.empty() == m.empty(), "pset_empty", "empty()=" << s.empty() << where);
    for (auto k : kp.probes)
      VCHECK(ctx, P, s[Key(k)] == (m.count(k) > 0), "pset_membership", "[" << kn(k) << "]=" << s[Key(k)] << where);
    std::set<uint64_t> seen;
    size_t n = 0;
    for (auto it = s.begin(), et = s.end(); it != et; ++it) {
      uint64_t k = (*it).id();
      VCHECK(ctx, P, ++n <= m.size() + 64, "pset_iter_runaway", "iteration does not end" << where);
      VCHECK(ctx, P, seen.insert(k).second, "pset_iter_duplicate", kn(k) << " listed twice" << where);
      VCHECK(ctx, P, m.count(k), "pset_iter_extra", kn(k) << " listed but not a member" << where);
    }
    VCHECK(ctx, P, seen.size() == m.size(), "pset_iter_missing", "iteration lists " << seen.size() << " elements" << where);
  }
  void check_rel(int a, int b, const char *after, bool explicit_op) {
    bool sub = std::includes(M[b].begin(), M[b].end(), M[a].begin(), M[a].end());
    bool sup = std::includes(M[a].begin(), M[a].end(), M[b].begin(), M[b].end());
    std::string where = std::string(" [S") + std::to_string(a) + " vs S" + std::to_string(b) + " after " + after +
                        "] left=" + mstr(M[a]) + " right=" + mstr(M[b]);
    bool got = S[a] <= S[b];
    if (explicit_op)
      R().cls(got ? "pset_subset_answer_yes" : "pset_subset_answer_no");
    VCHECK(ctx, P, got == sub, got ? "pset_subset_true_but_not_subset" : "pset_subset_false_but_subset",
           "operator<= answers " << got << where);
    VCHECK(ctx, P, (S[a] >= S[b]) == sup, "pset_superset", "operator>= wrong" << where);
    VCHECK(ctx, P, (S[a] == S[b]) == (sub && sup), "pset_equality", "operator== wrong" << where);
    if (a != b && !M[a].empty() && !M[b].empty() && M[a] != M[b]) {
      bool common = false;
      for (auto k : M[a])
        if (M[b].count(k))
          common = true;
      if (common)
        nt = true;
    }
  }
  void check_pairs_with(int d, const char *after) {
    for (int x = 0; x < 4; x++) {
      check_rel(d, x, after, false);
      if (x != d)
        check_rel(x, d, after, false);
    }
  }
  void step() {
    static const uint8_t table[16] = {0, 2, 3, 4, 7, 1, 5, 6, 11, 12, 8, 9, 10, 2, 3, 2};
    unsigned op = table[t.u8() % 16];
    unsigned sel = t.u8();
    int a = sel & 3, boff = (sel >> 2) & 7, d = (sel >> 5) & 3;
    int b = boff == 7 ? a : ((a + 1 + boff % 3) & 3);
    if (sel & 128)
      d = a;
    const char *nm = "";
    switch (op) {
    case 0: {
      uint64_t k = kp.pick(t);
      nm = "+=";
      ctx.log << "S" << a << " += " << kn(k) << "\n";
      S[a] += Key(k);
      M[a].insert(k);
      used.insert(k);
      d = a;
      break;
    }
    case 1: {
      uint64_t k = kp.pick(t);
      nm = "-=";
      ctx.log << "S" << a << " -= " << kn(k) << "\n";
      if (M[a].count(k))
        R().cls("pset_remove_member");
      S[a] -= Key(k);
      M[a].erase(k);
      d = a;
      break;
    }
    case 2: {
      nm = "add-many";
      ctx.log << "S" << a << " add-many:";
      for (auto k : kp.pick_many(t, 8)) {
        S[a] += Key(k);
        M[a].insert(k);
        used.insert(k);
        ctx.log << " " << kn(k);
      }
      ctx.log << "\n";
      d = a;
      break;
    }
    case 3:
    case 4: {
      nm = op == 3 ? "|" : "&";
      ctx.log << "S" << d << " = S" << a << " " << nm << " S" << b << "\n";
      R().cls(op == 3 ? "pset_union" : "pset_intersection");
      std::set<uint64_t> r;
      if (op == 3) {
        r = M[a];
        r.insert(M[b].begin(), M[b].end());
      } else {
        for (auto k : M[a])
          if (M[b].count(k))
            r.insert(k);
      }
      pset_t res = op == 3 ? (S[a] | S[b]) : (S[a] & S[b]);
      S[d] = res;
      M[d] = r;
      if (a != d)
        check_set(a, "being left operand");
      if (b != d && b != a)
        check_set(b, "being right operand");
      break;
    }
    case 5:
    case 6: {
      nm = op == 5 ? "|=" : "&=";
      ctx.log << "S" << a << " " << nm << " S" << b << "\n";
      R().cls(op == 5 ? "pset_union" : "pset_intersection");
      std::set<uint64_t> r;
      if (op == 5) {
        r = M[a];
        r.insert(M[b].begin(), M[b].end());
      } else {
        for (auto k : M[a])
          if (M[b].count(k))
            r.insert(k);
      }
      if (op == 5)
        S[a] |= S[b];
      else
        S[a] &= S[b];
      M[a] = r;
      d = a;
      if (b != a)
        check_set(b, "being right operand");
      break;
    }
    case 7: {
      nm = "copy";
      ctx.log << "S" << d << " = S" << a << "\n";
      S[d] = S[a];
      M[d] = M[a];
      break;
    }
    case 8:
    case 9: {
      uint64_t k = kp.pick(t);
      nm = op == 8 ? "+" : "-";
      ctx.log << "S" << d << " = S" << a << " " << nm << " " << kn(k) << "\n";
      // NOTE: patricia_tree_set::operator+(Element) / operator-(Element) do
      // not compile in the tree under test (they build the result from an
      // lvalue tree, the only tree constructor takes an rvalue; reported as
      // a compile-time defect). The same result is built the way
      // discrete_domain does: copy, then += / -=.
      pset_t res(S[a]);
      if (op == 8)
        res += Key(k);
      else
        res -= Key(k);
      std::set<uint64_t> r = M[a];
      if (op == 8)
        r.insert(k), used.insert(k);
      else
        r.erase(k);
      S[d] = res;
      M[d] = r;
      if (a != d)
        check_set(a, "being operand");
      break;
    }
    case 10: {
      nm = "clear/singleton";
      if (t.flag()) {
        uint64_t k = kp.pick(t);
        ctx.log << "S" << a << " = {" << kn(k) << "}\n";
        S[a] = pset_t(Key(k));
        M[a].clear();
        M[a].insert(k);
        used.insert(k);
      } else {
        ctx.log << "S" << a << ".clear()\n";
        S[a].clear();
        M[a].clear();
      }
      d = a;
      break;
    }
    case 11: { // difference through the public element API (as discrete_domain does)
      nm = "difference";
      ctx.log << "S" << d << " = S" << a << " \\ S" << b << "\n";
      R().cls("pset_difference");
      pset_t res = S[a];
      for (auto it = S[b].begin(), et = S[b].end(); it != et; ++it)
        res -= *it;
      std::set<uint64_t> r;
      for (auto k : M[a])
        if (!M[b].count(k))
          r.insert(k);
      S[d] = res;
      M[d] = r;
      if (a != d)
        check_set(a, "being left operand");
      if (b != d && b != a)
        check_set(b, "being right operand");
      break;
    }
    default: {
      ctx.log << "S" << a << " <= S" << b << " ?\n";
      R().cls("pset_op_subset");
      check_rel(a, b, "<=", true);
      return;
    }
    }
    check_set(d, nm);
    check_pairs_with(d, nm);
  }
  void run() {
    ctx.log << "mode pset\n";
    R().cls("mode_pset");
    kp.init(t, ctx);
    unsigned s = 0;
    for (; s < 32 && (s == 0 || !t.exhausted()); s++)
      step();
    for (int i = 0; i < 4; i++)
      check_set(i, "end of case");
    for (int i = 0; i < 4; i++)
      for (int j = 0; j < 4; j++)
        check_rel(i, j, "end of case", false);
    R().cls("steps", s);
    if (used.size() >= 6 && nt) {
      ctx.nontrivial = true;
      R().cls("nontrivial_pset");
    }
  }
};

// ---------------------------------------------------------------------------
// Part C: discrete_domain and set_domain in lockstep
// ---------------------------------------------------------------------------
struct DDRun {
  using sd_t = crab::domains::set_domain<Key, std::less<Key>>;
  struct Model {
    bool top = false;
    std::set<uint64_t> s;
  };
  Tape &t;
  CaseCtx &ctx;
  KeyPool kp;
  dd_t D[4];
  sd_t S[4];
  Model M[4];
  std::set<uint64_t> used;
  bool nt = false;
  DDRun(Tape &t_, CaseCtx &c) : t(t_), ctx(c) {}

  std::string mstr(const Model &m) {
    if (m.top)
      return "TOP";
    std::string s = "{";
    for (auto k : m.s)
      s += kn(k) + ";";
    return s + "}";
  }
  static bool msub(const Model &a, const Model &b) {
    return b.top || (!a.top && std::includes(b.s.begin(), b.s.end(), a.s.begin(), a.s.end()));
  }
  template <class C> void check_one(C &c, const Model &m, const std::string &pfx, const std::string &where) {
    VCHECK(ctx, P, c.is_top() == m.top, pfx + "_is_top", "is_top()=" << c.is_top() << where);
    VCHECK(ctx, P, c.is_bottom() == (!m.top && m.s.empty()), pfx + "_is_bottom", "is_bottom()=" << c.is_bottom() << where);
    for (auto k : kp.probes)
      VCHECK(ctx, P, c.contain(Key(k)) == (m.top || m.s.count(k) > 0), pfx + "_membership",
             "contain(" << kn(k) << ")=" << c.contain(Key(k)) << where);
    if (!m.top) {
      VCHECK(ctx, P, c.size() == m.s.size(), pfx + "_size", "size()=" << c.size() << where);
      std::set<uint64_t> seen;
      size_t n = 0;
      for (auto it = c.begin(), et = c.end(); it != et; ++it) {
        uint64_t k = (*it).id();
        VCHECK(ctx, P, ++n <= m.s.size() + 64, pfx + "_iter_runaway", "iteration does not end" << where);
        VCHECK(ctx, P, seen.insert(k).second, pfx + "_iter_duplicate", kn(k) << " listed twice" << where);
        VCHECK(ctx, P, m.s.count(k), pfx + "_iter_extra", kn(k) << " listed but not a member" << where);
      }
      VCHECK(ctx, P, seen.size() == m.s.size(), pfx + "_iter_missing", "iteration lists " << seen.size() << where);
    }
  }
  void check_set(int i, const char *after) {
    std::string where = std::string(" [D") + std::to_string(i) + " after " + after + "] model=" + mstr(M[i]) +
                        " dd=" + str(D[i]) + " setdom=" + str(S[i]);
    check_one(D[i], M[i], "dd", where);
    check_one(S[i], M[i], "setdom", where);
  }
  void check_rel(int a, int b, const char *after, bool explicit_op) {
    bool sub = msub(M[a], M[b]), sup = msub(M[b], M[a]);
    std::string where = std::string(" [D") + std::to_string(a) + " vs D" + std::to_string(b) + " after " + after +
                        "] left=" + mstr(M[a]) + " right=" + mstr(M[b]);
    bool g1 = D[a] <= D[b], g2 = S[a] <= S[b];
    if (explicit_op)
      R().cls(g1 ? "dd_subset_answer_yes" : "dd_subset_answer_no");
    VCHECK(ctx, P, g1 == sub, g1 ? "dd_subset_true_but_not_subset" : "dd_subset_false_but_subset",
           "discrete_domain operator<= answers " << g1 << where);
    VCHECK(ctx, P, g2 == sub, g2 ? "setdom_subset_true_but_not_subset" : "setdom_subset_false_but_subset",
           "set_domain operator<= answers " << g2 << where);
    bool eq = sub && sup;
    bool top_vs_empty = (M[a].top && !M[b].top && M[b].s.empty()) || (M[b].top && !M[a].top && M[a].s.empty());
    if (top_vs_empty)
      R().cls("dd_eq_top_vs_empty_shape");
    if (!(top_vs_empty && known_excluded(K_DDEQ))) {
      bool g = D[a] == D[b];
      VCHECK(ctx, P, !(top_vs_empty && g), K_DDEQ, "discrete_domain: TOP == {} answers true" << where);
      VCHECK(ctx, P, g == eq, "dd_equality", "discrete_domain operator== answers " << g << where);
    }
    if (!(top_vs_empty && known_excluded(K_SDEQ))) {
      bool g = S[a] == S[b];
      VCHECK(ctx, P, !(top_vs_empty && g), K_SDEQ, "set_domain: TOP == {} answers true" << where);
      VCHECK(ctx, P, g == eq, "setdom_equality", "set_domain operator== answers " << g << where);
    }
    (void)sup;
    if (a != b && !M[a].top && !M[b].top && !M[a].s.empty() && !M[b].s.empty() && M[a].s != M[b].s) {
      for (auto k : M[a].s)
        if (M[b].s.count(k))
          nt = true;
    }
  }
  void check_pairs_with(int d, const char *after) {
    for (int x = 0; x < 4; x++) {
      check_rel(d, x, after, false);
      if (x != d)
        check_rel(x, d, after, false);
    }
  }
  static Model mjoin(const Model &a, const Model &b) {
    Model r;
    if (a.top || b.top) {
      r.top = true;
      return r;
    }
    r.s = a.s;
    r.s.insert(b.s.begin(), b.s.end());
    return r;
  }
  static Model mmeet(const Model &a, const Model &b) {
    if (a.top)
      return b;
    if (b.top)
      return a;
    Model r;
    for (auto k : a.s)
      if (b.s.count(k))
        r.s.insert(k);
    return r;
  }
  void step() {
    static const uint8_t table[32] = {0,  2, 3, 4,  8,  1,  13, 14, 15, 11, 5, 6, 7, 9, 10, 12,
                                      16, 2, 3, 4,  13, 14, 15, 8,  0,  1,  2, 3, 4, 11, 15, 2};
    unsigned op = table[t.u8() % 32];
    unsigned sel = t.u8();
    int a = sel & 3, boff = (sel >> 2) & 7, d = (sel >> 5) & 3;
    int b = boff == 7 ? a : ((a + 1 + boff % 3) & 3);
    if (sel & 128)
      d = a;
    const char *nm = "";
    switch (op) {
    case 0:
    case 1: {
      uint64_t k = kp.pick(t);
      nm = op == 0 ? "+=" : "-=";
      ctx.log << "D" << a << " " << nm << " " << kn(k) << "\n";
      if (op == 0) {
        D[a] += Key(k);
        S[a] += Key(k);
        if (!M[a].top)
          M[a].s.insert(k), used.insert(k);
      } else {
        D[a] -= Key(k);
        S[a] -= Key(k);
        if (!M[a].top)
          M[a].s.erase(k);
      }
      d = a;
      break;
    }
    case 2: {
      nm = "add-many";
      ctx.log << "D" << a << " add-many:";
      std::vector<Key> ks;
      for (auto k : kp.pick_many(t, 8)) {
        ks.push_back(Key(k));
        ctx.log << " " << kn(k);
        if (!M[a].top)
          M[a].s.insert(k), used.insert(k);
      }
      ctx.log << "\n";
      D[a] += ks; // range version
      for (auto &k : ks)
        S[a] += k;
      d = a;
      break;
    }
    case 3:
    case 4:
    case 5:
    case 6: {
      nm = op == 3 ? "|" : op == 4 ? "&" : op == 5 ? "||" : "&&";
      ctx.log << "D" << d << " = D" << a << " " << nm << " D" << b << "\n";
      R().cls((op == 3 || op == 5) ? "dd_union" : "dd_intersection");
      if (M[a].top || M[b].top)
        R().cls("dd_merge_with_top");
      Model r = (op == 3 || op == 5) ? mjoin(M[a], M[b]) : mmeet(M[a], M[b]);
      dd_t rd = op == 3 ? (D[a] | D[b]) : op == 4 ? (D[a] & D[b]) : op == 5 ? (D[a] || D[b]) : (D[a] && D[b]);
      sd_t rs = op == 3 ? (S[a] | S[b]) : op == 4 ? (S[a] & S[b]) : op == 5 ? (S[a] || S[b]) : (S[a] && S[b]);
      D[d] = rd;
      S[d] = rs;
      M[d] = r;
      if (a != d)
        check_set(a, "being left operand");
      if (b != d && b != a)
        check_set(b, "being right operand");
      break;
    }
    case 7: {
      nm = "|=";
      ctx.log << "D" << a << " |= D" << b << "\n";
      R().cls("dd_union");
      Model r = mjoin(M[a], M[b]);
      D[a] |= D[b];
      S[a] |= S[b];
      M[a] = r;
      d = a;
      if (b != a)
        check_set(b, "being right operand");
      break;
    }
    case 8: {
      nm = "copy";
      ctx.log << "D" << d << " = D" << a << "\n";
      D[d] = D[a];
      S[d] = S[a];
      M[d] = M[a];
      break;
    }
    case 9:
    case 10: {
      uint64_t k = kp.pick(t);
      nm = op == 9 ? "+" : "-";
      ctx.log << "D" << d << " = D" << a << " " << nm << " " << kn(k) << "\n";
      dd_t rd = op == 9 ? (D[a] + Key(k)) : (D[a] - Key(k));
      sd_t rs = op == 9 ? (S[a] + Key(k)) : (S[a] - Key(k));
      Model r = M[a];
      if (!r.top) {
        if (op == 9)
          r.s.insert(k), used.insert(k);
        else
          r.s.erase(k);
      }
      D[d] = rd;
      S[d] = rs;
      M[d] = r;
      if (a != d)
        check_set(a, "being operand");
      break;
    }
    case 11: {
      unsigned w = t.pick(3);
      nm = "top/bottom/singleton";
      if (w == 1) {
        ctx.log << "D" << a << " = bottom()\n";
        D[a] = dd_t::bottom();
        S[a] = sd_t::bottom();
        M[a] = Model();
      } else if (w == 2) {
        ctx.log << "D" << a << " = top()\n";
        R().cls("dd_top_created");
        D[a] = dd_t::top();
        S[a] = sd_t::top();
        M[a] = Model();
        M[a].top = true;
      } else {
        uint64_t k = kp.pick(t);
        ctx.log << "D" << a << " = {" << kn(k) << "}\n";
        D[a] = dd_t(Key(k));
        S[a] = sd_t(Key(k));
        M[a] = Model();
        M[a].s.insert(k);
        used.insert(k);
      }
      d = a;
      break;
    }
    case 12: { // construction from an iterator range
      nm = "range-ctor";
      std::vector<Key> ks;
      M[a] = Model();
      ctx.log << "D" << a << " = dd(range:";
      for (auto k : kp.pick_many(t, 8)) {
        ks.push_back(Key(k));
        M[a].s.insert(k);
        used.insert(k);
        ctx.log << " " << kn(k);
      }
      ctx.log << ")\n";
      D[a] = dd_t(ks.begin(), ks.end());
      S[a] = sd_t::bottom();
      for (auto &k : ks)
        S[a] += k;
      d = a;
      break;
    }
    case 13: { // difference: range version of -= / - (as liveness does); right operand not top
      if (M[b].top) {
        ctx.log << "(difference with TOP on the right: not generated)\n";
        return;
      }
      nm = "difference";
      ctx.log << "D" << d << " = D" << a << " \\ D" << b << "\n";
      R().cls("dd_difference");
      Model r = M[a];
      if (!r.top)
        for (auto k : M[b].s)
          r.s.erase(k);
      dd_t rd = D[a];
      if (t.flag())
        rd -= D[b];
      else
        rd = D[a] - D[b];
      sd_t rs = S[a];
      for (auto it = S[b].begin(), et = S[b].end(); it != et; ++it)
        rs -= *it;
      D[d] = rd;
      S[d] = rs;
      M[d] = r;
      if (a != d)
        check_set(a, "being left operand");
      if (b != d && b != a)
        check_set(b, "being right operand");
      break;
    }
    case 14: { // rename: sources distinct; targets distinct, not sources, not members
      nm = "rename";
      unsigned n = 1 + t.pick(3);
      std::vector<uint64_t> from, to;
      for (unsigned i = 0; i < n; i++) {
        uint64_t k = kp.pick(t);
        if (std::find(from.begin(), from.end(), k) == from.end())
          from.push_back(k);
      }
      for (size_t i = 0; i < from.size(); i++) {
        std::vector<uint64_t> cand;
        for (auto k : kp.pool)
          if (!M[a].s.count(k) && std::find(from.begin(), from.end(), k) == from.end() &&
              std::find(to.begin(), to.end(), k) == to.end())
            cand.push_back(k);
        unsigned c = t.u8();
        if (cand.empty() || c >= 224)
          to.push_back(kp.add_fresh(t));
        else
          to.push_back(cand[c % cand.size()]);
      }
      std::vector<Key> kf, kt;
      ctx.log << "D" << a << ".rename(";
      for (size_t i = 0; i < from.size(); i++) {
        ctx.log << (i ? "," : "") << kn(from[i]) << "->" << kn(to[i]);
        kf.push_back(Key(from[i]));
        kt.push_back(Key(to[i]));
      }
      ctx.log << ")\n";
      R().cls("dd_rename");
      D[a].rename(kf, kt);
      S[a].rename(kf, kt);
      if (!M[a].top)
        for (size_t i = 0; i < from.size(); i++)
          if (M[a].s.erase(from[i]))
            M[a].s.insert(to[i]), used.insert(to[i]);
      d = a;
      break;
    }
    case 15: {
      ctx.log << "D" << a << " <= D" << b << " ?\n";
      R().cls("dd_op_subset");
      check_rel(a, b, "<=", true);
      return;
    }
    default: { // default constructed = empty set
      nm = "default-ctor";
      ctx.log << "D" << a << " = dd()\n";
      D[a] = dd_t();
      S[a] = sd_t();
      M[a] = Model();
      d = a;
      break;
    }
    }
    check_set(d, nm);
    check_pairs_with(d, nm);
  }
  void run() {
    ctx.log << "mode dd\n";
    R().cls("mode_dd");
    kp.init(t, ctx);
    unsigned s = 0;
    for (; s < 32 && (s == 0 || !t.exhausted()); s++)
      step();
    for (int i = 0; i < 4; i++)
      check_set(i, "end of case");
    for (int i = 0; i < 4; i++)
      for (int j = 0; j < 4; j++)
        check_rel(i, j, "end of case", false);
    R().cls("steps", s);
    if (used.size() >= 6 && nt) {
      ctx.nontrivial = true;
      R().cls("nontrivial_dd");
    }
  }
};

namespace verif {
void run_case(const uint8_t *data, size_t size, CaseCtx &ctx) {
  Tape t(data, size);
  unsigned hdr = t.u8();
  // both values of the sanity flag are legal configurations
  bool saved_sanity = crab::CrabSanityCheckFlag;
  crab::CrabSanityCheckFlag = (hdr & 16) != 0;
  struct Restore {
    bool v;
    ~Restore() { crab::CrabSanityCheckFlag = v; }
  } restore{saved_sanity};
  switch (hdr % 10) {
  case 0:
  case 1:
  case 2: {
    EnvRun<interval_t> r(t, ctx);
    r.run();
    break;
  }
  case 3:
  case 4: {
    EnvRun<constant_t> r(t, ctx);
    r.run();
    break;
  }
  case 5: {
    EnvRun<boolean_t> r(t, ctx);
    r.run();
    break;
  }
  case 6: {
    EnvRun<dd_t> r(t, ctx);
    r.run();
    break;
  }
  case 7: {
    PSetRun r(t, ctx);
    r.run();
    break;
  }
  default: {
    DDRun r(t, ctx);
    r.run();
    break;
  }
  }
  ctx.mixs(ctx.log.str());
}
} // namespace verif
