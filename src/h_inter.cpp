// h_inter-<variant>: inter-procedural analyses vs an inter-procedural concrete interpreter.
//   variants interval | sdbm | bool_int            top-down analyzer           (C09)
//   variants bu_<summary dom>_<forward dom>        bottom-up + top-down        (C10)
//   C09/C10  context-insensitive block invariants contain every concrete state of every
//            execution started at a call-graph entry; every (pre,post) summary pair relates
//            inputs and outputs of every concrete call whose inputs satisfy pre
//   C02      (inter) safe/unreachable verdicts of the interleaved checker / inter_checker
//   C05a     every inter-procedural run terminates (deterministic step budget)
#include "core/report.hpp"
#include "core/tape.hpp"

#if defined(VERIF_VARIANT_bu_sdbm_interval)
#define H_BU 1
#define H_BU_SEL 1
#define VERIF_VARIANT_interval 1
#elif defined(VERIF_VARIANT_bu_interval_interval)
#define H_BU 1
#define H_BU_SEL 2
#define VERIF_VARIANT_interval 1
#elif defined(VERIF_VARIANT_bu_sdbm_sdbm)
#define H_BU 1
#define H_BU_SEL 1
#define VERIF_VARIANT_sdbm 1
#elif defined(VERIF_VARIANT_bu_term_int_interval)
#define H_BU 1
#define H_BU_SEL 3
#define VERIF_VARIANT_interval 1
#endif

#include "prog/domains.hpp"
#include "prog/gen_cg.hpp"
#include "prog/interp.hpp"
#include "prog/member.hpp"
#include "prog/stmtkind.hpp"

#include <crab/analysis/dataflow/liveness.hpp>
#include <crab/analysis/graphs/sccg_bgl.hpp>
#include <crab/cg/cg_bgl.hpp>
#ifdef H_BU
#include <crab/analysis/inter/bottom_up_inter_analyzer.hpp>
#else
#include <crab/analysis/inter/top_down_inter_analyzer.hpp>
#endif
#include <crab/checkers/assertion.hpp>
#include <crab/checkers/base_property.hpp>
#include <crab/checkers/checker.hpp>
#include <crab/support/stats.hpp>

#include <climits>
#include <iostream>
#include <set>

using namespace verif;
using namespace vp;

namespace verif {
const char *harness_name() { return "h_inter-" VERIF_VARIANT; }
} // namespace verif

using params_t = crab::analyzer::inter_analyzer_parameters<cg_t>;
using liveness_t = crab::analyzer::live_and_dead_analysis<cfg_ref_t>;
using td_dom_t = dom_t;
#ifdef H_BU
#if H_BU_SEL == 1
using sum_dom_t = sdbm_dom_t;
#define H_BU_INT64 1
#elif H_BU_SEL == 2
using sum_dom_t = interval_dom_t;
#else
using sum_dom_t = term_int_dom_t;
#endif
using analyzer_t = crab::analyzer::bottom_up_inter_analyzer<cg_t, sum_dom_t, td_dom_t>;
static const char *const PROP = "C10";
static const std::string KIND = "bu";
#else
using sum_dom_t = dom_t;
using analyzer_t = crab::analyzer::top_down_inter_analyzer<cg_t, td_dom_t>;
static const char *const PROP = "C09";
static const std::string KIND = "td";
#endif

#if defined(VERIF_INT64_WEIGHTS) || defined(H_BU_INT64)
static const bool INT64_WEIGHTS = true;
static const int64_t CONST_CAP = 1000000;
#else
static const bool INT64_WEIGHTS = false;
static const int64_t CONST_CAP = (int64_t)1 << 62;
#endif

static std::string mkind(const std::string &reason) { return reason.substr(0, 2); }

template <class D> static bool large_magnitude(const D &inv, const std::vector<var_t> &vars) {
  if (inv.is_bottom())
    return false;
  z_number lim = z_number(1) << z_number(40);
  for (auto &v : vars) {
    auto i = inv.at(v);
    if (i.is_bottom())
      continue;
    if (i.lb().is_finite() && (*i.lb().number() > lim || *i.lb().number() < -lim))
      return true;
    if (i.ub().is_finite() && (*i.ub().number() > lim || *i.ub().number() < -lim))
      return true;
  }
  return false;
}

// silences crab::outs() (the bottom-up analyzer prints unconditionally)
static bool g_crablog = false; // triage aid: VERIF_CRABLOG=inter,inter-extend,... (replay only)
struct QuietCout {
  std::ios_base::iostate st;
  QuietCout() : st(std::cout.rdstate()) {
    if (!g_crablog)
      std::cout.setstate(std::ios_base::failbit);
  }
  ~QuietCout() { std::cout.clear(st); }
};

struct BlockInv {
  td_dom_t pre, post;
};
struct SumPair {
  sum_dom_t pre, post;
};

// thrown by the observer to end ONE execution (values leave the range the concrete model keeps)
struct StopExec {
  const char *reason;
};

struct InterObs : public Observer {
  analyzer_t &a;
  CaseCtx &ctx;
  CGProgram &cgp;
  std::map<const cfg_t *, unsigned> fidx;
  std::map<std::pair<unsigned, label_t>, BlockInv> cache;
  std::map<unsigned, std::vector<SumPair>> sums;
  std::map<int64_t, bool> reached, violated;
  std::map<int64_t, unsigned> assert_fn; // assertion id -> function index
  MemberOpts mo, mo_light;
  unsigned full_budget = 60; // membership tests with all of M1-M5; afterwards M1-M4 (no entailment probes)
  std::set<std::string> seen; // (point, state) pairs already judged
  bool check_blocks = true; // keep_invariants
  bool probe = false;       // direct runs of non-entry functions: only summaries are judged
  std::string feat;         // classifier suffix derived from the program's features
  bool magnitude_hit = false;
  unsigned block_checks = 0, summary_checks = 0, summary_applicable = 0, calls_seen = 0;
  bool saw_nontrivial_inv = false, saw_nontrivial_call = false;
  std::vector<bool> callee_collides; // shares a name with a caller or has >= 2 sites
  std::vector<bool> on_cycle;        // function lies on a call-graph cycle
  std::vector<bool> on_mutual_cycle; // ... on a cycle through at least one other function
  bool precise_rec = false;
  bool bool_lhs_call = false; // some call site has a boolean lhs
  bool finite_max_ctx = false; // max_call_contexts != UINT_MAX: contexts get joined

  InterObs(analyzer_t &an, CaseCtx &c, CGProgram &p) : a(an), ctx(c), cgp(p) {
    for (unsigned i = 0; i < p.funcs.size(); i++)
      fidx[p.funcs[i]->prog.cfg.get()] = i;
    mo_light.m5 = false;
    mo_light.use_brackets = false;
    mo_light.disjunctive = false;
    callee_collides.assign(p.funcs.size(), false);
    on_cycle.assign(p.funcs.size(), false);
    on_mutual_cycle.assign(p.funcs.size(), false);
    {
      const unsigned n = (unsigned)p.funcs.size();
      std::vector<std::vector<bool>> reach(n, std::vector<bool>(n, false));
      for (auto &s : p.sites)
        reach[s.caller][s.callee] = true;
      for (unsigned k = 0; k < n; k++)
        for (unsigned i = 0; i < n; i++)
          for (unsigned j = 0; j < n; j++)
            if (reach[i][k] && reach[k][j])
              reach[i][j] = true;
      for (unsigned i = 0; i < n; i++) {
        on_cycle[i] = reach[i][i];
        for (unsigned j = 0; j < n; j++)
          if (i != j && reach[i][j] && reach[j][i])
            on_mutual_cycle[i] = true;
      }
    }
    for (unsigned i = 0; i < p.funcs.size(); i++) {
      if (p.sites_to(i) >= 2)
        callee_collides[i] = true;
      for (auto &s : p.sites)
        if (s.callee == i && p.share_names(s.caller, i))
          callee_collides[i] = true;
    }
  }

  BlockInv &inv(unsigned fi, const label_t &l) {
    auto key = std::make_pair(fi, l);
    auto it = cache.find(key);
    if (it != cache.end())
      return it->second;
    cfg_ref_t ref(*cgp.funcs[fi]->prog.cfg);
    BlockInv bi{a.get_pre(ref, l), a.get_post(ref, l)};
    if (INT64_WEIGHTS && (large_magnitude(bi.pre, cgp.all_vars) || large_magnitude(bi.post, cgp.all_vars)))
      magnitude_hit = true;
    return cache.emplace(key, std::move(bi)).first->second;
  }
  std::vector<SumPair> &summary(unsigned fi) {
    auto it = sums.find(fi);
    if (it != sums.end())
      return it->second;
    std::vector<SumPair> v;
    cfg_ref_t ref(*cgp.funcs[fi]->prog.cfg);
    auto s = a.get_summary(ref);
    for (auto &pp : s) {
      v.push_back(SumPair{pp.get_pre(), pp.get_post()});
      if (INT64_WEIGHTS && (large_magnitude(v.back().pre, cgp.all_vars) || large_magnitude(v.back().post, cgp.all_vars)))
        magnitude_hit = true;
    }
    return sums.emplace(fi, std::move(v)).first->second;
  }
  void guard(const State &s) {
    if (magnitude_hit)
      throw Truncate{"int64_dbm_weights_large_magnitude"};
    if (INT64_WEIGHTS && state_has_large_value(s))
      throw Truncate{"int64_dbm_weights_large_concrete_value"};
  }
  // narrow classifier suffix for a failed block invariant of function fi
  std::string block_feat(unsigned fi, const std::string &r, bool block = true) {
    // known finding: a call-graph cycle through >= 2 functions that is entered at a function
    // which is not the head chosen by the call-graph WTO: the call that closes the cycle is
    // replaced by top ("imprecise analysis of recursive call") and its calling context never
    // reaches the invariants of that function
    // The recorded remainder of that finding (known_findings.json): with precise recursion, the
    // invariants of an inner function computed while the outer fixpoint is still at bottom are
    // kept and its summary is reused: the symptom is a BOTTOM invariant (M1) at a reached point.
    // Any other failed relation in such a function keeps a tag of its own and is reported.
    if (on_mutual_cycle[fi])
      return KIND + ((precise_rec && mkind(r) == "M1") ? "_mutualrec_context_lost" : "_mutualrec_other_" + mkind(r));
    return "";
  }
  // classifier tag: the program-level hazard class if there is one (a wrong callee entry or
  // continuation shows up anywhere downstream), else the failing relation itself
  std::string tag(const std::string &what, const std::string &r, int fi = -1) {
    if (fi >= 0) {
      std::string b = block_feat((unsigned)fi, r, what != "summary");
      if (!b.empty())
        return b;
    }
    if (!feat.empty() && R().is_known(KIND + feat)) // (repaired defect: the classifier only wins while its tag is switched on)
      return KIND + feat;
    // known findings (domain level, flat_boolean_numerical_domain; not specific to the
    // inter-procedural analyzers but exposed by them):
    //  (a) forget(vector)/project/rename return early when the boolean x numerical product is
    //      top and keep the hidden "b implies b' / b implies constraint" tables: the old
    //      definition of a boolean lhs survives a call, and tables about the caller's (resp.
    //      callee's) variables leak through project() of a top entry (resp. exit) value;
    //  (b) an "x implies b'" entry (from x := b') survives the join at a loop head with a state
    //      in which x was redefined (x := constraint), seen intra-procedurally as well (tape
    //      td_flatbool_hidden_tables_assign_bool_cst; not root-caused here).
    // Hidden tables are only visible to the point meet (M4) until an assume/assert on the
    // boolean materialises them; with a boolean lhs at a call (a) changes visible values too.
    if ((DOM_CAPS & CAP_BOOL) && (mkind(r) == "M4" || bool_lhs_call) && R().is_known(KIND + "_flatbool_hidden_tables"))
      return KIND + "_flatbool_hidden_tables";
    // known finding: when the bound on calling contexts is exceeded the two oldest (pre,post)
    // pairs are joined component-wise; the joined pair (pre1|pre2, post1|post2) says nothing
    // true about inputs that lie in the hull pre1|pre2 but in neither pre1 nor pre2, yet it
    // is reused (non-exact subsumption) for such calls
    if (finite_max_ctx && what == "summary")
      return KIND + "_ctx_join_hull_gap";
    return KIND + "_" + what + "_" + mkind(r);
  }
  std::string c02_tag(const std::string &what, int64_t id) {
    auto it = assert_fn.find(id);
    if (it != assert_fn.end() && precise_rec && on_cycle[it->second] && R().is_known(KIND + "_recfun_without_invariants"))
      return KIND + "_recfun_without_invariants"; // the unchecked calling context carries no verdict
    if (it != assert_fn.end() && on_mutual_cycle[it->second])
      return KIND + (precise_rec ? "_mutualrec_context_lost" : "_mutualrec_verdict_" + what);
    if (!feat.empty() && R().is_known(KIND + feat)) // (repaired defect: the classifier only wins while its tag is switched on)
      return KIND + feat;
    if ((DOM_CAPS & CAP_BOOL) && bool_lhs_call && R().is_known(KIND + "_flatbool_hidden_tables"))
      return KIND + "_flatbool_hidden_tables";
    return KIND + "_" + what;
  }
  // ---- deferred verdict for block invariants of recursive functions (precise recursion) ----
  // known finding: when the first pass over a recursive function already is a fixpoint (its
  // exit is unreachable in that calling context: the invocation never returns)
  // analyze_function returns without storing the invariants of that context, so
  // get_pre/get_post miss it. Observable difference to any other lost context: the concrete
  // invocation whose frame is not described never returns. So the failure is recorded, the
  // execution goes on unjudged, and the tag is chosen when it is known whether an invocation
  // of that function with those inputs returned.
  struct Pending {
    bool active = false, returned = false;
    unsigned fi = 0;
    State inputs;
    std::string plain_tag, msg;
  } pending;
  bool defer_failure(unsigned fi, const State &s, const std::string &plain_tag, const std::string &msg) {
    if (!(precise_rec && on_cycle[fi]))
      return false;
    pending.active = true;
    pending.returned = false;
    pending.fi = fi;
    pending.inputs = State();
    for (auto &v : cgp.funcs[fi]->inputs) {
      auto it = s.num.find(v);
      if (it != s.num.end())
        pending.inputs.num[v] = it->second;
    }
    pending.plain_tag = plain_tag;
    pending.msg = msg;
    return true;
  }
  void resolve_pending() {
    if (!pending.active)
      return;
    pending.active = false;
    VCHECK(ctx, PROP, false, pending.returned ? pending.plain_tag : KIND + "_recfun_without_invariants",
           pending.msg << (pending.returned ? " (an invocation with these inputs returns)" : " (the invocation with these inputs never returns)"));
  }
  const MemberOpts &opts() {
    if (full_budget > 0) {
      full_budget--;
      return mo;
    }
    return mo_light;
  }
  bool fresh(char kind, unsigned fi, const label_t &l, const State &s) {
    return seen.insert(std::string(1, kind) + std::to_string(fi) + l + s.str()).second;
  }
  template <class D> void note(const D &d) {
    if (!d.is_top() && !d.is_bottom())
      saw_nontrivial_inv = true;
  }

  void block_entry(const cfg_t &cfg, const label_t &l, const State &s) override {
    if (probe || !check_blocks || pending.active)
      return;
    unsigned fi = fidx.at(&cfg);
    BlockInv &bi = inv(fi, l);
    guard(s);
    note(bi.pre);
    if (!fresh('e', fi, l, s))
      return;
    block_checks++;
    std::string r = member(s, bi.pre, opts());
    if (!r.empty() && ctx.want(PROP) &&
        defer_failure(fi, s, tag("pre", r, (int)fi),
                      "state " + s.str() + " enters block " + l + " of " + cgp.funcs[fi]->name + " but is not in get_pre = " +
                          to_str(bi.pre) + " : " + r))
      return;
    VCHECK(ctx, PROP, r.empty(), tag("pre", r, (int)fi),
           "state " << s.str() << " enters block " << l << " of " << cgp.funcs[fi]->name << " but is not in get_pre = "
                    << to_str(bi.pre) << " : " << r);
  }
  void block_exit(const cfg_t &cfg, const label_t &l, const State &s) override {
    if (probe || !check_blocks || pending.active)
      return;
    unsigned fi = fidx.at(&cfg);
    BlockInv &bi = inv(fi, l);
    guard(s);
    note(bi.post);
    if (!fresh('x', fi, l, s))
      return;
    block_checks++;
    std::string r = member(s, bi.post, opts());
    if (!r.empty() && ctx.want(PROP) &&
        defer_failure(fi, s, tag("post", r, (int)fi),
                      "state " + s.str() + " leaves block " + l + " of " + cgp.funcs[fi]->name + " but is not in get_post = " +
                          to_str(bi.post) + " : " + r))
      return;
    VCHECK(ctx, PROP, r.empty(), tag("post", r, (int)fi),
           "state " << s.str() << " leaves block " << l << " of " << cgp.funcs[fi]->name << " but is not in get_post = "
                    << to_str(bi.post) << " : " << r);
  }
  void after_stmt(const cfg_t &, const label_t &, unsigned, stmt_t &, const State &s) override {
    // repeated squaring doubles the size of a value at every step: stop such executions
    if (state_has_large_value(s, 200))
      throw StopExec{"value beyond 2^200"};
  }
  void assertion(const cfg_t &cfg, stmt_t &st, bool holds, const State &) override {
    if (probe)
      return;
    int64_t id = st.get_debug_info().get_id();
    assert_fn[id] = fidx.at(&cfg);
    reached[id] = true;
    if (!holds)
      violated[id] = true;
  }
  void call_returned(const cfg_t &callee, const State &inputs, const State &outputs) override {
    unsigned fi = fidx.at(&callee);
    if (pending.active) {
      if (fi == pending.fi && inputs.num == pending.inputs.num)
        pending.returned = true;
      return;
    }
    check_summary(fi, inputs, outputs);
  }

  void check_summary(unsigned fi, const State &inputs, const State &outputs) {
    calls_seen++;
    std::vector<SumPair> &pairs = summary(fi);
    State io = inputs;
    for (auto &kv : outputs.num)
      io.num[kv.first] = kv.second;
    guard(io);
    bool nt = false;
    bool is_fresh = fresh('s', fi, "", io);
    for (unsigned k = 0; k < pairs.size(); k++) {
      SumPair &sp = pairs[k];
      if (!sp.post.is_top() && !sp.post.is_bottom())
        nt = true;
      if (!is_fresh)
        continue;
      summary_checks++;
      // (always the complete test here: "inputs satisfy pre" must not be answered yes wrongly)
      if (!member(inputs, sp.pre, mo).empty())
        continue; // the inputs do not satisfy this precondition: the pair says nothing
      summary_applicable++;
      std::string r = member(io, sp.post, opts());
      VCHECK(ctx, PROP, r.empty(), tag("summary", r, (int)fi),
             "call of " << cgp.funcs[fi]->name << " with inputs " << inputs.str() << " returned outputs " << outputs.str()
                        << "; the inputs satisfy pre = " << to_str(sp.pre) << " of summary pair " << k
                        << " but inputs+outputs are not in post = " << to_str(sp.post) << " : " << r
                        << (probe ? " (direct run of the function)" : ""));
    }
    if (!probe && check_blocks) {
      BlockInv &bi = inv(fi, cgp.funcs[fi]->prog.cfg->entry());
      if (!bi.pre.is_top() && !bi.pre.is_bottom())
        nt = true;
    }
    if (!probe && nt && callee_collides[fi])
      saw_nontrivial_call = true;
  }
};

namespace verif {
void run_case(const uint8_t *data, size_t size, CaseCtx &ctx) {
  static bool log_init = false;
  if (!log_init) {
    log_init = true;
    if (const char *e = getenv("VERIF_CRABLOG")) {
      std::string cur;
      for (const char *q = e;; q++) {
        if (*q == ',' || !*q) {
          if (!cur.empty())
            crab::CrabEnableLog(cur);
          cur.clear();
          if (!*q)
            break;
        } else
          cur += *q;
      }
    }
  }

  Tape t(data, size);
  crab::CrabSanityCheckFlag = false; // (prints to stdout and turns bottoms into CRAB_ERRORs)
  crab::CrabWarningFlag = false;
  crab::domains::crab_domain_params_man::get() = crab::domains::crab_domain_params();
  crab::CrabStats::reset();
  if (ctx.verbose && !g_crablog)
    if (const char *lg = getenv("VERIF_CRABLOG")) {
      g_crablog = true;
      std::string cur;
      for (const char *c = lg;; c++) {
        if (*c == ',' || *c == 0) {
          if (!cur.empty())
            crab::CrabEnableLog(cur);
          cur.clear();
          if (*c == 0)
            break;
        } else
          cur += *c;
      }
    }

  // ---- parameters (all of inter_analyzer_parameters) ------------------------------------
  params_t pa;
  pa.widening_delay = t.pick(6);
  pa.descending_iters = t.pick(4);
  static const unsigned thr[] = {0, 1, 5, 20};
  pa.thresholds_size = thr[t.pick(4)];
  static const unsigned mcc[] = {UINT_MAX, 1, 2, 3};
  pa.max_call_contexts = mcc[t.pick(4)];
  pa.exact_summary_reuse = !t.flag();
  pa.analyze_recursive_functions = t.flag();
  pa.run_checker = t.pick(8) != 7;
  pa.only_main_as_entry = t.flag();
  pa.keep_invariants = t.pick(8) != 7;
  pa.keep_cc_invariants = t.flag();
  pa.checker_verbosity = 0;
  bool use_liveness = t.flag();

  // ---- program ----------------------------------------------------------------------------
  CGOpts co;
  // statement kinds whose concrete meaning is width dependent (udiv/urem/lshr, shifts, zext) only
  // truncate executions here; they are the business of h_fwd, not of the call/return machinery
  co.caps = (DOM_CAPS & ~(unsigned)(CAP_CALL_INTRA | CAP_UNSIGNED | CAP_BITWISE | CAP_CAST));
  if (INT64_WEIGHTS)
    co.caps &= ~(unsigned)CAP_BIGCONST;
  co.const_cap = CONST_CAP;
#ifdef H_BU
  co.allow_orphans = false; // documented restriction: main is the only function without callers
  co.rec_num = 8;
#else
  co.allow_orphans = true;
  co.rec_num = 10;
#endif
  CGProgram cgp;
  gen_callgraph(t, co, cgp);
  const unsigned nf = (unsigned)cgp.funcs.size();

  ctx.log << "analyzer=" << KIND << " variant=" << VERIF_VARIANT << " delay=" << pa.widening_delay << " narrow=" << pa.descending_iters
          << " thresholds=" << pa.thresholds_size;
#ifndef H_BU
  ctx.log << " max_ctx=" << (pa.max_call_contexts == UINT_MAX ? std::string("inf") : std::to_string(pa.max_call_contexts))
          << " exact_reuse=" << pa.exact_summary_reuse << " precise_rec=" << pa.analyze_recursive_functions
          << " checker=" << pa.run_checker << " only_main=" << pa.only_main_as_entry << " keep_inv=" << pa.keep_invariants
          << " keep_cc=" << pa.keep_cc_invariants;
#endif
  ctx.log << " liveness=" << use_liveness << "\n";
  std::vector<cfg_ref_t> cfgs;
  for (auto &f : cgp.funcs) {
    std::string txt = to_str(*f->prog.cfg);
    ctx.log << txt;
    if (f->strict_copyin)
      ctx.log << "  (strict copy-in form)\n";
    ctx.mixs(txt);
    type_check(*f->prog.cfg);
    cfgs.push_back(cfg_ref_t(*f->prog.cfg));
  }
  ctx.mix(pa.widening_delay * 64 + pa.descending_iters * 8 + pa.thresholds_size);
  ctx.mix((uint64_t)pa.max_call_contexts * 32 + pa.exact_summary_reuse * 16 + pa.analyze_recursive_functions * 8 +
          pa.only_main_as_entry * 4 + pa.keep_invariants * 2 + use_liveness);

  // ---- classification of the generated program ---------------------------------------------
  bool f_rec = cgp.has_recursion(), f_other_formal = false, f_rep = false, f_lhs_arg = false, f_lhs_formal = false,
       f_share = false, f_multi = false, f_mutual = false;
  for (auto &s : cgp.sites) {
    f_other_formal |= s.actual_is_other_formal;
    f_rep |= s.repeated_actual;
    f_lhs_arg |= s.lhs_is_arg;
    f_lhs_formal |= s.lhs_is_callee_formal;
    f_share |= cgp.share_names(s.caller, s.callee);
    f_mutual |= s.back_edge && s.callee != s.caller;
  }
  for (unsigned i = 0; i < nf; i++)
    f_multi |= cgp.sites_to(i) >= 2;
  R().cls("funcs_" + std::to_string(nf));
  if (cgp.sites.empty()) R().cls("no_call_site");
  if (f_rec) R().cls("recursion");
  if (f_mutual) R().cls("recursion_mutual");
  if (f_share) R().cls("caller_callee_share_names");
  if (f_other_formal) R().cls("actual_named_like_other_formal");
  if (f_rep) R().cls("repeated_actual");
  if (f_lhs_arg) R().cls("lhs_is_arg");
  if (f_lhs_formal) R().cls("lhs_named_like_callee_formal");
  if (f_multi) R().cls("callee_with_2_or_more_sites");
  if (cgp.n_loops) R().cls("has_loop");
  for (auto &f : cgp.funcs) {
    if (f->strict_copyin) { R().cls("has_strict_copyin_function"); break; }
  }
  // classifier suffix: names of caller variables coincide with formals of the callee at
  // another position (where sequential formal/actual unification goes wrong)
  std::string feat;
  {
    bool h_args = false, h_args_entry = false, h_lhs = false;
    for (auto &s : cgp.sites) {
      h_args |= s.h_args;
      h_args_entry |= s.h_args_entry;
      h_lhs |= s.h_lhs;
    }
#ifdef H_BU
    // the bottom-up analyzer renames summaries to fresh names; only its top-down phase
    // propagates actuals to the original formals one after the other
    if (h_args_entry) feat += "_sequnify_args";
#else
    if (h_args) feat += "_sequnify_args";
    if (h_lhs) feat += "_sequnify_lhs";
#endif
    if (h_args) R().cls("hazard_sequnify_args");
    if (h_lhs) R().cls("hazard_sequnify_lhs");
  }

  // ---- call graph ------------------------------------------------------------------------------
  // (tail choice) the order in which the CFGs are listed is the caller's business: half of the time
  // a permutation of the declaration order (vertex ids of the call graph follow the listing order)
  {
    unsigned pc = t.tail_u8();
    if ((pc & 1) && cfgs.size() > 1) {
      unsigned k = pc >> 1;
      std::string ord;
      for (size_t i = cfgs.size(); i > 1; i--) {
        std::swap(cfgs[i - 1], cfgs[k % i]);
        k /= (unsigned)i;
      }
      for (auto &c : cfgs)
        ord += " " + c.get_func_decl().get_func_name();
      ctx.log << "cfgs listed as:" << ord << "\n";
      ctx.mixs(ord);
      R().cls("cfg_listing_permuted");
    }
  }
  cg_t cgraph(cfgs);
  std::vector<unsigned> entries;
  {
    for (auto n : cgraph.entries())
      for (unsigned i = 0; i < nf; i++)
        if (cgp.funcs[i]->name == n.name())
          entries.push_back(i);
    std::sort(entries.begin(), entries.end());
  }
  if (entries.size() > 1)
    R().cls("multiple_entries");
#ifndef H_BU
  if (pa.only_main_as_entry)
    entries.assign(1, 0u);
#else
  entries.assign(1, 0u);
#endif

  // ---- initial value -------------------------------------------------------------------------------
  std::vector<var_t> gints;
  for (auto &v : cgp.all_vars)
    if (v.get_type().is_integer() && v.get_type().get_integer_bitwidth() == 32)
      gints.push_back(v);
  State sigma0;
  for (auto &v : cgp.all_vars)
    sigma0.num[v] = v.get_type().is_bool() ? z_number((int64_t)(t.u8() & 1)) : z_number(t.small_int(6));
  csts_t init_csts;
  unsigned ninit = t.pick(4);
  for (unsigned i = 0; i < ninit && !gints.empty(); i++) {
    const var_t &x = gints[t.pick((unsigned)gints.size())];
    const var_t &y = gints[t.pick((unsigned)gints.size())];
    z_number slack((int64_t)t.pick(4));
    switch (t.pick(4)) {
    case 0: init_csts += cst_t(lin_t(x) == lin_t(sigma0.num[x])); break;
    case 1: init_csts += cst_t(lin_t(x) <= lin_t(sigma0.num[x] + slack)); break;
    case 2: init_csts += cst_t(lin_t(x) >= lin_t(sigma0.num[x] - slack)); break;
    default: init_csts += cst_t(lin_t(x) - lin_t(y) <= lin_t(sigma0.num[x] - sigma0.num[y] + slack)); break;
    }
  }
  td_dom_t td_top;
  td_top = td_top.make_top();
  td_dom_t init = td_top.make_top();
  init += init_csts;
  ctx.log << "init: " << to_str(init_csts) << "\n";
  ctx.mixs(to_str(init_csts));

  // ---- liveness -----------------------------------------------------------------------------------
  std::vector<std::unique_ptr<liveness_t>> lives;
  typename params_t::liveness_map_t live_map;
  if (use_liveness) {
    for (auto &c : cfgs) {
      lives.emplace_back(new liveness_t(c));
      lives.back()->exec();
      live_map.insert({c, lives.back().get()});
    }
    pa.live_map = &live_map;
  }

  // ---- analysis (C05: deterministic step budget) ------------------------------------------------------
  std::unique_ptr<analyzer_t> ap;
  g_step_count = 0;
  g_step_budget = 400000;
  try {
    QuietCout q;
#ifdef H_BU
    sum_dom_t bu_top;
    bu_top = bu_top.make_top();
    ap.reset(new analyzer_t(cgraph, td_top, bu_top, pa));
#else
    ap.reset(new analyzer_t(cgraph, td_top, pa));
#endif
    ap->run(init);
  } catch (const step_budget_exceeded &e) {
    g_step_budget = ~0UL;
    VCHECK(ctx, "C05", false, KIND + "_analysis_step_budget" + (f_rec ? "_rec" : ""),
           "inter-procedural analysis exceeded " << e.steps << " fixpoint/transfer events (suspected non-termination)");
    throw Truncate{"step_budget"};
  } catch (const crab_error &e) {
    g_step_budget = ~0UL;
    std::string m = e.what();
    // the analyzer aborts itself at call depth 500: with <= 5 functions this can only be a
    // cycle in the call graph that was not detected (the header says so itself)
    VCHECK(ctx, "C05", m.find("recursion depth exceeded") == std::string::npos, KIND + "_recursion_depth_abort",
           "analysis aborted: " << m);
    if (m.find("in checking phase we should not analyze") != std::string::npos) {
      // the interleaved checker met a call whose context has no stored summary and gave up:
      // no result is produced, so nothing unsound; counted, and a failure only on request
      R().diag(KIND + "_abort_in_checking_phase");
      if (getenv("VERIF_INTER_ABORT_FAILS"))
        VCHECK(ctx, PROP, false, KIND + "_abort_in_checking_phase", "analysis aborted: " << m);
    }
    throw;
  }
  analyzer_t &a = *ap;
  unsigned long analysis_steps = g_step_count;
  g_step_budget = ~0UL;
  R().cls(analysis_steps > 1000 ? "analysis_steps_gt_1000" : "analysis_steps_le_1000");

  // ---- verdicts (C02) ------------------------------------------------------------------------------------
  // id -> list of verdicts (the top-down analyzer checks an assertion once per analysed context)
  std::map<int64_t, std::vector<crab::checker::check_kind>> verdict;
  if (cgp.n_asserts > 0) {
    QuietCout q;
#ifdef H_BU
    using checker_t = crab::checker::inter_checker<analyzer_t>;
    using assert_checker_t = crab::checker::assert_property_checker<analyzer_t>;
    typename checker_t::prop_checker_ptr prop(new assert_checker_t(0));
    checker_t checker(a, {prop});
    checker.run();
    auto db = checker.get_all_checks();
#else
    auto db = a.get_all_checks();
#endif
    for (auto &kv : db.get_all_checks())
      verdict[kv.first.get_id()] = kv.second;
  }

  // ---- executions from the call-graph entries ------------------------------------------------------------------
  InterObs obs(a, ctx, cgp);
  obs.feat = feat;
  for (auto &s : cgp.sites)
    obs.bool_lhs_call |= s.bool_lhs;
#ifndef H_BU
  obs.check_blocks = pa.keep_invariants;
  obs.precise_rec = pa.analyze_recursive_functions;
  obs.finite_max_ctx = pa.max_call_contexts != UINT_MAX;
#endif
  std::map<std::string, cfg_t *> fmap;
  for (auto &f : cgp.funcs)
    fmap[f->name] = f->prog.cfg.get();
  unsigned nexec = 8 + t.pick(17);
  unsigned long_execs = 0, total_blocks = 0, returned_execs = 0;
  for (unsigned e = 0; e < nexec; e++) {
    State s = sigma0;
    if (e > 0) {
      for (auto &v : cgp.all_vars)
        if (t.pick(3) == 0)
          s.num[v] = v.get_type().is_bool() ? z_number((int64_t)(t.u8() & 1)) : z_number(t.small_int(10));
      bool ok = true;
      for (auto &c : init_csts) {
        bool def;
        if (!Interp::holds_in(c, s, def))
          ok = false;
      }
      if (!ok)
        s = sigma0;
    }
    unsigned ei = entries[e % entries.size()];
    cfg_t &ecfg = *cgp.funcs[ei]->prog.cfg;
    {
      // keep the variables of the entry function and those the initial value talks about
      State r;
      for (auto &v : cgp.funcs[ei]->vars)
        r.num[v] = s.num[v];
      for (auto &c : init_csts)
        for (auto v : c.variables())
          r.num[v] = s.num[v];
      s = r;
    }
    Interp in(t);
    in.obs = &obs;
    in.inter = true;
    in.funcs = fmap;
    in.max_steps = 400;
    in.max_blocks = 120;
    if (INT64_WEIGHTS)
      in.big_chance = 0;
    Stop why = Stop::Outside;
    try {
      why = in.run(ecfg, ecfg.entry(), s);
    } catch (const StopExec &se) {
      in.outside_reason = se.reason;
    }
    obs.resolve_pending();
    total_blocks += in.blocks_visited;
    if (in.blocks_visited >= 3)
      long_execs++;
    if (why == Stop::NoSuccessor)
      returned_execs++;
    R().cls(std::string("exec_stop_") + stop_name(why));
    if (why == Stop::Outside)
      R().trunc(in.outside_reason);
    if (ctx.verbose) {
      ctx.log << "exec " << e << " from " << cgp.funcs[ei]->name << ": ";
      for (auto &l : in.path)
        ctx.log << l << " ";
      ctx.log << "-> " << stop_name(why) << "\n";
    }
  }
  unsigned entry_calls = obs.calls_seen;

  // ---- direct runs of non-entry functions from arbitrary inputs (summaries only) --------------------------------
  // A (pre,post) pair must relate inputs and outputs of EVERY concrete call whose inputs satisfy
  // pre; for the bottom-up summaries pre is top ("whatever the inputs").
  obs.probe = true;
  unsigned probes_returned = 0;
  for (unsigned fi = 1; fi < nf; fi++) {
    Func &f = *cgp.funcs[fi];
    unsigned np = 1 + t.pick(3);
    for (unsigned k = 0; k < np; k++) {
      std::vector<SumPair> &pairs = obs.summary(fi);
      State frame;
      const SumPair *sp = pairs.empty() ? nullptr : &pairs[t.pick((unsigned)pairs.size())];
      for (auto &v : f.inputs) {
        if (v.get_type().is_bool()) {
          frame.num[v] = z_number((int64_t)(t.u8() & 1));
          continue;
        }
        z_number x(t.small_int(8));
        if (sp && !sp->pre.is_bottom() && t.pick(4) != 3) {
          // aim inside the precondition
          auto itv = sp->pre.at(v);
          if (!itv.is_bottom()) {
            if (itv.lb().is_finite())
              x = *itv.lb().number() + z_number((int64_t)t.pick(3));
            else if (itv.ub().is_finite())
              x = *itv.ub().number() - z_number((int64_t)t.pick(3));
            if (itv.ub().is_finite() && x > *itv.ub().number())
              x = *itv.ub().number();
          }
        }
        frame.num[v] = x;
      }
      State inputs = frame;
      Interp in(t);
      in.obs = &obs;
      in.inter = true;
      in.funcs = fmap;
      in.max_steps = 400;
      in.max_blocks = 120;
      in.depth = 1; // same return rule as a call: the function returns after its exit block
      if (INT64_WEIGHTS)
        in.big_chance = 0;
      cfg_t &fcfg = *f.prog.cfg;
      Stop why = Stop::Outside;
      try {
        why = in.run(fcfg, fcfg.entry(), frame);
      } catch (const StopExec &se) {
        in.outside_reason = se.reason;
      }
      R().cls(std::string("probe_stop_") + stop_name(why));
      if (why == Stop::Outside)
        R().trunc(in.outside_reason);
      if (why == Stop::NoSuccessor && fcfg.has_exit() && in.last_block_was_exit) {
        probes_returned++;
        State outputs;
        for (auto &v : f.outputs) {
          auto it = frame.num.find(v);
          outputs.num[v] = it != frame.num.end() ? it->second : in.arbitrary_for(v);
        }
        obs.check_summary(fi, inputs, outputs);
      }
    }
  }
  obs.probe = false;
  ctx.log << "executions=" << nexec << " blocks_visited=" << total_blocks << " block_checks=" << obs.block_checks
          << " calls_returned=" << entry_calls << " probes_returned=" << probes_returned
          << " summary_pairs_checked=" << obs.summary_checks << " applicable=" << obs.summary_applicable << "\n";
  if (ctx.verbose) {
    for (unsigned fi = 0; fi < nf; fi++) {
      auto &pairs = obs.summary(fi);
      for (auto &sp : pairs)
        ctx.log << "summary " << cgp.funcs[fi]->name << ": pre=" << to_str(sp.pre) << " post=" << to_str(sp.post) << "\n";
    }
    for (auto &kv : verdict) {
      ctx.log << "assert id=" << kv.first << ":";
      for (auto k : kv.second)
        ctx.log << " " << (k == crab::checker::check_kind::CRAB_SAFE ? "safe" : k == crab::checker::check_kind::CRAB_UNREACH ? "unreach"
                                                                              : k == crab::checker::check_kind::CRAB_ERR   ? "error"
                                                                                                                          : "warning");
      ctx.log << (obs.reached.count(kv.first) ? " [reached]" : "") << (obs.violated.count(kv.first) ? " [violated]" : "") << "\n";
    }
  }
  if (entry_calls) R().cls("program_with_returned_call");
  if (obs.summary_applicable) R().cls("program_with_applicable_summary_pair");
  if (probes_returned) R().cls("program_with_returned_probe");
  if (returned_execs) R().cls("program_with_returning_entry_execution");

  // ---- verdicts vs executions (C02) --------------------------------------------------------------------------------
  unsigned n_claims = 0, n_reached = 0, n_violated = 0;
  for (auto &kv : verdict) {
    bool r = obs.reached.count(kv.first) > 0, v = obs.violated.count(kv.first) > 0;
    if (r) n_reached++;
    if (v) n_violated++;
    if (kv.second.empty())
      continue;
    bool all_safe = true, all_unreach = true;
    for (auto k : kv.second) {
      if (k != crab::checker::check_kind::CRAB_SAFE && k != crab::checker::check_kind::CRAB_UNREACH)
        all_safe = false;
      if (k != crab::checker::check_kind::CRAB_UNREACH)
        all_unreach = false;
    }
    if (all_unreach) {
      n_claims++;
      VCHECK(ctx, "C02", !r, obs.c02_tag("unreachable_but_reached", kv.first),
             "assertion id=" << kv.first << " classified UNREACHABLE in all " << kv.second.size()
                             << " analysed contexts but a concrete execution reaches it");
    } else if (all_safe) {
      n_claims++;
      VCHECK(ctx, "C02", !v, obs.c02_tag("safe_but_violated", kv.first),
             "assertion id=" << kv.first << " classified SAFE/UNREACHABLE in all " << kv.second.size()
                             << " analysed contexts but a concrete execution violates it");
    }
  }
  for (auto &kv : obs.reached)
    if (!verdict.count(kv.first))
      n_reached++;
  if (n_violated) R().cls("program_with_violated_assertion");
  if (n_claims) R().cls("program_with_safe_or_unreach_claim");
  if (obs.saw_nontrivial_call) R().cls("nontrivial_call");

  bool c02_nt = n_claims > 0 && n_reached > 0;
  bool inter_nt = obs.saw_nontrivial_call;
  if (ctx.selected_prop == "C02")
    ctx.nontrivial = c02_nt;
  else if (ctx.selected_prop == "C05")
    ctx.nontrivial = (cgp.n_loops > 0 || f_rec) && analysis_steps > 0;
  else
    ctx.nontrivial = inter_nt;
}
} // namespace verif
