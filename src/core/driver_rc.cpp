// rapidcheck / replay driver. Contains no Crab headers.
//   h_x --rc                 run the property over generated tapes (RC_PARAMS)
//   h_x --replay FILE [-q]   run one saved tape, pretty-print, exit 1 if it fails
//   env: VERIF_STATS, VERIF_HASHES, VERIF_KNOWN, VERIF_PROP, VERIF_FAILTAPE,
//        VERIF_CURCASE (file continuously holding the tape being executed)
#include "report.hpp"
#include <rapidcheck.h>

#include <cstdio>
#include <cstdlib>
#include <cstring>
#include <fcntl.h>
#include <ctime>
#include <fstream>
#include <iostream>
#include <sys/mman.h>
#include <unistd.h>

using namespace verif;

static std::string g_failtape;
static uint8_t *g_cur = nullptr; // mmap'ed: [u32 len][bytes...]
static const size_t CUR_CAP = 1 << 16;

static void save_tape(const std::string &path, const std::vector<uint8_t> &t) {
  FILE *f = fopen(path.c_str(), "wb");
  if (!f)
    return;
  if (!t.empty())
    fwrite(t.data(), 1, t.size(), f);
  fclose(f);
}

static void note_current(const std::vector<uint8_t> &t) {
  if (!g_cur)
    return;
  uint32_t n = (uint32_t)std::min(t.size(), CUR_CAP - 4);
  memcpy(g_cur + 4, t.data(), n);
  memcpy(g_cur, &n, 4);
}

static rc::Gen<std::vector<uint8_t>> tape_gen() {
  using namespace rc;
  // byte mixture: uniform / small / 0xff ; length grows with size but never
  // collapses at small sizes
  auto byte = gen::weightedOneOf<uint8_t>(
      {{5, gen::resize(kNominalSize, gen::arbitrary<uint8_t>())},
       {3, gen::map(gen::resize(kNominalSize, gen::inRange<int>(0, 9)),
                    [](int v) { return (uint8_t)v; })},
       {1, gen::just<uint8_t>(0xff)},
       {1, gen::map(gen::resize(kNominalSize, gen::inRange<int>(0, 33)),
                    [](int v) { return (uint8_t)v; })}});
  int scale = 6;
  if (const char *e = getenv("VERIF_TAPE_SCALE"))
    scale = atoi(e) > 0 ? atoi(e) : 6;
  return gen::withSize([byte, scale](int size) {
    int lo = 8, hi = 24 + size * scale;
    return gen::mapcat(gen::resize(kNominalSize, gen::inRange<int>(lo, hi + 1)),
                       [byte](int len) {
                         return gen::container<std::vector<uint8_t>>(len, byte);
                       });
  });
}

int main(int argc, char **argv) {
  init_from_env();
  if (const char *p = getenv("VERIF_FAILTAPE"))
    g_failtape = p;
  if (const char *p = getenv("VERIF_CURCASE")) {
    int fd = open(p, O_RDWR | O_CREAT | O_TRUNC, 0644);
    if (fd >= 0 && ftruncate(fd, CUR_CAP) == 0) {
      void *m = mmap(nullptr, CUR_CAP, PROT_READ | PROT_WRITE, MAP_SHARED, fd, 0);
      if (m != MAP_FAILED)
        g_cur = (uint8_t *)m;
    }
  }
  if (argc >= 3 && !strcmp(argv[1], "--replay")) {
    std::ifstream in(argv[2], std::ios::binary);
    if (!in) {
      std::cerr << "cannot open " << argv[2] << "\n";
      return 2;
    }
    std::vector<uint8_t> t((std::istreambuf_iterator<char>(in)),
                           std::istreambuf_iterator<char>());
    bool quiet = argc >= 4 && !strcmp(argv[3], "-q");
    std::string pretty;
    int rc = run_case_wrapped(t.data(), t.size(), true, &pretty);
    if (!quiet)
      std::cout << pretty;
    Report &r = R();
    for (auto &kv : r.known)
      std::cout << "KNOWN-FINDING: " << kv.first << "\n";
    if (rc) {
      std::cout << "REPLAY-FAIL property=" << r.last_fail_prop
                << " class=" << r.last_fail_cls << " : " << r.last_fail_msg
                << "\n";
      return 1;
    }
    std::cout << "REPLAY-PASS\n";
    r.dump();
    return 0;
  }
  if (argc >= 2 && !strcmp(argv[1], "--rc")) {
    // shrinking is bounded by a COUNT of evaluations after the first failure (it only makes the replay
    // file smaller): later-added choices are read from the end of the tape, so that removing a byte
    // re-decodes them and greedy shrinking of a blatant failure can go on for a very long time
    // ... and by 120 s of wall clock for failures whose every re-run is expensive (an analysis running into
    // its event budget). Neither bound can change a verdict: the first failing tape is already saved.
    unsigned long shrink_evals = 0, shrink_cap = 6000;
    long shrink_secs = 120;
    time_t shrink_t0 = 0;
    if (const char *p = getenv("VERIF_SHRINK_EVALS"))
      shrink_cap = strtoul(p, nullptr, 10);
    if (const char *p = getenv("VERIF_SHRINK_SECS"))
      shrink_secs = strtol(p, nullptr, 10);
    bool ok = rc::check(harness_name(), [&]() {
      const auto t = *tape_gen();
      if (R().frozen) {
        if (!shrink_t0)
          shrink_t0 = time(nullptr);
        if (++shrink_evals > shrink_cap || time(nullptr) - shrink_t0 > shrink_secs)
          return; // candidate not examined: counts as passing, the current failing tape stays the result
      }
      note_current(t);
      int rcx = run_case_wrapped(t.data(), t.size(), false);
      if (rcx) {
        R().frozen = true; // everything after this is shrinking
        if (!g_failtape.empty())
          save_tape(g_failtape, t);
      }
      RC_ASSERT(rcx == 0);
    });
    R().dump();
    if (!ok) {
      std::cout << "FALSIFIED property=" << R().last_fail_prop
                << " class=" << R().last_fail_cls << " : "
                << R().last_fail_msg << "\n";
      return 1;
    }
    return 0;
  }
  std::cerr << "usage: " << argv[0] << " --rc | --replay FILE [-q]\n";
  return 2;
}
