// Types shared between the shadow debug header and the harness core.
#pragma once
#include <stdexcept>
#include <string>
namespace verif {
struct crab_error : public std::runtime_error {
  explicit crab_error(const std::string &m) : std::runtime_error(m) {}
};
struct step_budget_exceeded {
  unsigned long steps;
};
extern unsigned long g_step_count;
extern unsigned long g_step_budget;
inline void step_hook() {
  if (++g_step_count > g_step_budget)
    throw step_budget_exceeded{g_step_count};
}
} // namespace verif
