// Shared per-process counters / evidence + per-case context for all harnesses.
#pragma once
#include <cstdint>
#include <map>
#include <set>
#include <sstream>
#include <string>
#include <unordered_set>
#include <vector>

namespace verif {

// thrown by an oracle to end the case with a failure
struct Fail {
  std::string prop; // property id the failed oracle belongs to (e.g. "C20")
  std::string cls;  // classifier tag (narrow description of *what* failed)
  std::string msg;  // human readable
};
// thrown to end a case early without verdict (outside the model)
struct Truncate {
  std::string reason;
};

struct CaseCtx {
  bool verbose = false;
  std::ostringstream log; // pretty-printed decoded case (always filled cheaply)
  bool nontrivial = false;
  uint64_t hash = 0; // hash of the decoded case (for distinct counting)
  std::string selected_prop; // property under decision ("" = all)
  bool want(const char *prop) const {
    return selected_prop.empty() || selected_prop == prop;
  }
  void mix(uint64_t v) {
    hash ^= v + 0x9e3779b97f4a7c15ULL + (hash << 6) + (hash >> 2);
  }
  void mixs(const std::string &s) {
    uint64_t h = 1469598103934665603ULL;
    for (unsigned char c : s) {
      h ^= c;
      h *= 1099511628211ULL;
    }
    mix(h);
  }
};

struct Report {
  uint64_t evaluations = 0, nontrivial = 0, violations = 0, checks = 0;
  std::unordered_set<uint64_t> nt_hashes;
  std::map<std::string, uint64_t> classes, rejected, truncated, excluded, known,
      diagnostics;
  std::vector<std::string> samples;
  size_t max_samples = 5;
  bool frozen = false; // after first failure (shrinking re-runs don't count)
  std::set<std::string> active_known;
  std::string selected_prop;
  std::string last_fail_prop, last_fail_cls, last_fail_msg;
  std::string stats_path, hashes_path;

  void cls(const std::string &k, uint64_t n = 1) {
    if (!frozen)
      classes[k] += n;
  }
  void rej(const std::string &k) {
    if (!frozen)
      rejected[k]++;
  }
  void trunc(const std::string &k) {
    if (!frozen)
      truncated[k]++;
  }
  void excl(const std::string &k) {
    if (!frozen)
      excluded[k]++;
  }
  void diag(const std::string &k) {
    if (!frozen)
      diagnostics[k]++;
  }
  bool is_known(const std::string &cls) const {
    return active_known.count(cls) > 0;
  }
  void dump() const; // writes stats_path / hashes_path if set
};

Report &R();

// Implemented by every harness TU -------------------------------------------
const char *harness_name();
// decode + run + oracle. Throws Fail / Truncate / crab_error, or returns.
void run_case(const uint8_t *data, size_t size, CaseCtx &ctx);
// optional per-process initialisation (default weak no-op in report.cpp)
void harness_init();

// Implemented in report.cpp ---------------------------------------------------
// returns 0 = pass, 1 = violation (message in R().last_fail_*)
int run_case_wrapped(const uint8_t *data, size_t size, bool verbose,
                     std::string *pretty = nullptr);
void init_from_env();
std::string json_escape(const std::string &s);

#define VCHECK(ctx, prop, cond, cls, msgexpr)                                  \
  do {                                                                         \
    if ((ctx).want(prop)) {                                                    \
      ::verif::R().checks++;                                                   \
      if (!(cond)) {                                                           \
        std::ostringstream _os;                                                \
        _os << msgexpr;                                                        \
        throw ::verif::Fail{prop, cls, _os.str()};                             \
      }                                                                        \
    }                                                                          \
  } while (0)

} // namespace verif
