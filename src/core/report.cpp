#include "report.hpp"
#include <cstdio>
#include <cstdlib>
#include <cstring>
#include <exception>
#include <fstream>
#include <iostream>
#include <stdexcept>

#include "hooks.hpp"
namespace verif {
unsigned long g_step_count = 0;
unsigned long g_step_budget = ~0UL;

Report &R() {
  static Report r;
  return r;
}

__attribute__((weak)) void harness_init() {}

std::string json_escape(const std::string &s) {
  std::string o;
  o.reserve(s.size() + 8);
  for (unsigned char c : s) {
    switch (c) {
    case '"': o += "\\\""; break;
    case '\\': o += "\\\\"; break;
    case '\n': o += "\\n"; break;
    case '\t': o += "\\t"; break;
    case '\r': o += "\\r"; break;
    default:
      if (c < 0x20 || c >= 0x7f) {
        char b[8];
        snprintf(b, sizeof b, "\\u%04x", c);
        o += b;
      } else
        o += (char)c;
    }
  }
  return o;
}

static void dump_map(std::ostream &o, const char *name,
                     const std::map<std::string, uint64_t> &m) {
  o << "\"" << name << "\":{";
  bool first = true;
  for (auto &kv : m) {
    if (!first)
      o << ",";
    first = false;
    o << "\"" << json_escape(kv.first) << "\":" << kv.second;
  }
  o << "}";
}

void Report::dump() const {
  if (!stats_path.empty()) {
    std::ofstream o(stats_path + ".tmp");
    o << "{\"harness\":\"" << harness_name() << "\",";
    o << "\"evaluations\":" << evaluations << ",";
    o << "\"nontrivial\":" << nontrivial << ",";
    o << "\"distinct_nontrivial\":" << nt_hashes.size() << ",";
    o << "\"checks\":" << checks << ",";
    o << "\"violations\":" << violations << ",";
    dump_map(o, "classes", classes); o << ",";
    dump_map(o, "rejected", rejected); o << ",";
    dump_map(o, "truncated", truncated); o << ",";
    dump_map(o, "excluded", excluded); o << ",";
    dump_map(o, "known", known); o << ",";
    dump_map(o, "diagnostics", diagnostics); o << ",";
    o << "\"last_fail\":{\"prop\":\"" << json_escape(last_fail_prop)
      << "\",\"cls\":\"" << json_escape(last_fail_cls) << "\",\"msg\":\""
      << json_escape(last_fail_msg) << "\"},";
    o << "\"samples\":[";
    for (size_t i = 0; i < samples.size(); i++) {
      if (i)
        o << ",";
      o << "\"" << json_escape(samples[i]) << "\"";
    }
    o << "]}\n";
    o.close();
    std::rename((stats_path + ".tmp").c_str(), stats_path.c_str());
  }
  if (!hashes_path.empty()) {
    FILE *f = fopen(hashes_path.c_str(), "wb");
    if (f) {
      for (uint64_t h : nt_hashes)
        fwrite(&h, sizeof h, 1, f);
      fclose(f);
    }
  }
}

void init_from_env() {
  Report &r = R();
  if (const char *k = getenv("VERIF_KNOWN")) {
    std::string s(k), cur;
    for (char c : s) {
      if (c == ',') {
        if (!cur.empty())
          r.active_known.insert(cur);
        cur.clear();
      } else
        cur += c;
    }
    if (!cur.empty())
      r.active_known.insert(cur);
  }
  if (const char *p = getenv("VERIF_PROP"))
    r.selected_prop = p;
  if (const char *p = getenv("VERIF_STATS"))
    r.stats_path = p;
  if (const char *p = getenv("VERIF_HASHES"))
    r.hashes_path = p;
  harness_init();
}

int run_case_wrapped(const uint8_t *data, size_t size, bool verbose,
                     std::string *pretty) {
  Report &r = R();
  CaseCtx ctx;
  ctx.verbose = verbose;
  ctx.selected_prop = r.selected_prop;
  int rc = 0;
  g_step_count = 0;
  g_step_budget = ~0UL;
  if (!r.frozen)
    r.evaluations++;
  try {
    run_case(data, size, ctx);
  } catch (const Fail &f) {
    if (r.is_known(f.cls)) {
      if (!r.frozen)
        r.known[f.prop + " " + f.cls]++;
      if (verbose)
        ctx.log << "KNOWN-FINDING class=" << f.cls << " prop=" << f.prop
                << " : " << f.msg << "\n";
    } else if (!ctx.want(f.prop.c_str())) {
      r.cls("other_property_failure:" + f.prop + ":" + f.cls);
    } else {
      rc = 1;
      r.last_fail_prop = f.prop;
      r.last_fail_cls = f.cls;
      r.last_fail_msg = f.msg;
      if (verbose)
        ctx.log << "ORACLE FAILED prop=" << f.prop << " class=" << f.cls
                << " : " << f.msg << "\n";
    }
  } catch (const Truncate &t) {
    r.trunc(t.reason);
    if (verbose)
      ctx.log << "TRUNCATED: " << t.reason << "\n";
  } catch (const crab_error &e) {
    std::string m = e.what();
    if (m.size() > 60)
      m.resize(60);
    r.rej(m);
    if (verbose)
      ctx.log << "REJECTED (CRAB_ERROR): " << e.what() << "\n";
  } catch (const step_budget_exceeded &s) {
    r.trunc("step_budget_unhandled");
  } catch (const std::exception &e) {
    // an exception that is neither an oracle failure nor a clean rejection:
    // reported as a harness/crash failure (the supervisor treats property
    // "EXCEPTION" like a crash, never silently)
    std::string cls = std::string("exception_") + e.what() + "@" + harness_name();
    if (r.is_known(cls)) {
      // a recorded finding that ends in an exception (e.g. a runaway allocation stopped by the
      // memory cap): counted, the search continues
      if (!r.frozen)
        r.known[(r.selected_prop.empty() ? std::string("EXCEPTION") : r.selected_prop) + " " + cls]++;
      if (verbose)
        ctx.log << "KNOWN-FINDING class=" << cls << " : " << e.what() << "\n";
    } else {
      rc = 1;
      r.last_fail_prop = "EXCEPTION";
      r.last_fail_cls = cls;
      r.last_fail_msg = e.what();
      if (verbose)
        ctx.log << "UNEXPECTED EXCEPTION: " << e.what() << "\n";
    }
  }
  if (rc == 0 && ctx.nontrivial && !r.frozen) {
    r.nontrivial++;
    bool fresh = r.nt_hashes.insert(ctx.hash).second;
    if (fresh && r.samples.size() < r.max_samples &&
        (r.nontrivial % 7 == 1 || r.samples.empty())) {
      std::string s = ctx.log.str();
      if (s.size() > 1500)
        s = s.substr(0, 1500) + "...";
      r.samples.push_back(s);
    }
  }
  if (rc == 1 && !r.frozen) {
    r.violations++;
  }
  if (pretty)
    *pretty = ctx.log.str();
  return rc;
}
} // namespace verif
