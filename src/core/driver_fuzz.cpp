// libFuzzer driver: LLVMFuzzerTestOneInput = run_case; an oracle failure
// writes stats and aborts so the crash artifact is the replay tape.
#include "report.hpp"
#include <cstdio>
#include <cstdlib>
using namespace verif;

static void at_exit_dump() { R().dump(); }

extern "C" int LLVMFuzzerInitialize(int *, char ***) {
  init_from_env();
  atexit(at_exit_dump);
  return 0;
}

extern "C" int LLVMFuzzerTestOneInput(const uint8_t *data, size_t size) {
  int rc = run_case_wrapped(data, size, false);
  if (rc) {
    fprintf(stderr, "ORACLE-FAIL property=%s class=%s : %s\n",
            R().last_fail_prop.c_str(), R().last_fail_cls.c_str(),
            R().last_fail_msg.c_str());
    R().dump();
    abort();
  }
  return 0;
}
