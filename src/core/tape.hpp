// Choice tape: every generator in /verif is a deterministic function of a
// finite byte string. Reading past the end yields 0 and every decoder maps 0
// to its simplest alternative, so deleting/zeroing bytes simplifies the case.
#pragma once
#include <cstddef>
#include <cstdint>
#include <vector>

namespace verif {
class Tape {
  const uint8_t *p_;
  size_t n_, i_ = 0;
  size_t overrun_ = 0;

public:
  Tape(const uint8_t *p, size_t n) : p_(p), n_(n) {}
  uint8_t u8() {
    if (i_ < n_)
      return p_[i_++];
    overrun_++;
    return 0;
  }
  // Independent second cursor reading from the END of the tape backwards (like
  // FuzzedDataProvider's integrals): used for configuration choices that were
  // added after tapes of a harness had been saved, so that the forward decode of
  // old tapes is unchanged. 0 past the beginning.
  size_t j_ = 0;
  uint8_t tail_u8() {
    if (j_ < n_)
      return p_[n_ - 1 - j_++];
    return 0;
  }
  bool tail_flag() { return tail_u8() & 1; }
  unsigned tail_pick(unsigned n) { return n <= 1 ? 0 : tail_u8() % n; }
  bool exhausted() const { return i_ >= n_; }
  size_t consumed() const { return i_; }
  size_t overrun() const { return overrun_; }
  bool flag() { return u8() & 1; }
  // true with probability ~ num/256
  bool chance(unsigned num) { return u8() < num && num > 0 ? (true) : false; }
  // 0..n-1 ; 0 is the simplest alternative
  unsigned pick(unsigned n) {
    if (n <= 1)
      return 0;
    if (n <= 256)
      return u8() % n;
    unsigned v = u8();
    v = (v << 8) | u8();
    return v % n;
  }
  // inclusive range; 0-byte maps to lo
  int64_t range(int64_t lo, int64_t hi) {
    if (hi <= lo)
      return lo;
    uint64_t span = (uint64_t)(hi - lo) + 1;
    uint64_t v = 0;
    if (span <= 256)
      v = u8();
    else if (span <= 65536) {
      v = u8();
      v = (v << 8) | u8();
    } else {
      for (int k = 0; k < 8; k++)
        v = (v << 8) | u8();
    }
    return lo + (int64_t)(v % span);
  }
  // small signed integer centred on 0: 0,1,-1,2,-2,... up to +-k
  int64_t small_int(unsigned k = 8) {
    unsigned v = u8() % (2 * k + 1);
    return (v & 1) ? (int64_t)((v + 1) / 2) : -(int64_t)(v / 2);
  }
  uint64_t u64() {
    uint64_t v = 0;
    for (int k = 0; k < 8; k++)
      v = (v << 8) | u8();
    return v;
  }
  // signed 64-bit constant from a pool biased to boundaries
  int64_t i64_pool() {
    unsigned k = u8() % 16;
    switch (k) {
    case 0: return 0;
    case 1: return 1;
    case 2: return -1;
    case 3: return small_int(8);
    case 4: return small_int(100);
    case 5: return range(-1000, 1000);
    case 6: { int s = (int)range(1, 62); return (int64_t)1 << s; }
    case 7: { int s = (int)range(1, 62); return -((int64_t)1 << s); }
    case 8: { int s = (int)range(1, 62); return ((int64_t)1 << s) + small_int(2); }
    case 9: { int s = (int)range(1, 62); return -((int64_t)1 << s) + small_int(2); }
    case 10: return INT32_MAX + small_int(2);
    case 11: return (int64_t)INT32_MIN + small_int(2);
    case 12: return INT64_MAX - (int64_t)(u8() % 3);
    case 13: return INT64_MIN + (int64_t)(u8() % 3);
    case 14: return (int64_t)u64();
    default: return small_int(3);
    }
  }
};
} // namespace verif
