// Function-shaped programs for the C17 / C18 harnesses: a vp::Gen program that
// ALWAYS has an exit block and a function declaration with outputs (so that
// "variables observable at exit" is defined), with a shape mix richer in the
// cases the CFG transformations and the dataflow analyses care about: blocks
// unreachable from the entry, dead-end blocks, self loops, the entry in a
// cycle, an exit block with successors.  No division / remainder (C17's
// proviso "no removed statement can fail" holds by construction).
#pragma once
#include "gen.hpp"
#include "interp.hpp"

namespace vp {

struct FuncShape {
  bool has_unreachable_block = false, has_deadend_block = false, has_self_loop = false, entry_in_cycle = false,
       exit_has_succ = false, midblock_unreachable = false, exit_reachable = false;
};

struct FuncProgram {
  Program prog;
  std::vector<var_t> outputs;
  std::vector<var_t> vars; // every variable (scalars and arrays)
  bool with_arrays = false;
  FuncShape shape;
};

inline std::set<label_t> reach_fwd(const cfg_t &cfg, const label_t &from) {
  std::set<label_t> seen;
  std::vector<label_t> wl{from};
  while (!wl.empty()) {
    label_t l = wl.back();
    wl.pop_back();
    if (!seen.insert(l).second)
      continue;
    for (auto const &n : boost::make_iterator_range(cfg.get_node(l).next_blocks()))
      wl.push_back(n);
  }
  return seen;
}
inline std::set<label_t> reach_bwd(const cfg_t &cfg, const label_t &from) {
  std::set<label_t> seen;
  std::vector<label_t> wl{from};
  while (!wl.empty()) {
    label_t l = wl.back();
    wl.pop_back();
    if (!seen.insert(l).second)
      continue;
    for (auto const &n : boost::make_iterator_range(cfg.get_node(l).prev_blocks()))
      wl.push_back(n);
  }
  return seen;
}

inline FuncShape shape_of(const cfg_t &cfg) {
  FuncShape s;
  auto fwd = reach_fwd(cfg, cfg.entry());
  auto bwd = reach_bwd(cfg, cfg.exit());
  s.exit_reachable = fwd.count(cfg.exit()) > 0;
  for (auto it = cfg.label_begin(); it != cfg.label_end(); ++it) {
    const label_t &l = *it;
    const block_t &b = cfg.get_node(l);
    if (!fwd.count(l))
      s.has_unreachable_block = true;
    if (!bwd.count(l))
      s.has_deadend_block = true;
    for (auto const &n : boost::make_iterator_range(b.next_blocks()))
      if (n == l)
        s.has_self_loop = true;
    unsigned i = 0, n = (unsigned)b.size();
    for (auto const &st : b) {
      if (st.is_unreachable() && i + 1 < n)
        s.midblock_unreachable = true;
      if (st.is_unreachable() && i > 0)
        s.midblock_unreachable = true;
      i++;
    }
  }
  {
    const block_t &e = cfg.get_node(cfg.entry());
    for (auto const &pl : boost::make_iterator_range(e.prev_blocks()))
      if (fwd.count(pl))
        s.entry_in_cycle = true;
    const block_t &x = cfg.get_node(cfg.exit());
    auto nx = x.next_blocks();
    s.exit_has_succ = nx.first != nx.second;
  }
  return s;
}

// caps: capability mask for the statements (CAP_DIV / CAP_UNSIGNED must be off)
inline void build_function(verif::Tape &t, FuncProgram &fp, unsigned caps) {
  GenOpts go;
  go.caps = caps;
  go.force_exit = true;
  go.max_blocks = 9;
  go.const_cap = (int64_t)1 << 40;
  fp.with_arrays = (caps & CAP_ARRAY) != 0;
  Program &p = fp.prog;
  Gen gen(t, go, p);
  gen.declare_vars();
  unsigned shape = t.pick(3); // 0 structured, 1 structured + decorations, 2 unstructured
  label_t entry = "b0";
  p.cfg.reset(new cfg_t(entry));
  if (shape != 2) {
    Gen::Reg r = gen.region(0);
    p.cfg->set_exit(r.last);
    if (shape == 1) {
      p.structured = false;
      unsigned k = 1 + t.pick(3);
      for (unsigned i = 0; i < k; i++) {
        unsigned kind = t.pick(5);
        unsigned nl = (unsigned)p.labels.size();
        switch (kind) {
        case 0: { // dead-end block hanging off an existing block
          label_t from = p.labels[t.pick(nl)];
          block_t &d = gen.new_block();
          p.cfg->get_node(from) >> d;
          break;
        }
        case 1: { // block unreachable from the entry that jumps into the cfg
          label_t to = p.labels[t.pick(nl)];
          block_t &u = gen.new_block();
          u >> p.cfg->get_node(to);
          break;
        }
        case 2: { // self loop
          block_t &b = p.cfg->get_node(p.labels[t.pick(nl)]);
          b >> b;
          break;
        }
        case 3: { // arbitrary extra edge (back edge to the entry, edge out of the exit, ...)
          block_t &a = p.cfg->get_node(p.labels[t.pick(nl)]);
          block_t &b = p.cfg->get_node(p.labels[t.pick(nl)]);
          a >> b;
          break;
        }
        default: { // edge back to the entry
          block_t &a = p.cfg->get_node(p.labels[t.pick(nl)]);
          a >> p.cfg->get_node(entry);
          break;
        }
        }
      }
    }
  } else {
    p.structured = false;
    unsigned n = 2 + t.pick(go.max_blocks - 1);
    gen.unstructured(n);
    // exit: usually the last block, sometimes any block (possibly the entry)
    if (t.pick(4) == 3)
      p.cfg->set_exit(p.labels[t.pick((unsigned)p.labels.size())]);
    else
      p.cfg->set_exit(p.labels.back());
  }
  // The function returns at the end of its exit block. Whether an exit block may have
  // successors is documented nowhere (no front end produces one, and every transformation
  // treats what follows the exit differently), so such CFGs are outside the domain of
  // C17/C18: the outgoing edges of the chosen exit are removed (construction, not rejection).
  {
    block_t &x = p.cfg->get_node(p.cfg->exit());
    std::vector<label_t> succs;
    for (auto const &n : boost::make_iterator_range(x.next_blocks()))
      succs.push_back(n);
    for (auto &n : succs)
      x -= p.cfg->get_node(n);
  }
  // assertions an interval analysis can prove (so that lower_safe_assertions has work):
  // appended to decoded blocks as  x := c / assume(x <= c)  followed by an assertion
  if (caps & CAP_ASSERT) {
    unsigned k = t.pick(3);
    for (unsigned i = 0; i < k; i++) {
      block_t &b = p.cfg->get_node(p.labels[t.pick((unsigned)p.labels.size())]);
      var_t v = gen.ivar();
      z_number c(t.small_int(8));
      z_number slack((int64_t)t.pick(3));
      crab::cfg::debug_info di("verif", 1, 1, go.first_assert_id + p.n_asserts);
      p.n_asserts++;
      unsigned mode = t.pick(6);
      if (mode == 4 && p.bools.empty())
        mode = 0;
      switch (mode) {
      case 5: { // dependence chain across blocks: x := y + c in one block, a loose assertion on x in a later one
        var_t w = gen.ivar();
        unsigned nl = (unsigned)p.labels.size();
        unsigned i1 = t.pick(nl), i2 = i1 + t.pick(nl - i1);
        p.cfg->get_node(p.labels[i1]).add(v, w, c);
        p.cfg->get_node(p.labels[i2]).assertion(cst_t(lin_t(v) <= lin_t(z_number(1000) + slack)), di);
        break;
      }
      case 4: { // boolean assertion provable by a flat boolean + interval analysis
        var_t q = gen.bvar();
        b.assume(cst_t(lin_t(v) <= lin_t(c)));
        b.bool_assign(q, cst_t(lin_t(v) <= lin_t(c + slack)));
        b.bool_assert(q, di);
        break;
      }
      case 0:
        b.assign(v, lin_t(c));
        b.assertion(cst_t(lin_t(v) <= lin_t(c + slack)), di);
        break;
      case 1:
        b.assume(cst_t(lin_t(v) <= lin_t(c)));
        b.assertion(cst_t(lin_t(v) <= lin_t(c + slack)), di);
        break;
      case 2:
        b.assign(v, lin_t(c));
        b.assertion(cst_t(lin_t(v) >= lin_t(c - slack)), di);
        break;
      default: {
        var_t w = gen.ivar();
        b.assume(cst_t(lin_t(w) >= lin_t(c)));
        b.add(v, w, z_number(1));
        b.assertion(cst_t(lin_t(v) >= lin_t(c - slack)), di);
        break;
      }
      }
    }
  }
  // every variable
  fp.vars = p.all_scalar_vars();
  fp.vars.insert(fp.vars.end(), p.arrs.begin(), p.arrs.end());
  // outputs: 1, 2, 0 or 3 distinct variables
  static const unsigned nouts[] = {1, 2, 0, 3};
  unsigned nout = nouts[t.pick(4)];
  std::set<var_t> used;
  for (unsigned i = 0; i < nout; i++) {
    const var_t &v = fp.vars[t.pick((unsigned)fp.vars.size())];
    if (used.insert(v).second)
      fp.outputs.push_back(v);
  }
  p.cfg->set_func_decl(fdecl_t("f", {}, fp.outputs));
  fp.shape = shape_of(*p.cfg);
}

// decoded initial state: every scalar has a value, every array has its first cells written
inline State initial_state(verif::Tape &t, const FuncProgram &fp) {
  State s;
  const Program &p = fp.prog;
  for (auto &v : p.ints)
    s.num[v] = z_number(t.small_int(6));
  for (auto &v : p.wides)
    s.num[v] = z_number(t.small_int(6));
  for (auto &v : p.bools)
    s.num[v] = z_number((int64_t)(t.u8() & 1));
  for (unsigned i = 0; i < p.arrs.size(); i++) {
    auto &cells = s.arr[p.arrs[i]];
    for (int k = 0; k < 6; k++)
      cells[p.arr_elem_size[i] * z_number((int64_t)k)] = z_number(t.small_int(4));
  }
  return s;
}

} // namespace vp
