// CrabIR instantiation used by all program-level harnesses (mirrors tests/crab_lang.hpp)
#pragma once
#include <crab/cfg/basic_block_traits.hpp>
#include <crab/cfg/cfg.hpp>
#include <crab/cg/cg.hpp>
#include <crab/config.h>
#include <crab/support/debug.hpp>
#include <crab/types/tag.hpp>
#include <crab/types/varname_factory.hpp>

namespace vp {
using variable_factory_t = crab::var_factory_impl::str_variable_factory;
using varname_t = typename variable_factory_t::varname_t;
using label_t = std::string;
using z_number = ikos::z_number;
using cfg_t = crab::cfg::cfg<label_t, varname_t, z_number>;
using cfg_ref_t = crab::cfg::cfg_ref<cfg_t>;
using cfg_rev_t = crab::cfg::cfg_rev<cfg_ref_t>;
using block_t = cfg_t::basic_block_t;
using var_t = crab::variable<z_number, varname_t>;
using var_or_cst_t = crab::variable_or_constant<z_number, varname_t>;
using lin_t = ikos::linear_expression<z_number, varname_t>;
using cst_t = ikos::linear_constraint<z_number, varname_t>;
using csts_t = ikos::linear_constraint_system<z_number, varname_t>;
using ref_cst_t = crab::reference_constraint<z_number, varname_t>;
using stmt_t = cfg_t::statement_t;
using fdecl_t = cfg_t::fdecl_t;
using cg_t = crab::cg::call_graph<cfg_ref_t>;
using cg_ref_t = crab::cg::call_graph_ref<cg_t>;
} // namespace vp

namespace crab {
template <> class variable_name_traits<std::string> {
public:
  static std::string to_string(std::string varname) { return varname; }
};
template <> class basic_block_traits<vp::block_t> {
public:
  using bb_label_t = typename vp::block_t::basic_block_label_t;
  static std::string to_string(const bb_label_t &bbl) { return bbl; }
};
} // namespace crab

namespace vp {
template <class T> inline std::string to_str(const T &x) {
  crab::crab_string_os os;
  os << x;
  return os.str();
}
} // namespace vp
