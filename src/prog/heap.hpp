// Concrete heap model for the region/reference statements of CrabIR (DESIGN.md 2.3
// "regions" row, property C15).  Extension of the reference interpreter: HeapInterp
// subclasses vp::Interp and overrides the visit() methods that the base class treats
// as "outside the model".
//
//   reference value   null | (object, offset) | wild address (result of int_to_ref)
//   memory cell       (region, object, offset) -> typed value (int / bool / reference)
//   make_ref          fresh object, offset 0, remembers the allocation site
//   gep_ref           same object, offset + k, possibly another region
//   load              of a cell never written on this execution: OUTSIDE THE MODEL
//   region_init       empties the region
//   region_copy/cast  dst := copy of the cells (and tags) of src; the previous cells of
//                     dst are dropped.  Precondition of the model: no live reference
//                     points into dst (otherwise outside the model: the documentation
//                     is silent about what such references denote afterwards)
//   remove_ref        frees the object; later loads/stores through it are outside
//   ref_to_int        0 for null, else base(object)+offset with distinct positive bases
//   int_to_ref        0 -> null, else a wild address (loads/stores/comparisons through
//                     it are outside the model; only its nullness is known)
//   assume/assert_ref ==, != between any two proper references (distinct objects are
//                     never equal); <,<=,>,>= only inside one object; vs null:
//                     every object address is > null
//   add_tag           tag attached to the (already written) cell; a store to the cell clears the model's
//                     tag set (lower bound of the real tag set under either reading of
//                     the documentation)
//
// Executions end by throwing HeapEnd (the private stop flag of Interp is not
// reachable from a subclass); run_heap() converts it into the Stop reason.
#pragma once
#include "interp.hpp"

#include <map>
#include <set>
#include <string>
#include <tuple>
#include <vector>

namespace vp {

struct RefVal {
  enum K { Uninit, Null, Obj, Wild } k = Uninit;
  unsigned obj = 0;
  z_number off;  // Obj
  z_number addr; // Wild
  // classifier of a known finding: the value descends from a make_ref whose lhs variable already
  // held a value (region_domain::ref_make keeps the old constraints on the address of its lhs)
  bool stale = false;
  // the value went through an integer (int_to_ref of an address obtained by ref_to_int, possibly
  // with arithmetic): it designates the same object, but loads/stores through it stay outside the
  // model
  bool from_int = false;
  // loaded from a region of HeapInterp::redefined_with_live_alias (classifier of a known finding)
  bool from_miscounted_region = false;
  bool operator==(const RefVal &o) const {
    if (k != o.k)
      return false;
    if (k == Obj)
      return obj == o.obj && off == o.off;
    if (k == Wild)
      return addr == o.addr;
    return true;
  }
  std::string str() const {
    switch (k) {
    case Uninit: return "uninit";
    case Null: return "null";
    case Obj: return "(o" + std::to_string(obj) + "," + off.get_str() + ")";
    default: return "wild:" + addr.get_str();
    }
  }
};

struct HVal {
  enum K { INT, BOOL, REF } kind = INT;
  unsigned width = 0; // INT
  z_number num;       // INT / BOOL
  RefVal ref;         // REF
};

struct HObject {
  size_t site = 0; // allocation site index
  const void *make_stmt = nullptr;
  bool freed = false;
  z_number size;
};

struct CellKey {
  var_t rgn;
  unsigned obj;
  z_number off;
  bool operator<(const CellKey &o) const {
    if (!(rgn == o.rgn))
      return rgn < o.rgn;
    if (obj != o.obj)
      return obj < o.obj;
    return off < o.off;
  }
};

struct HCell {
  HVal v;
  bool have_store_ref = false;
  var_t store_ref; // reference variable the last store went through
  HCell(const HVal &val, const var_t &r) : v(val), have_store_ref(true), store_ref(r) {}
};

struct Heap {
  std::map<var_t, RefVal> refs;
  std::vector<HObject> objs;
  std::map<CellKey, HCell> cells;
  std::map<CellKey, std::set<uint64_t>> tags;
  unsigned cells_in(const var_t &rgn) const {
    unsigned n = 0;
    for (auto &kv : cells)
      if (kv.first.rgn == rgn)
        n++;
    return n;
  }
  RefVal ref(const var_t &v) const {
    auto it = refs.find(v);
    return it == refs.end() ? RefVal() : it->second;
  }
  std::string str() const {
    std::string s = "refs{";
    bool f = true;
    for (auto &kv : refs) {
      if (!f)
        s += ", ";
      f = false;
      s += to_str(kv.first) + "=" + kv.second.str();
    }
    s += "} cells{";
    f = true;
    for (auto &kv : cells) {
      if (!f)
        s += ", ";
      f = false;
      s += to_str(kv.first.rgn) + ".o" + std::to_string(kv.first.obj) + "+" + kv.first.off.get_str() + "=";
      if (kv.second.v.kind == HVal::REF)
        s += kv.second.v.ref.str();
      else
        s += kv.second.v.num.get_str();
    }
    return s + "}";
  }
};

struct HeapEnd {
  Stop kind;
  std::string reason;
};

// static facts about the program the model's preconditions refer to
struct HeapTyping {
  std::map<var_t, var_t> home;    // reference variable -> its home region
  std::map<var_t, var_t> pointee; // region of references -> region its references point into
};

class HeapInterp : public Interp {
public:
  Heap heap;
  const HeapTyping *typing = nullptr;
  State *S = nullptr;
  cfg_t *C = nullptr;
  // non-triviality classes of judged loads (DESIGN C15 N)
  unsigned unary_cst_on_null = 0;
  unsigned loads = 0, nt_multi_cell = 0, nt_alias_store = 0, nt_remake = 0, ref_loads = 0;
  std::map<const void *, std::vector<unsigned>> made_by; // make_ref statement -> objects
  // classifier of a known finding: regions whose (path-local) reference count was 1(V) when the
  // same variable V was counted again (make_ref, gep_ref with offset/region change, select_ref
  // across regions, int_to_ref) while another live reference still pointed into the object V
  // designated before.  small_range::increment keeps the count at 1(V) then, although the old
  // cell stays reachable.
  std::set<var_t> redefined_with_live_alias;
  std::set<var_t> cast_of_multi_cell_region;

  // classifier of a known finding in a shared layer (flat_boolean_numerical_domain): the domain
  // remembers "if x becomes true then y is true" after x := y (also x := y & z, bool_select, and a
  // load/store of a boolean through a region ghost variable) and does not drop the link when y is
  // re-defined; a later assume_bool(x) -- including the point meet of the membership oracle --
  // then asserts the OLD fact about the new y.
  std::map<var_t, std::set<var_t>> bool_links;
  bool stale_bool_link = false;
  // second known finding of the same layer: x := not(y) keeps the linear/reference constraint of
  // the previous definition of x when y has no recorded constraint (propagate_assign_bool_var)
  std::set<var_t> bool_has_cst; // booleans whose current definition descends from a constraint
  bool stale_negated_copy = false;
  void def_bool(const var_t &x, const std::set<var_t> &sources) {
    for (auto &kv : bool_links)
      if (!(kv.first == x) && kv.second.count(x))
        stale_bool_link = true;
    bool_links[x] = sources;
    bool_links[x].erase(x);
  }
  std::set<var_t> links_of(const var_t &y) {
    std::set<var_t> r;
    auto it = bool_links.find(y);
    if (it != bool_links.end())
      r = it->second;
    r.insert(y);
    return r;
  }

  explicit HeapInterp(verif::Tape &t) : Interp(t) {}

  Stop run_heap(cfg_t &cfg, const label_t &entry, State &s) {
    S = &s;
    C = &cfg;
    try {
      return run(cfg, entry, s);
    } catch (const HeapEnd &e) {
      if (e.kind == Stop::Outside)
        outside_reason = e.reason;
      return e.kind;
    }
  }

  static z_number address(const RefVal &r) {
    if (r.k == RefVal::Null)
      return z_number(0);
    if (r.k == RefVal::Wild)
      return r.addr;
    return z_number((int64_t)65536) * z_number((int64_t)r.obj + 1) + r.off;
  }

private:
  [[noreturn]] void out(const std::string &why) { throw HeapEnd{Stop::Outside, why}; }

  // Path-local replay of the domain's reference counter of a region (small_range: 0, 1(V), many;
  // a region that was not initialised counts as many).  The known finding needs the counter to
  // be 1(V) when V itself is counted again.
  struct Cnt {
    int k = 2; // 0 zero, 1 one (of variable v), 2 many
    std::vector<var_t> v;
    long obj = -1; // the object v designated when it was counted (-1: none / not an object)
  };
  std::map<var_t, Cnt> shadow_count;

  // called before the counted (re-)definition of reference variable v into region rgn
  void note_counted_redefinition(const var_t &v, const var_t &rgn) {
    auto ci = shadow_count.find(rgn);
    if (ci == shadow_count.end())
      return; // many
    Cnt &c = ci->second;
    if (c.k == 0) {
      c.k = 1;
      c.v.assign(1, v);
      return;
    }
    if (c.k == 2)
      return;
    if (!(c.v[0] == v)) {
      c.k = 2;
      c.v.clear();
      return;
    }
    // 1(V) and V is counted again: the counter stays 1(V).  Is the object that was counted (or the
    // one V designates now) still reachable?  Through an offset-0 alias in the same region, or
    // through a reference kept in another region / at another offset (gep_ref and select_ref can
    // bring it back).
    RefVal old = heap.ref(v);
    std::set<long> objs;
    if (c.obj >= 0)
      objs.insert(c.obj);
    if (old.k == RefVal::Obj)
      objs.insert((long)old.obj);
    for (auto &kv : heap.refs)
      if (!(kv.first == v) && kv.second.k == RefVal::Obj && objs.count((long)kv.second.obj))
        redefined_with_live_alias.insert(rgn);
    for (auto &kv : heap.cells)
      if (kv.second.v.kind == HVal::REF && kv.second.v.ref.k == RefVal::Obj && objs.count((long)kv.second.v.ref.obj))
        redefined_with_live_alias.insert(rgn);
  }
  // called after the counted (re-)definition: remember which object is the counted one
  void after_counted_redefinition(const var_t &v, const var_t &rgn) {
    auto ci = shadow_count.find(rgn);
    if (ci == shadow_count.end() || ci->second.k != 1 || !(ci->second.v[0] == v))
      return;
    RefVal now = heap.ref(v);
    ci->second.obj = now.k == RefVal::Obj ? (long)now.obj : -1;
  }

  RefVal use_ref(const var_t &v) {
    RefVal r = heap.ref(v);
    if (r.k == RefVal::Uninit)
      out("use of an uninitialised reference");
    return r;
  }
  // the cell a dereference goes to
  CellKey deref(const var_t &ref, const var_t &rgn, const char *what) {
    RefVal r = use_ref(ref);
    if (r.k == RefVal::Null)
      out(std::string(what) + " through a null reference");
    if (r.k == RefVal::Wild)
      out(std::string(what) + " through an int_to_ref address");
    if (r.from_int)
      out(std::string(what) + " through an int_to_ref address");
    if (heap.objs[r.obj].freed)
      out(std::string(what) + " through a reference to a freed object");
    if (typing) {
      auto h = typing->home.find(ref);
      if (h == typing->home.end() || !(h->second == rgn))
        out("reference used with a region that is not its home region");
    }
    return CellKey{rgn, r.obj, r.off};
  }
  static bool type_matches(const HVal &v, const crab::variable_type &ty) {
    if (v.kind == HVal::INT)
      return ty.is_integer() && ty.get_integer_bitwidth() == v.width;
    if (v.kind == HVal::BOOL)
      return ty.is_bool();
    return ty.is_reference();
  }
  static bool region_accepts(const var_t &rgn, const HVal &v) {
    auto ty = rgn.get_type();
    if (ty.is_unknown_region())
      return true;
    if (v.kind == HVal::INT)
      return ty.is_integer_region() && ty.get_integer_region_bitwidth() == v.width;
    if (v.kind == HVal::BOOL)
      return ty.is_bool_region();
    return ty.is_reference_region();
  }
  // model precondition of region_copy / region_cast
  void require_no_live_ref_into(const var_t &dst) {
    if (!typing)
      return;
    for (auto &kv : heap.refs) {
      if (kv.second.k != RefVal::Obj && kv.second.k != RefVal::Wild)
        continue;
      auto h = typing->home.find(kv.first);
      if (h != typing->home.end() && h->second == dst)
        out("region_copy/cast into a region with live references");
    }
    for (auto &kv : heap.cells) {
      if (kv.second.v.kind != HVal::REF || kv.second.v.ref.k == RefVal::Null)
        continue;
      auto p = typing->pointee.find(kv.first.rgn);
      if (p != typing->pointee.end() && p->second == dst)
        out("region_copy/cast into a region with live stored references");
    }
  }
  void drop_region(const var_t &rgn) {
    for (auto it = heap.cells.begin(); it != heap.cells.end();)
      it = (it->first.rgn == rgn) ? heap.cells.erase(it) : std::next(it);
    for (auto it = heap.tags.begin(); it != heap.tags.end();)
      it = (it->first.rgn == rgn) ? heap.tags.erase(it) : std::next(it);
  }
  void copy_region(const var_t &dst, const var_t &src) {
    require_no_live_ref_into(dst);
    std::vector<std::pair<CellKey, HCell>> cs;
    std::vector<std::pair<CellKey, std::set<uint64_t>>> ts;
    for (auto &kv : heap.cells)
      if (kv.first.rgn == src) {
        if (!region_accepts(dst, kv.second.v))
          out("region_cast of a cell whose value does not have the destination's type");
        cs.push_back({CellKey{dst, kv.first.obj, kv.first.off}, kv.second});
      }
    for (auto &kv : heap.tags)
      if (kv.first.rgn == src)
        ts.push_back({CellKey{dst, kv.first.obj, kv.first.off}, kv.second});
    drop_region(dst);
    for (auto &c : cs)
      heap.cells.insert(c);
    for (auto &c : ts)
      heap.tags.insert(c);
  }

  // 1 true, 0 false; leaves the model when the comparison is undefined
  bool eval_ref_cst(const ref_cst_t &c) {
    if (c.is_tautology())
      return true;
    if (c.is_contradiction())
      return false;
    enum { EQ, NE, LE, LT, GE, GT } k = c.is_equality() ? EQ : c.is_disequality() ? NE : c.is_less_or_equal_than() ? LE : c.is_less_than() ? LT : c.is_greater_or_equal_than() ? GE : GT;
    auto cmp = [&](const z_number &a, const z_number &b) {
      switch (k) {
      case EQ: return a == b;
      case NE: return a != b;
      case LE: return a <= b;
      case LT: return a < b;
      case GE: return a >= b;
      default: return a > b;
      }
    };
    RefVal p = use_ref(c.lhs());
    if (c.is_unary()) {
      if (p.k == RefVal::Wild) {
        // an int_to_ref result: only (dis)equality with null is meaningful
        if (k == EQ) return false;
        if (k == NE) return true;
        out("ordering of an int_to_ref address against null");
      }
      // every object address is > null
      if (p.k == RefVal::Null)
        unary_cst_on_null++;
      return cmp(z_number((int64_t)(p.k == RefVal::Null ? 0 : 1)), z_number(0));
    }
    RefVal q = use_ref(c.rhs());
    z_number off = c.offset();
    if (p.k == RefVal::Wild || q.k == RefVal::Wild)
      out("comparison involving an int_to_ref address");
    if (p.k == RefVal::Null || q.k == RefVal::Null) {
      if (off != 0)
        out("comparison with null plus offset");
      if (k == EQ || k == NE) {
        bool eq = p.k == q.k;
        return k == EQ ? eq : !eq;
      }
      if (p.k == RefVal::Null && q.k == RefVal::Null)
        return cmp(z_number(0), z_number(0));
      out("ordering between null and an object address");
    }
    if (p.obj != q.obj) {
      if (k == EQ) return false;
      if (k == NE) return true;
      out("ordering of references into different objects");
    }
    return cmp(p.off, q.off + off);
  }

public:
  // ---- region / reference statements -----------------------------------------------
  void copy_count(const var_t &dst, const var_t &src) {
    auto it = shadow_count.find(src);
    if (it == shadow_count.end())
      shadow_count.erase(dst);
    else {
      Cnt c = it->second;
      shadow_count[dst] = c;
    }
    if (redefined_with_live_alias.count(src))
      redefined_with_live_alias.insert(dst);
  }
  void visit(region_init_t &s) override {
    drop_region(s.region());
    Cnt z;
    z.k = 0;
    shadow_count[s.region()] = z;
  }
  void visit(region_copy_t &s) override {
    copy_region(s.lhs_region(), s.rhs_region());
    copy_count(s.lhs_region(), s.rhs_region());
    if (s.lhs_region().get_type().is_bool_region())
      def_bool(s.lhs_region(), links_of(s.rhs_region()));
  }
  void visit(region_cast_t &s) override {
    // classifier of a known finding: region_cast relates the summary variables of the two regions
    // with an assignment even when the source region is not a singleton (region_copy uses
    // expand then); with a relational base domain two weak reads then look equal
    if (heap.cells_in(s.src()) >= 2) {
      cast_of_multi_cell_region.insert(s.src());
      cast_of_multi_cell_region.insert(s.dst());
    }
    copy_region(s.dst(), s.src());
    copy_count(s.dst(), s.src());
    def_bool(s.dst(), links_of(s.src()));
  }
  void visit(make_ref_t &s) override {
    HObject o;
    o.site = (size_t)s.alloc_site().index();
    o.make_stmt = &s;
    o.size = s.size().is_constant() ? s.size().get_constant() : get(s.size().get_variable());
    heap.objs.push_back(o);
    note_counted_redefinition(s.lhs(), s.region());
    RefVal r;
    r.stale = heap.ref(s.lhs()).k != RefVal::Uninit;
    r.k = RefVal::Obj;
    r.obj = (unsigned)heap.objs.size() - 1;
    r.off = z_number(0);
    heap.refs[s.lhs()] = r;
    after_counted_redefinition(s.lhs(), s.region());
    made_by[&s].push_back(r.obj);
  }
  void visit(remove_ref_t &s) override {
    RefVal r = use_ref(s.ref());
    if (r.k == RefVal::Null)
      return; // free(null)
    if (r.k != RefVal::Obj || r.off != 0)
      out("remove_ref of something that is not the base address of an object");
    if (heap.objs[r.obj].freed)
      out("double remove_ref");
    heap.objs[r.obj].freed = true;
  }
  void visit(load_from_ref_t &s) override {
    CellKey k = deref(s.ref(), s.region(), "load");
    auto it = heap.cells.find(k);
    if (it == heap.cells.end())
      out("load of a never-written cell");
    const HVal &v = it->second.v;
    if (!type_matches(v, s.lhs().get_type()))
      out("load of a cell holding a value of another type");
    // classes of the non-triviality rule
    loads++;
    if (heap.cells_in(s.region()) >= 2)
      nt_multi_cell++;
    if (it->second.have_store_ref && !(it->second.store_ref == s.ref()))
      nt_alias_store++;
    for (auto &mk : made_by) {
      if (mk.second.size() < 2)
        continue;
      bool older_alive = false;
      for (auto &rv : heap.refs)
        if (rv.second.k == RefVal::Obj)
          for (size_t i = 0; i + 1 < mk.second.size(); i++)
            if (mk.second[i] == rv.second.obj)
              older_alive = true;
      if (older_alive) {
        nt_remake++;
        break;
      }
    }
    if (v.kind == HVal::REF) {
      ref_loads++;
      heap.refs[s.lhs()] = v.ref;
      if (redefined_with_live_alias.count(s.region()))
        heap.refs[s.lhs()].from_miscounted_region = true;
    } else {
      S->num[s.lhs()] = v.num;
      if (v.kind == HVal::BOOL)
        def_bool(s.lhs(), links_of(s.region()));
    }
  }
  void visit(store_to_ref_t &s) override {
    CellKey k = deref(s.ref(), s.region(), "store");
    HVal v;
    auto ty = s.val().get_type();
    if (ty.is_bool()) {
      v.kind = HVal::BOOL;
      v.num = s.val().is_constant() ? s.val().get_constant() : get(s.val().get_variable());
    } else if (ty.is_integer()) {
      v.kind = HVal::INT;
      v.width = ty.get_integer_bitwidth();
      v.num = s.val().is_constant() ? s.val().get_constant() : get(s.val().get_variable());
    } else if (ty.is_reference()) {
      v.kind = HVal::REF;
      if (s.val().is_constant())
        v.ref.k = RefVal::Null;
      else
        v.ref = use_ref(s.val().get_variable());
    } else
      out("store of a value of unsupported type");
    if (!region_accepts(s.region(), v))
      out("store of a value that does not have the region's type");
    heap.cells.erase(k);
    heap.cells.emplace(k, HCell(v, s.ref()));
    heap.tags.erase(k);
    if (v.kind == HVal::BOOL)
      def_bool(s.region(), s.val().is_variable() ? links_of(s.val().get_variable()) : std::set<var_t>());
  }
  void visit(gep_ref_t &s) override {
    RefVal r = use_ref(s.rhs());
    z_number k = eval(s.offset());
    if (r.k == RefVal::Null) {
      if (k != 0)
        out("gep_ref with a non-zero offset from null");
    } else if (r.k == RefVal::Wild) {
      r.addr = r.addr + k;
      if (r.addr == 0)
        out("gep_ref of an int_to_ref address reaching 0");
    } else {
      r.off = r.off + k;
      if (r.off > 4096 || r.off < -4096)
        out("gep_ref offset beyond +-4096");
    }
    bool counted = !(s.lhs_region() == s.rhs_region()) || k != 0;
    if (counted)
      note_counted_redefinition(s.lhs(), s.lhs_region());
    heap.refs[s.lhs()] = r;
    if (counted)
      after_counted_redefinition(s.lhs(), s.lhs_region());
  }
  void visit(assume_ref_t &s) override {
    bool h = eval_ref_cst(s.constraint());
    if (obs)
      obs->condition(*C, s, h, *S);
    if (!h)
      throw HeapEnd{Stop::Blocked, ""};
  }
  void visit(assert_ref_t &s) override {
    bool h = eval_ref_cst(s.constraint());
    if (obs) {
      obs->assertion(*C, s, h, *S);
      obs->condition(*C, s, h, *S);
    }
    if (!h)
      throw HeapEnd{Stop::AssertFailed, ""};
  }
  void visit(select_ref_t &s) override {
    bool c = get(s.cond()) != 0;
    const var_or_cst_t &op = c ? s.left_ref() : s.right_ref();
    RefVal r;
    if (op.is_constant())
      r.k = RefVal::Null;
    else
      r = use_ref(op.get_variable());
    bool counted = false;
    {
      boost::optional<var_t> org = c ? s.left_rgn() : s.right_rgn();
      counted = org && !(*org == s.lhs_rgn());
      if (counted)
        note_counted_redefinition(s.lhs_ref(), s.lhs_rgn());
    }
    heap.refs[s.lhs_ref()] = r;
    if (counted)
      after_counted_redefinition(s.lhs_ref(), s.lhs_rgn());
  }
  void visit(ref_to_int_t &s) override {
    RefVal r = use_ref(s.ref_var());
    S->num[s.int_var()] = address(r);
    if (r.stale)
      stale_scalars.insert(s.int_var());
  }
  // scalars computed from the address of a stale reference (same known finding)
  std::set<var_t> stale_scalars;
  bool any_stale() const {
    for (auto &kv : heap.refs)
      if (kv.second.stale)
        return true;
    for (auto &kv : heap.cells)
      if (kv.second.v.kind == HVal::REF && kv.second.v.ref.stale)
        return true;
    return !stale_scalars.empty();
  }
  void visit(int_to_ref_t &s) override {
    z_number v = get(s.int_var());
    RefVal r;
    if (v == 0)
      r.k = RefVal::Null;
    else {
      r.k = RefVal::Wild;
      r.addr = v;
      // round trip: the address of a cell of an existing object
      z_number unit((int64_t)65536);
      z_number q = (v + z_number((int64_t)32768)) / unit; // nearest multiple of 65536
      z_number off = v - q * unit;
      if (v > 0 && q >= 1 && q <= z_number((int64_t)heap.objs.size()) && off >= -4096 && off <= 4096) {
        r.k = RefVal::Obj;
        r.obj = (unsigned)(int64_t)(q - 1);
        r.off = off;
        r.from_int = true;
      }
    }
    note_counted_redefinition(s.ref_var(), s.region());
    heap.refs[s.ref_var()] = r;
    after_counted_redefinition(s.ref_var(), s.region());
  }
  void visit(bool_assign_var_t &s) override {
    Interp::visit(s);
    if (s.is_rhs_negated() && bool_has_cst.count(s.lhs()) && !bool_has_cst.count(s.rhs()))
      stale_negated_copy = true;
    if (bool_has_cst.count(s.rhs()))
      bool_has_cst.insert(s.lhs());
    else if (!s.is_rhs_negated())
      bool_has_cst.erase(s.lhs());
    def_bool(s.lhs(), s.is_rhs_negated() ? std::set<var_t>() : links_of(s.rhs()));
  }
  void visit(bool_bin_op_t &s) override {
    Interp::visit(s);
    if (s.op() == crab::cfg::BINOP_BAND && (bool_has_cst.count(s.left()) || bool_has_cst.count(s.right())))
      bool_has_cst.insert(s.lhs());
    else
      bool_has_cst.erase(s.lhs());
    std::set<var_t> l = links_of(s.left()), r = links_of(s.right());
    l.insert(r.begin(), r.end());
    def_bool(s.lhs(), l);
  }
  void visit(bool_select_t &s) override {
    Interp::visit(s);
    if (bool_has_cst.count(s.cond()) || bool_has_cst.count(s.left()) || bool_has_cst.count(s.right()))
      bool_has_cst.insert(s.lhs());
    else
      bool_has_cst.erase(s.lhs());
    std::set<var_t> l = links_of(s.cond()), a = links_of(s.left()), b = links_of(s.right());
    l.insert(a.begin(), a.end());
    l.insert(b.begin(), b.end());
    def_bool(s.lhs(), l);
  }
  void visit(int_cast_t &s) override {
    Interp::visit(s);
    if (s.dst().get_type().is_bool()) {
      def_bool(s.dst(), {});
      bool_has_cst.erase(s.dst());
    }
  }
  void visit(bool_assign_cst_t &s) override {
    def_bool(s.lhs(), {});
    bool_has_cst.insert(s.lhs());
    if (s.is_rhs_linear_constraint()) {
      Interp::visit(s);
      return;
    }
    S->num[s.lhs()] = z_number((int64_t)eval_ref_cst(s.rhs_as_reference_constraint()));
    for (auto &v : s.rhs_as_reference_constraint().variables())
      if (heap.ref(v).stale)
        stale_scalars.insert(s.lhs());
  }
  void visit(havoc_t &s) override {
    auto ty = s.get_variable().get_type();
    if (ty.is_reference() || ty.is_region())
      out("havoc of region/reference");
    if (ty.is_bool()) {
      def_bool(s.get_variable(), {});
      bool_has_cst.erase(s.get_variable());
    }
    Interp::visit(s);
  }
  void visit(intrinsic_t &s) override {
    auto &args = s.get_args();
    if (s.get_intrinsic_name() == "nonnull" && args.size() == 1 && args[0].is_variable()) {
      // "ensures that the reference is not null": an assume
      RefVal r = use_ref(args[0].get_variable());
      if (r.k == RefVal::Null)
        throw HeapEnd{Stop::Blocked, ""};
      return;
    }
    if (s.get_intrinsic_name() != "add_tag")
      return;
    if (args.size() != 3 || !args[0].is_variable() || !args[1].is_variable() || !args[2].is_constant())
      return;
    RefVal r = heap.ref(args[1].get_variable());
    if (r.k != RefVal::Obj)
      return; // nothing the model can attach the tag to
    z_number tg = args[2].get_constant();
    CellKey k{args[0].get_variable(), r.obj, r.off};
    // the content of a never-written cell is outside the model, and so is a tag on it (the domain
    // strongly updates -- and thereby resets the tags of -- a region nobody stored to yet, even
    // when it has several references)
    if (!heap.cells.count(k))
      return;
    heap.tags[k].insert((uint64_t)(int64_t)tg);
  }
};

} // namespace vp
