// Generator of CrabIR programs over regions and references (property C15).
// Composes vp::Gen (numeric / boolean statements, constants, constraints) and adds
// its own CFG shapes (copied from vp::Gen, whose shape methods call a non-virtual
// stmt()) plus the region/reference statements.  Every choice comes from the tape;
// 0 bytes decode to the simplest alternative.
//
// Discipline (DESIGN.md 2.3): every reference variable has one home region and is
// only ever used with it; region types match the stored scalar type
// (type_checker.hpp: check_region_consistent_with_data); region_init of every region
// happens once, in a dedicated entry block without predecessors.
#pragma once
#include "gen.hpp"
#include "heap.hpp"

namespace vp {

struct RgnDecl {
  var_t v;
  enum K { INT, BOOL, REF, UNK } kind;
  int pointee; // REF / UNK regions: index of the region the references stored in them point into
  K pref;      // UNK regions: the kind of scalar mostly stored in them
  // filled in the entry block by region_copy (region_cast for UNK) from region `from`; its
  // references are then derived from the references of `from` by gep_ref
  bool filled_by_copy = false;
  int from = -1;
};
struct RefDecl {
  var_t v;
  unsigned home;
};

struct RgnProgram : public Program {
  std::vector<RgnDecl> rgns;
  std::vector<RefDecl> refs;
  HeapTyping typing;
  crab::tag_manager as_man;
  unsigned n_make_ref = 0, n_loads = 0, n_stores = 0;
  std::vector<var_t> ref_vars() const {
    std::vector<var_t> r;
    for (auto &d : refs)
      r.push_back(d.v);
    return r;
  }
};

struct RgnGenOpts {
  bool dealloc = false; // region.deallocation is on: generate remove_ref more often
  bool tags = true;     // generate add_tag
  bool unknown_regions = true;
};

class GenRgn {
public:
  verif::Tape &t;
  GenOpts o;
  RgnGenOpts ro;
  RgnProgram &p;
  Gen g; // numeric / boolean statements
  unsigned blocks_left;
  unsigned next_label = 0;
  std::vector<unsigned> good_refs; // references initialised in the entry block (dominates everything)
  std::vector<unsigned> maybe_null; // references that were the lhs of something that may yield null

  GenRgn(verif::Tape &tape, const GenOpts &opts, const RgnGenOpts &ropts, RgnProgram &prog)
      : t(tape), o(opts), ro(ropts), p(prog), g(tape, opts, prog), blocks_left(opts.max_blocks) {}

  // ---- declarations -------------------------------------------------------------------
  void declare() {
    g.declare_vars(); // ints (+wides) (+bools when CAP_BOOL)
    auto &vf = *p.vfac;
    if (p.bools.empty()) {
      // select_ref needs a boolean condition in every variant
      unsigned nb = 1 + t.pick(2);
      for (unsigned i = 0; i < nb; i++)
        p.bools.push_back(var_t(vf["p" + std::to_string(i)], crab::BOOL_TYPE, 1));
    }
    unsigned nr = 1 + t.pick(3);
    for (unsigned i = 0; i < nr; i++) {
      RgnDecl::K k = RgnDecl::INT;
      if (i > 0) {
        unsigned c = t.pick(6); // int, int, int(shadow of region 0), bool, ref, ref
        k = c <= 2 ? RgnDecl::INT : c == 3 ? RgnDecl::BOOL : RgnDecl::REF;
      }
      add_region(k, i);
    }
    if (t.pick(3) == 2) {
      // shadow of region 0: target of a region_copy in the entry block
      add_region(RgnDecl::INT, (unsigned)p.rgns.size());
      p.rgns.back().filled_by_copy = true;
      p.rgns.back().from = 0;
    }
    if (ro.unknown_regions && t.pick(5) == 4) {
      add_region(RgnDecl::UNK, (unsigned)p.rgns.size());
      if (t.flag()) {
        // filled by region_cast from a typed region
        RgnDecl &u = p.rgns.back();
        u.filled_by_copy = true;
        u.from = (int)t.pick((unsigned)p.rgns.size() - 1);
        if (p.rgns[(unsigned)u.from].filled_by_copy)
          u.from = 0;
      }
    }
    for (auto &r : p.rgns)
      if (r.kind == RgnDecl::REF || r.kind == RgnDecl::UNK) {
        // pointee: a non-reference, typed region (region 0 always qualifies)
        std::vector<int> c;
        for (unsigned j = 0; j < p.rgns.size(); j++)
          if (p.rgns[j].kind == RgnDecl::INT || p.rgns[j].kind == RgnDecl::BOOL)
            c.push_back((int)j);
        r.pointee = c[t.pick((unsigned)c.size())];
        p.typing.pointee.emplace(r.v, p.rgns[r.pointee].v);
        unsigned pk = t.pick(4);
        r.pref = r.kind == RgnDecl::REF ? RgnDecl::REF : pk <= 1 ? RgnDecl::INT : pk == 2 ? RgnDecl::BOOL : RgnDecl::REF;
        if (r.kind == RgnDecl::UNK && r.filled_by_copy)
          r.pref = p.rgns[(unsigned)r.from].kind;
      }
    unsigned nrefs = 2 + t.pick(4);
    for (unsigned i = 0; i < nrefs; i++) {
      unsigned home = i == 0 ? 0 : t.pick((unsigned)p.rgns.size());
      // a region filled by copy gets at least one reference
      if (i >= 1)
        for (unsigned j = 0; j < p.rgns.size(); j++)
          if (p.rgns[j].filled_by_copy && ref_with_home(j, -1) < 0 && nrefs - i <= 2)
            home = j;
      p.refs.push_back(RefDecl{var_t(vf["r" + std::to_string(i)], crab::REF_TYPE), home});
      p.typing.home.emplace(p.refs.back().v, p.rgns[home].v);
    }
  }
  void add_region(RgnDecl::K k, unsigned i) {
    auto &vf = *p.vfac;
    std::string n = "M" + std::to_string(i);
    switch (k) {
    case RgnDecl::INT: p.rgns.push_back(RgnDecl{var_t(vf[n], crab::REG_INT_TYPE, o.int_width), k, -1, k}); break;
    case RgnDecl::BOOL: p.rgns.push_back(RgnDecl{var_t(vf[n], crab::REG_BOOL_TYPE, 1), k, -1, k}); break;
    case RgnDecl::REF: p.rgns.push_back(RgnDecl{var_t(vf[n], crab::REG_REF_TYPE, 32), k, -1, k}); break;
    default: p.rgns.push_back(RgnDecl{var_t(vf[n], crab::REG_UNKNOWN_TYPE, 32), k, -1, k}); break;
    }
  }

  // ---- helpers ----------------------------------------------------------------------------
  unsigned any_ref() { return t.pick((unsigned)p.refs.size()); }
  // a reference that the entry block initialised (mostly), else any
  unsigned use_ref() {
    if (!good_refs.empty() && t.pick(16) != 15) {
      // references that may be null are mostly kept for constraints, guards and selects
      std::vector<unsigned> sure;
      for (unsigned r : good_refs)
        if (std::find(maybe_null.begin(), maybe_null.end(), r) == maybe_null.end())
          sure.push_back(r);
      if (!sure.empty() && t.pick(8) != 7)
        return sure[t.pick((unsigned)sure.size())];
      return good_refs[t.pick((unsigned)good_refs.size())];
    }
    return any_ref();
  }
  // another reference with the given home region (or -1)
  int ref_with_home(unsigned home, int except, bool good_only = false) {
    std::vector<int> c;
    for (unsigned i = 0; i < p.refs.size(); i++)
      if (p.refs[i].home == home && (int)i != except && (!good_only || is_good(i)))
        c.push_back((int)i);
    if (c.empty())
      return -1;
    return c[t.pick((unsigned)c.size())];
  }
  bool is_good(unsigned i) const { return std::find(good_refs.begin(), good_refs.end(), i) != good_refs.end(); }
  int ref_with_other_home(unsigned home) {
    std::vector<int> c;
    for (unsigned i = 0; i < p.refs.size(); i++)
      if (p.refs[i].home != home)
        c.push_back((int)i);
    if (c.empty())
      return -1;
    return c[t.pick((unsigned)c.size())];
  }
  const var_t &rv(unsigned i) { return p.refs[i].v; }
  const var_t &home(unsigned i) { return p.rgns[p.refs[i].home].v; }
  const RgnDecl &homed(unsigned i) { return p.rgns[p.refs[i].home]; }
  var_or_cst_t int_const() { return var_or_cst_t(g.cnst(), crab::variable_type(crab::INT_TYPE, o.int_width)); }
  var_or_cst_t size_operand() {
    static const int64_t sz[] = {4, 8, 16, 1, 40};
    if (t.pick(4) == 3)
      return var_or_cst_t(g.ivar());
    return var_or_cst_t(z_number(sz[t.pick(5)]), crab::variable_type(crab::INT_TYPE, o.int_width));
  }
  lin_t gep_offset(bool nonzero, block_t *blk = nullptr) {
    static const int64_t offs[] = {4, 8, -4, 12, 1, 16};
    unsigned k = t.pick(8);
    if (!nonzero && k == 0)
      return lin_t(z_number(0));
    if (k == 6)
      return lin_t(g.ivar()); // symbolic offset
    if (k == 7) {
      // a*i + c with a constant term as well (the variable is often exactly 0: the offset is
      // then non-zero only through c)
      static const int64_t cs[] = {0, 4, 8, -4};
      var_t iv = g.ivar();
      // (tail choice) straight-line initialisation code: `i := 0; q := &p[i + 1]`
      if (blk && (t.tail_u8() & 1))
        blk->assign(iv, lin_t(z_number(0)));
      return lin_t(z_number(4), iv) + lin_t(z_number(cs[t.pick(4)]));
    }
    return lin_t(z_number(offs[k % 6]));
  }
  // the scalar kind stored in region r (unknown regions: decoded)
  RgnDecl::K content_kind(const RgnDecl &r) {
    if (r.kind != RgnDecl::UNK)
      return r.kind;
    if (t.pick(8) != 7)
      return r.pref;
    unsigned c = t.pick(3);
    return c == 0 ? RgnDecl::INT : c == 1 ? RgnDecl::BOOL : RgnDecl::REF;
  }
  // references whose home is the pointee region of the region rr
  int storable_ref(const RgnDecl &rr) {
    std::vector<int> c;
    for (unsigned i = 0; i < p.refs.size(); i++)
      if ((int)p.refs[i].home == rr.pointee && is_good(i))
        c.push_back((int)i);
    if (c.empty())
      return -1;
    return c[t.pick((unsigned)c.size())];
  }

  void store(block_t &b, unsigned ri) {
    const RgnDecl &r = homed(ri);
    p.n_stores++;
    switch (content_kind(r)) {
    case RgnDecl::INT:
      if (t.pick(3) == 0)
        b.store_to_ref(rv(ri), r.v, int_const());
      else
        b.store_to_ref(rv(ri), r.v, var_or_cst_t(g.ivar()));
      break;
    case RgnDecl::BOOL: {
      unsigned c = t.pick(3);
      if (c == 0)
        b.store_to_ref(rv(ri), r.v, var_or_cst_t::make_bool_true());
      else if (c == 1)
        b.store_to_ref(rv(ri), r.v, var_or_cst_t::make_bool_false());
      else
        b.store_to_ref(rv(ri), r.v, var_or_cst_t(g.bvar()));
      break;
    }
    default: {
      int s = storable_ref(r);
      if (s < 0 || t.pick(4) == 3)
        b.store_to_ref(rv(ri), r.v, var_or_cst_t::make_reference_null());
      else
        b.store_to_ref(rv(ri), r.v, var_or_cst_t(rv((unsigned)s)));
      break;
    }
    }
  }
  int loadable_ref(const RgnDecl &rr) {
    std::vector<int> c;
    for (unsigned i = 0; i < p.refs.size(); i++)
      if ((int)p.refs[i].home == rr.pointee)
        c.push_back((int)i);
    if (c.empty())
      return -1;
    return c[t.pick((unsigned)c.size())];
  }
  // store through ri, then (often) read a cell of the same region through another reference
  void store_then_check(block_t &b, unsigned ri) {
    store(b, ri);
    if (t.pick(2) == 0) {
      int q = ref_with_home(p.refs[ri].home, (int)ri, true);
      load(b, q >= 0 ? (unsigned)q : ri);
    }
  }
  void load(block_t &b, unsigned ri) {
    const RgnDecl &r = homed(ri);
    p.n_loads++;
    switch (content_kind(r)) {
    case RgnDecl::INT: b.load_from_ref(g.ivar(), rv(ri), r.v); break;
    case RgnDecl::BOOL: b.load_from_ref(g.bvar(), rv(ri), r.v); break;
    default: {
      int s = loadable_ref(r);
      if (s < 0 || s == (int)ri) {
        if (r.kind == RgnDecl::UNK)
          b.load_from_ref(g.ivar(), rv(ri), r.v); // fall back to an integer load
        else
          b.store_to_ref(rv(ri), r.v, var_or_cst_t::make_reference_null());
      } else {
        b.load_from_ref(rv((unsigned)s), rv(ri), r.v);
        maybe_null.push_back((unsigned)s);
      }
      break;
    }
    }
  }
  void add_tag(block_t &b, unsigned a) {
    b.intrinsic("add_tag", {}, {var_or_cst_t(home(a)), var_or_cst_t(rv(a)), var_or_cst_t(z_number((int64_t)(1 + t.pick(4))), crab::variable_type(crab::INT_TYPE, o.int_width))});
  }
  void make_ref(block_t &b, unsigned ri, bool then_store) {
    b.make_ref(rv(ri), home(ri), size_operand(), p.as_man.mk_tag());
    p.n_make_ref++;
    if (then_store)
      store(b, ri);
  }
  ref_cst_t ref_constraint() {
    unsigned a = use_ref();
    unsigned k = t.pick(12);
    if (k <= 3 && !maybe_null.empty() && t.pick(8) != 7) {
      unsigned c = maybe_null[t.pick((unsigned)maybe_null.size())];
      if (is_good(c)) // initialised on every path
        a = c;
    }
    switch (k) {
    case 0: return ref_cst_t::mk_null(rv(a));
    case 1: return ref_cst_t::mk_not_null(rv(a));
    case 2: return ref_cst_t::mk_gt_null(rv(a));
    case 3: return ref_cst_t::mk_le_null(rv(a));
    default: break;
    }
    // binary: prefer a partner in the same region (same object is then possible)
    int bq = ref_with_home(p.refs[a].home, (int)a, true);
    if (bq < 0 || (k < 9 && t.pick(4) == 3))
      bq = (int)use_ref();
    static const int64_t offs[] = {0, 0, 0, 4, -4, 8};
    z_number off(offs[t.pick(6)]);
    switch (k) {
    case 4:
    case 5:
    case 6: return ref_cst_t::mk_eq(rv(a), rv((unsigned)bq), off);
    case 7:
    case 8: return ref_cst_t::mk_not_eq(rv(a), rv((unsigned)bq), off);
    case 9: return ref_cst_t::mk_lt(rv(a), rv((unsigned)bq), off);
    case 10: return ref_cst_t::mk_le(rv(a), rv((unsigned)bq), off);
    default: return ref_cst_t::mk_ge(rv(a), rv((unsigned)bq), off);
    }
  }

  // ---- region statements ---------------------------------------------------------------------
  void region_stmt(block_t &b) {
    static const int kinds[] = {0, 0, 0, 0, 0, 0, 1, 1, 1, 1, 2, 2, 2, 3, 3, 4, 4, 5, 5, 6, 7, 8, 9, 10, 11, 12, 12, 13, 14, 15, 16, 16};
    int k = kinds[t.pick(sizeof(kinds) / sizeof(kinds[0]))];
    switch (k) {
    case 0: load(b, use_ref()); break;
    case 1: store_then_check(b, use_ref()); break;
    case 2: make_ref(b, any_ref(), t.pick(8) != 7); break;
    case 3: { // alias: offset 0 inside the region
      unsigned a = use_ref();
      int q = ref_with_home(p.refs[a].home, (int)a);
      if (q < 0) { load(b, a); break; }
      b.gep_ref(rv((unsigned)q), home((unsigned)q), rv(a), home(a), lin_t(z_number(0)));
      if (t.pick(3) == 0)
        store(b, (unsigned)q);
      break;
    }
    case 4: { // another cell of the same object, same region
      unsigned a = use_ref();
      int q = ref_with_home(p.refs[a].home, -1); // may be a itself: r := r + k
      lin_t off = gep_offset(t.pick(4) != 0, &b);
      b.gep_ref(rv((unsigned)q), home((unsigned)q), rv(a), home(a), off);
      if (t.pick(8) != 7)
        store(b, (unsigned)q);
      // (tail choice) read the old cell back right away
      if ((unsigned)q != a && (t.tail_u8() & 3) == 3)
        load(b, a);
      break;
    }
    case 5: { // same object seen through another region
      unsigned a = use_ref();
      int q = ref_with_other_home(p.refs[a].home);
      if (q < 0) { store(b, a); break; }
      b.gep_ref(rv((unsigned)q), home((unsigned)q), rv(a), home(a), gep_offset(false));
      if (t.pick(8) != 7)
        store(b, (unsigned)q);
      break;
    }
    case 6: { // select_ref, operands of any region, null arms
      unsigned l = any_ref();
      unsigned x = use_ref(), y = use_ref();
      unsigned m = t.pick(4);
      if (m >= 2)
        maybe_null.push_back(l);
      if (m == 2)
        b.select_ref_null_true_value(rv(l), home(l), g.bvar(), rv(y), home(y));
      else if (m == 3)
        b.select_ref_null_false_value(rv(l), home(l), g.bvar(), rv(x), home(x));
      else
        b.select_ref(rv(l), home(l), g.bvar(), rv(x), home(x), rv(y), home(y));
      break;
    }
    case 7: b.assume_ref(ref_constraint()); break;
    case 8:
      b.assert_ref(ref_constraint(), crab::cfg::debug_info("verif", 1, 1, o.first_assert_id + p.n_asserts));
      p.n_asserts++;
      break;
    case 9: { // region_copy between two regions of the same type
      unsigned s = t.pick((unsigned)p.rgns.size());
      std::vector<unsigned> c;
      for (unsigned j = 0; j < p.rgns.size(); j++)
        if (j != s && p.rgns[j].v.get_type() == p.rgns[s].v.get_type())
          c.push_back(j);
      if (c.empty()) { load(b, use_ref()); break; }
      unsigned d = c[t.pick((unsigned)c.size())];
      b.region_copy(p.rgns[d].v, p.rgns[s].v);
      break;
    }
    case 10: // remove_ref
      if (ro.dealloc || t.pick(4) == 0) {
        unsigned a = use_ref();
        b.remove_ref(home(a), rv(a));
      } else
        store(b, use_ref());
      break;
    case 11: { unsigned a = use_ref(); b.ref_to_int(home(a), rv(a), g.ivar()); break; }
    case 12: {
      unsigned m = t.pick(4);
      if (m == 0) { unsigned a = any_ref(); b.int_to_ref(g.ivar(), home(a), rv(a)); maybe_null.push_back(a); }
      else if (m <= 2) { // round trip through an integer
        unsigned q = use_ref(), a = any_ref();
        var_t i = g.ivar();
        b.ref_to_int(home(q), rv(q), i);
        if (t.pick(3) == 0)
          b.add(i, i, z_number(4));
        b.int_to_ref(i, home(a), rv(a));
      } else load(b, use_ref());
      break;
    }
    case 13: { // region_cast through the unknown region
      int u = -1;
      for (unsigned j = 0; j < p.rgns.size(); j++)
        if (p.rgns[j].kind == RgnDecl::UNK)
          u = (int)j;
      if (u < 0) { store(b, use_ref()); break; }
      std::vector<unsigned> c;
      for (unsigned j = 0; j < p.rgns.size(); j++)
        if ((int)j != u)
          c.push_back(j);
      unsigned ty = c[t.pick((unsigned)c.size())];
      if (t.flag())
        b.region_cast(p.rgns[ty].v, p.rgns[(unsigned)u].v);
      else
        b.region_cast(p.rgns[(unsigned)u].v, p.rgns[ty].v);
      break;
    }
    case 14:
      if (ro.tags)
        add_tag(b, use_ref());
      else
        load(b, use_ref());
      break;
    case 15: b.bool_assign(g.bvar(), ref_constraint()); break;
    default: { // scenario: keep an alias of the current object, re-make the reference, store through both
      unsigned a = use_ref();
      int q = ref_with_home(p.refs[a].home, (int)a);
      if (q >= 0)
        b.gep_ref(rv((unsigned)q), home((unsigned)q), rv(a), home(a), lin_t(z_number(0)));
      make_ref(b, a, true);
      if (q >= 0 && t.flag())
        store(b, (unsigned)q);
      if (t.flag())
        load(b, a);
      break;
    }
    }
  }

  void stmt(block_t &b) {
    if (t.pick(8) < 5)
      region_stmt(b);
    else
      g.stmt(b);
  }

  // ---- blocks and shapes (as vp::Gen, with stmt() above) ------------------------------------------
  block_t &new_block(bool with_stmts = true) {
    label_t l = o.label_prefix + "b" + std::to_string(next_label++);
    block_t &b = p.cfg->insert(l);
    p.labels.push_back(l);
    if (blocks_left > 0)
      blocks_left--;
    if (with_stmts) {
      unsigned n = t.pick(o.max_stmts_per_block + 1);
      for (unsigned i = 0; i < n; i++)
        stmt(b);
    }
    return b;
  }

  void guards(block_t &gt, block_t &ge) {
    unsigned mode = t.pick(10);
    if (mode == 7)
      return; // non-deterministic branch
    if (mode == 6) {
      var_t c = g.bvar();
      gt.bool_assume(c);
      ge.bool_not_assume(c);
      return;
    }
    if (mode == 8) { // reference guard, direct
      ref_cst_t c = ref_constraint();
      gt.assume_ref(c);
      ge.assume_ref(c.negate());
      return;
    }
    if (mode == 9) { // null test in the form the numerical domains can represent (p > null / p <= null)
      unsigned a = use_ref();
      if (!maybe_null.empty() && is_good(maybe_null.back()))
        a = maybe_null.back();
      ref_cst_t c = ref_cst_t::mk_gt_null(rv(a));
      gt.assume_ref(c);
      ge.assume_ref(c.negate());
      return;
    }
    cst_t c = g.remember(g.constraint());
    gt.assume(c);
    if (mode == 5)
      ge.assume(g.constraint());
    else
      ge.assume(c.negate());
  }
  // reference guard through a boolean (the interpreter's look-ahead understands bool_assume)
  bool maybe_bool_ref_guard(block_t &cond_block, block_t &gt, block_t &ge) {
    if (t.pick(6) != 5)
      return false;
    var_t c = g.bvar();
    cond_block.bool_assign(c, ref_constraint());
    gt.bool_assume(c);
    ge.bool_not_assume(c);
    return true;
  }

  struct Reg { label_t first, last; };

  Reg region(unsigned depth) {
    unsigned kind = (blocks_left < 3 || depth > 3) ? 0 : t.pick(6);
    switch (kind) {
    case 0:
    case 1: {
      block_t &b = new_block();
      Reg r{b.label(), b.label()};
      if (kind == 1 && blocks_left > 0) {
        Reg r2 = region(depth + 1);
        p.cfg->get_node(r.last) >> p.cfg->get_node(r2.first);
        r.last = r2.last;
      }
      return r;
    }
    case 2:
    case 3: {
      p.n_ifs++;
      block_t &c = new_block();
      label_t cl = c.label();
      block_t &gt = new_block(false);
      block_t &ge = new_block(false);
      label_t gtl = gt.label(), gel = ge.label();
      if (!maybe_bool_ref_guard(p.cfg->get_node(cl), gt, ge))
        guards(gt, ge);
      bool swap = t.flag();
      if (swap) { p.cfg->get_node(cl) >> p.cfg->get_node(gel); p.cfg->get_node(cl) >> p.cfg->get_node(gtl); }
      else { p.cfg->get_node(cl) >> p.cfg->get_node(gtl); p.cfg->get_node(cl) >> p.cfg->get_node(gel); }
      Reg rt = region(depth + 1);
      p.cfg->get_node(gtl) >> p.cfg->get_node(rt.first);
      label_t elast = gel;
      if (blocks_left > 1 && t.flag()) {
        Reg re = region(depth + 1);
        p.cfg->get_node(gel) >> p.cfg->get_node(re.first);
        elast = re.last;
      }
      block_t &j = new_block();
      label_t jl = j.label();
      p.cfg->get_node(rt.last) >> p.cfg->get_node(jl);
      p.cfg->get_node(elast) >> p.cfg->get_node(jl);
      return Reg{cl, jl};
    }
    default: {
      p.n_loops++;
      block_t &h = new_block(t.flag());
      label_t hl = h.label();
      block_t &gb = new_block(false);
      block_t &gx = new_block(false);
      label_t gbl = gb.label(), gxl = gx.label();
      guards(gb, gx);
      bool swap = t.flag();
      if (swap) { p.cfg->get_node(hl) >> p.cfg->get_node(gxl); p.cfg->get_node(hl) >> p.cfg->get_node(gbl); }
      else { p.cfg->get_node(hl) >> p.cfg->get_node(gbl); p.cfg->get_node(hl) >> p.cfg->get_node(gxl); }
      Reg body = region(depth + 1);
      p.cfg->get_node(gbl) >> p.cfg->get_node(body.first);
      p.cfg->get_node(body.last) >> p.cfg->get_node(hl);
      unsigned n = t.pick(3);
      for (unsigned i = 0; i < n; i++)
        stmt(p.cfg->get_node(gxl));
      return Reg{hl, gxl};
    }
    }
  }

  void unstructured(unsigned n, std::vector<label_t> &ls) {
    for (unsigned i = 0; i < n; i++) {
      block_t &b = new_block(false);
      ls.push_back(b.label());
      if (t.pick(3) == 0)
        b.assume(g.constraint());
      unsigned k = t.pick(o.max_stmts_per_block + 1);
      for (unsigned j = 0; j < k; j++)
        stmt(b);
    }
    unsigned extra = t.pick(n + 2);
    std::vector<std::pair<unsigned, unsigned>> es;
    for (unsigned i = 0; i + 1 < n; i++)
      if (t.pick(8) != 7)
        es.push_back({i, i + 1});
    for (unsigned i = 0; i < extra; i++)
      es.push_back({t.pick(n), t.pick(n)});
    if (t.flag())
      std::reverse(es.begin(), es.end());
    for (auto &e : es)
      p.cfg->get_node(ls[e.first]) >> p.cfg->get_node(ls[e.second]);
  }

  // entry block: region_init of (almost) every region, then most references are created
  // and their cell written, so that later loads are mostly of stored cells; regions filled by
  // region_copy / region_cast get their content and their references afterwards
  void prologue(block_t &b) {
    for (auto &r : p.rgns)
      if (t.pick(16) != 15)
        b.region_init(r.v);
    // regions in which all the references of the entry block are aliases of the first one
    // ... and regions nobody stores to in the entry block (the domain updates a region strongly
    // as long as "nobody wrote yet", whatever its number of references)
    std::vector<bool> singleton, unwritten;
    for (unsigned j = 0; j < p.rgns.size(); j++) {
      unsigned m = t.pick(6);
      singleton.push_back(m == 2 || m == 3);
      unwritten.push_back(m == 5);
    }
    for (unsigned i = 0; i < p.refs.size(); i++) {
      if (homed(i).filled_by_copy)
        continue;
      unsigned c = t.pick(16);
      if (c == 15)
        continue; // left uninitialised
      c %= 8;
      if (singleton[p.refs[i].home])
        c = 4;
      int q = -1;
      if (c >= 4 && c <= 6) {
        // alias (4,5) / other cell (6) of an earlier reference of the same region
        std::vector<int> cand;
        for (unsigned j : good_refs)
          if (p.refs[j].home == p.refs[i].home && std::find(maybe_null.begin(), maybe_null.end(), j) == maybe_null.end())
            cand.push_back((int)j);
        if (!cand.empty())
          q = cand[t.pick((unsigned)cand.size())];
      }
      if (q >= 0)
        b.gep_ref(rv(i), home(i), rv((unsigned)q), home((unsigned)q), c != 6 ? lin_t(z_number(0)) : gep_offset(true));
      else {
        b.make_ref(rv(i), home(i), size_operand(), p.as_man.mk_tag());
        p.n_make_ref++;
        // the allocation succeeded (gives the domain a definite non-null fact to keep right)
        unsigned nn = t.pick(8);
        if (nn == 6)
          b.assume_ref(ref_cst_t::mk_gt_null(rv(i)));
        else if (nn == 7)
          b.intrinsic("nonnull", {}, {var_or_cst_t(rv(i))});
      }
      good_refs.push_back(i);
      if (t.pick(16) != 15 && !unwritten[p.refs[i].home])
        store(b, i);
      if (ro.tags && t.pick(4) == 3)
        add_tag(b, i);
      if (t.pick(8) == 7) {
        // null in the executions where the condition holds
        b.select_ref_null_true_value(rv(i), home(i), g.bvar(), rv(i), home(i));
        maybe_null.push_back(i);
      }
    }
    for (unsigned ri = 0; ri < p.rgns.size(); ri++) {
      const RgnDecl &r = p.rgns[ri];
      if (!r.filled_by_copy)
        continue;
      const RgnDecl &src = p.rgns[(unsigned)r.from];
      if (t.pick(8) != 7) {
        if (r.kind == RgnDecl::UNK)
          b.region_cast(src.v, r.v);
        else
          b.region_copy(r.v, src.v);
      }
      for (unsigned i = 0; i < p.refs.size(); i++) {
        if (p.refs[i].home != ri)
          continue;
        std::vector<unsigned> cand;
        for (unsigned j : good_refs)
          if ((int)p.refs[j].home == r.from && std::find(maybe_null.begin(), maybe_null.end(), j) == maybe_null.end())
            cand.push_back(j);
        if (cand.empty())
          break;
        unsigned a = cand[t.pick((unsigned)cand.size())];
        b.gep_ref(rv(i), home(i), rv(a), home(a), t.pick(4) == 3 ? gep_offset(true) : lin_t(z_number(0)));
        good_refs.push_back(i);
        if (t.pick(3) == 0)
          store(b, i);
      }
    }
  }

  void build() {
    declare();
    bool unstruct = (o.caps & CAP_UNSTRUCTURED) && t.pick(8) == 7;
    p.structured = !unstruct;
    label_t entry = o.label_prefix + "b0";
    p.cfg.reset(new cfg_t(entry));
    block_t &e = new_block(false);
    prologue(e);
    if (!unstruct) {
      Reg r = region(0);
      p.cfg->get_node(entry) >> p.cfg->get_node(r.first);
      p.cfg->set_exit(r.last);
      // epilogue: look at some cells again at the exit
      unsigned ne = t.pick(4);
      for (unsigned i = 0; i < ne; i++)
        load(p.cfg->get_node(r.last), use_ref());
    } else {
      unsigned n = 2 + t.pick(o.max_blocks - 1);
      std::vector<label_t> ls;
      unstructured(n, ls);
      p.cfg->get_node(entry) >> p.cfg->get_node(ls[0]);
      if (o.force_exit || t.flag())
        p.cfg->set_exit(p.labels.back());
    }
  }
};

} // namespace vp
