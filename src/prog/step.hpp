// Block-stepping concrete executor for CrabIR (used by h_transform / h_dataflow).
//
// prog/interp.hpp runs a whole execution and draws every choice from one tape.
// The C17/C18 oracles need more control: fork an execution in the middle
// (perturb one variable and continue with the *same* remaining choices),
// enumerate successor choices (counterpart search in a transformed CFG) and
// supply havoc values from a recorded run.  This header therefore provides
//   StmtExec : executes ONE statement on an explicit state (same concrete
//              semantics as vp::Interp, DESIGN.md 2.3; no calls, no regions)
//   Runner   : copyable tape-driven execution that advances block by block
//   TextCache: condition text of assume/assert/bool_assume/bool_assert
// Observable trace of an execution = sequence of CondEv (condition text and
// outcome) in evaluation order.
#pragma once
#include "../core/tape.hpp"
#include "interp.hpp"

#include <functional>
#include <unordered_map>

namespace vp {

using visitor_t = crab::cfg::statement_visitor<label_t, z_number, varname_t>;

// condition text of the four condition-evaluating statement kinds. An assert
// and the assume it is lowered to have the same text (the property compares
// conditions, not statement kinds).
class TextCache {
  std::unordered_map<const stmt_t *, std::string> m;

public:
  const std::string &cond_text(stmt_t &s) {
    auto it = m.find(&s);
    if (it != m.end())
      return it->second;
    std::string t;
    if (s.is_assume())
      t = to_str(static_cast<visitor_t::assume_t &>(s).constraint());
    else if (s.is_assert())
      t = to_str(static_cast<visitor_t::assert_t &>(s).constraint());
    else if (s.is_bool_assume()) {
      auto &a = static_cast<visitor_t::bool_assume_t &>(s);
      t = std::string(a.is_negated() ? "not " : "") + to_str(a.cond());
    } else if (s.is_bool_assert())
      t = to_str(static_cast<visitor_t::bool_assert_t &>(s).cond());
    else
      t = to_str(s);
    return m.emplace(&s, std::move(t)).first->second;
  }
};

struct CondEv {
  stmt_t *stmt;
  const std::string *text;
  bool outcome;
  bool is_assert;
  unsigned path_idx = 0; // index in the block path of the block being executed
  unsigned array_stmts_before = 0; // number of array statements executed before this evaluation
  std::vector<std::pair<var_t, std::string>> operands; // values of the variables of the condition (on demand)
};

inline bool leading_assumes_hold(block_t &b, const State &st) {
  for (auto &stmt : b) {
    if (stmt.is_assume()) {
      auto &a = static_cast<visitor_t::assume_t &>(stmt);
      bool def;
      if (!Interp::holds_in(a.constraint(), st, def) && def)
        return false;
    } else if (stmt.is_bool_assume()) {
      auto &a = static_cast<visitor_t::bool_assume_t &>(stmt);
      auto f = st.num.find(a.cond());
      if (f != st.num.end()) {
        bool v = f->second != 0;
        if (a.is_negated())
          v = !v;
        if (!v)
          return false;
      }
    } else if (stmt.is_unreachable()) {
      return false;
    } else
      break;
  }
  return true;
}

// Executes single statements on an explicit state.
class StmtExec : public visitor_t {
public:
  struct Hooks {
    virtual ~Hooks() {}
    virtual void cond(stmt_t &, bool /*outcome*/, bool /*is_assert*/, const State &) {}
    virtual z_number havoc(const var_t &v) = 0; // value for a scalar havoc
  };
  State *st = nullptr;
  Stop stop = Stop::None;
  std::string outside_reason;
  Hooks *hooks = nullptr;

  explicit StmtExec(Hooks *h) : hooks(h) {}

  // stop == None afterwards <=> the execution continues with the next statement
  void exec(stmt_t &s, State &state) {
    st = &state;
    stop = Stop::None;
    s.accept(this);
  }

private:
  void outside(const std::string &why) {
    stop = Stop::Outside;
    outside_reason = why;
  }
  bool ok() const { return stop == Stop::None; }
  z_number get(const var_t &v) {
    auto it = st->num.find(v);
    if (it != st->num.end())
      return it->second;
    outside("read of a variable without value");
    return z_number(0);
  }
  z_number eval(const lin_t &e) {
    z_number r = e.constant();
    for (auto it = e.begin(); it != e.end(); ++it) {
      auto c = *it;
      r = r + c.first * get(c.second);
    }
    return r;
  }
  bool holds(const cst_t &c) {
    z_number x = eval(c.expression());
    switch (c.kind()) {
    case cst_t::EQUALITY: return x == 0;
    case cst_t::DISEQUATION: return x != 0;
    case cst_t::INEQUALITY: return x <= 0;
    default: return x < 0;
    }
  }
  static z_number pow2(unsigned k) { return z_number(1) << z_number((int64_t)k); }
  // values that keep doubling in a loop make printing / comparing states slow: leave the model
  static bool too_large(const z_number &x) {
    static const z_number lim = z_number(1) << z_number((int64_t)256);
    return x > lim || x < -lim;
  }
  static z_number floor_div_pow2(const z_number &a, unsigned k) { return a >> z_number((int64_t)k); }

public:
  void visit(bin_op_t &s) override {
    z_number a = eval(s.left()), b = eval(s.right()), r;
    if (!ok())
      return;
    switch (s.op()) {
    case crab::cfg::BINOP_ADD: r = a + b; break;
    case crab::cfg::BINOP_SUB: r = a - b; break;
    case crab::cfg::BINOP_MUL: r = a * b; break;
    case crab::cfg::BINOP_SDIV:
      if (b == 0) { stop = Stop::Blocked; return; }
      r = a / b;
      break;
    case crab::cfg::BINOP_SREM:
      if (b == 0) { stop = Stop::Blocked; return; }
      r = a % b;
      break;
    case crab::cfg::BINOP_UDIV:
      if (b == 0) { stop = Stop::Blocked; return; }
      if (a < 0 || b < 0) { outside("udiv with negative operand"); return; }
      r = a / b;
      break;
    case crab::cfg::BINOP_UREM:
      if (b == 0) { stop = Stop::Blocked; return; }
      if (a < 0 || b < 0) { outside("urem with negative operand"); return; }
      r = a % b;
      break;
    case crab::cfg::BINOP_AND: r = a & b; break;
    case crab::cfg::BINOP_OR: r = a | b; break;
    case crab::cfg::BINOP_XOR: r = a ^ b; break;
    case crab::cfg::BINOP_SHL:
      if (b < 0 || b > 64) { outside("shl amount outside [0,64]"); return; }
      r = a * pow2((unsigned)(int64_t)b);
      break;
    case crab::cfg::BINOP_LSHR:
      if (b < 0 || b > 64) { outside("lshr amount outside [0,64]"); return; }
      if (a < 0) { outside("lshr of negative value"); return; }
      r = floor_div_pow2(a, (unsigned)(int64_t)b);
      break;
    case crab::cfg::BINOP_ASHR:
      if (b < 0 || b > 64) { outside("ashr amount outside [0,64]"); return; }
      r = floor_div_pow2(a, (unsigned)(int64_t)b);
      break;
    default: outside("unknown binop"); return;
    }
    if (too_large(r)) { outside("value beyond 2^256"); return; }
    st->num[s.lhs()] = r;
  }
  void visit(assign_t &s) override {
    z_number r = eval(s.rhs());
    if (ok() && too_large(r)) { outside("value beyond 2^256"); return; }
    if (ok())
      st->num[s.lhs()] = r;
  }
  void visit(assume_t &s) override {
    bool h = holds(s.constraint());
    if (!ok())
      return;
    hooks->cond(s, h, false, *st);
    if (!h)
      stop = Stop::Blocked;
  }
  void visit(select_t &s) override {
    bool c = holds(s.cond());
    z_number a = eval(s.left()), b = eval(s.right());
    if (ok())
      st->num[s.lhs()] = c ? a : b;
  }
  void visit(assert_t &s) override {
    bool h = holds(s.constraint());
    if (!ok())
      return;
    hooks->cond(s, h, true, *st);
    if (!h)
      stop = Stop::AssertFailed;
  }
  void visit(int_cast_t &s) override {
    auto sty = s.src().get_type(), dty = s.dst().get_type();
    z_number v = get(s.src());
    if (!ok())
      return;
    if (sty.is_bool() && dty.is_integer()) {
      if (s.op() == crab::cfg::CAST_ZEXT)
        st->num[s.dst()] = v;
      else if (s.op() == crab::cfg::CAST_SEXT) {
        if (v != 0) { outside("sext of true boolean"); return; }
        st->num[s.dst()] = z_number(0);
      } else { outside("trunc bool->int"); return; }
    } else if (sty.is_integer() && dty.is_bool()) {
      if (v != 0 && v != 1) { outside("int->bool cast of value outside {0,1}"); return; }
      st->num[s.dst()] = v;
    } else if (sty.is_integer() && dty.is_integer()) {
      if (s.op() == crab::cfg::CAST_ZEXT) {
        unsigned w = sty.get_integer_bitwidth();
        if (v < 0 || v >= pow2(w)) { outside("zext of value outside [0,2^w)"); return; }
      }
      st->num[s.dst()] = v;
    } else
      outside("cast with unexpected types");
  }
  void visit(unreach_t &) override { stop = Stop::Blocked; }
  void visit(havoc_t &s) override {
    auto ty = s.get_variable().get_type();
    if (ty.is_bool() || ty.is_integer())
      st->num[s.get_variable()] = hooks->havoc(s.get_variable());
    else if (ty.is_array())
      st->arr.erase(s.get_variable());
    else
      outside("havoc of region/reference");
  }
  void visit(bool_bin_op_t &s) override {
    bool a = get(s.left()) != 0, b = get(s.right()) != 0, r;
    if (!ok())
      return;
    switch (s.op()) {
    case crab::cfg::BINOP_BAND: r = a && b; break;
    case crab::cfg::BINOP_BOR: r = a || b; break;
    default: r = a != b; break;
    }
    st->num[s.lhs()] = z_number((int64_t)r);
  }
  void visit(bool_assign_cst_t &s) override {
    if (!s.is_rhs_linear_constraint()) { outside("bool := reference constraint"); return; }
    bool h = holds(s.rhs_as_linear_constraint());
    if (ok())
      st->num[s.lhs()] = z_number((int64_t)h);
  }
  void visit(bool_assign_var_t &s) override {
    bool v = get(s.rhs()) != 0;
    if (!ok())
      return;
    if (s.is_rhs_negated())
      v = !v;
    st->num[s.lhs()] = z_number((int64_t)v);
  }
  void visit(bool_assume_t &s) override {
    bool v = get(s.cond()) != 0;
    if (!ok())
      return;
    if (s.is_negated())
      v = !v;
    hooks->cond(s, v, false, *st);
    if (!v)
      stop = Stop::Blocked;
  }
  void visit(bool_select_t &s) override {
    bool c = get(s.cond()) != 0;
    z_number a = get(s.left()), b = get(s.right());
    if (ok())
      st->num[s.lhs()] = c ? a : b;
  }
  void visit(bool_assert_t &s) override {
    bool v = get(s.cond()) != 0;
    if (!ok())
      return;
    hooks->cond(s, v, true, *st);
    if (!v)
      stop = Stop::AssertFailed;
  }
  void visit(arr_init_t &s) override {
    z_number es = eval(s.elem_size()), lb = eval(s.lb_index()), ub = eval(s.ub_index()), v = eval(s.val());
    if (!ok())
      return;
    if (es <= 0) { outside("array elem size <= 0"); return; }
    if (ub - lb > z_number(4096)) { outside("array_init range too large"); return; }
    auto &cells = st->arr[s.array()];
    cells.clear();
    for (z_number i = lb; i <= ub; i = i + es)
      cells[i] = v;
  }
  void visit(arr_store_t &s) override {
    z_number es = eval(s.elem_size()), lb = eval(s.lb_index()), ub = eval(s.ub_index()), v = eval(s.value());
    if (!ok())
      return;
    if (es <= 0) { outside("array elem size <= 0"); return; }
    if (ub - lb > z_number(4096)) { outside("array_store range too large"); return; }
    if (lb % es != 0) { outside("unaligned array store"); return; }
    auto &cells = st->arr[s.array()];
    for (z_number i = lb; i <= ub; i = i + es)
      cells[i] = v;
  }
  void visit(arr_load_t &s) override {
    z_number i = eval(s.index());
    if (!ok())
      return;
    auto it = st->arr.find(s.array());
    if (it == st->arr.end() || !it->second.count(i)) { outside("array load of a never-written cell"); return; }
    st->num[s.lhs()] = it->second[i];
  }
  void visit(arr_assign_t &s) override {
    auto it = st->arr.find(s.rhs());
    if (it == st->arr.end())
      st->arr.erase(s.lhs());
    else {
      auto copy = it->second;
      st->arr[s.lhs()] = copy;
    }
  }
  void visit(callsite_t &) override { outside("callsite"); }
  void visit(intrinsic_t &) override {}
  void visit(region_init_t &) override { outside("region statement"); }
  void visit(region_copy_t &) override { outside("region statement"); }
  void visit(region_cast_t &) override { outside("region statement"); }
  void visit(make_ref_t &) override { outside("region statement"); }
  void visit(remove_ref_t &) override { outside("region statement"); }
  void visit(load_from_ref_t &) override { outside("region statement"); }
  void visit(store_to_ref_t &) override { outside("region statement"); }
  void visit(gep_ref_t &) override { outside("region statement"); }
  void visit(assume_ref_t &) override { outside("region statement"); }
  void visit(assert_ref_t &) override { outside("region statement"); }
  void visit(select_ref_t &) override { outside("region statement"); }
  void visit(int_to_ref_t &) override { outside("region statement"); }
  void visit(ref_to_int_t &) override { outside("region statement"); }
};

// values of the variables used by a statement (for diagnostics / comparison)
using OperandVals = std::vector<std::pair<var_t, std::string>>;
inline OperandVals operand_values(stmt_t &s, const State &st) {
  OperandVals r;
  auto const &l = s.get_live();
  for (auto it = l.uses_begin(); it != l.uses_end(); ++it) {
    const var_t &v = *it;
    std::string x;
    if (v.get_type().is_array()) {
      auto f = st.arr.find(v);
      if (f == st.arr.end())
        x = "?";
      else {
        x = "[";
        for (auto &c : f->second)
          x += c.first.get_str() + ":" + c.second.get_str() + " ";
        x += "]";
      }
    } else {
      auto f = st.num.find(v);
      x = f == st.num.end() ? std::string("?") : f->second.get_str();
    }
    r.emplace_back(v, std::move(x));
  }
  return r;
}
inline std::string operands_str(const OperandVals &o) {
  std::string r;
  for (auto &kv : o)
    r += (r.empty() ? "" : ",") + to_str(kv.first) + "=" + kv.second;
  return r;
}

// A tape-driven execution that advances one block per step() and can be
// copied in the middle (fork).  The execution ENDS AT THE EXIT: it stops when
// it has executed the exit block (the return point of the function, also when
// that block has successors), when it reaches a block without successors,
// when it blocks / fails an assertion / leaves the model / hits a limit.
class Runner : public StmtExec::Hooks {
public:
  cfg_t *cfg;
  verif::Tape *tape;
  TextCache *tc;
  State st;
  label_t cur;
  std::vector<label_t> path;
  std::vector<CondEv> trace;
  std::map<var_t, std::vector<z_number>> havoc_rec; // values drawn, per variable, in order
  std::vector<z_number> havoc_seq;                  // all values drawn, in order
  // replay mode (set both): follow the block path and take the havoc values of another run
  // instead of drawing choices from the tape; the run ends when the path is exhausted
  const std::vector<label_t> *follow_path = nullptr;
  const std::vector<z_number> *follow_havoc = nullptr;
  Stop end = Stop::None;
  bool finished = false, reached_exit = false;
  std::string outside_reason;
  unsigned steps = 0, max_steps = 200, max_blocks = 40;
  unsigned n_array_stmts = 0; // array statements executed so far
  int big_chance = 0; // out of 256: havoc values from the 64-bit pool
  bool record_operands = false;
  bool lookahead = true;
  std::function<void(stmt_t &, unsigned /*path idx*/)> pre_stmt;

  Runner(cfg_t &c, verif::Tape &t, TextCache &cache, const label_t &start, const State &s)
      : cfg(&c), tape(&t), tc(&cache), st(s), cur(start) {}

  void cond(stmt_t &s, bool outcome, bool is_assert, const State &state) override {
    CondEv e{&s, &tc->cond_text(s), outcome, is_assert, (unsigned)path.size() - 1, n_array_stmts, {}};
    if (record_operands)
      e.operands = operand_values(s, state);
    trace.push_back(std::move(e));
  }
  z_number havoc(const var_t &v) override {
    z_number x;
    if (follow_havoc) {
      x = havoc_seq.size() < follow_havoc->size() ? (*follow_havoc)[havoc_seq.size()] : z_number(0);
      if (v.get_type().is_bool() && x != 0)
        x = z_number(1);
    } else if (v.get_type().is_bool())
      x = z_number((int64_t)(tape->u8() & 1));
    else {
      unsigned k = tape->u8();
      if (k < (unsigned)big_chance)
        x = z_number(tape->i64_pool());
      else if (k < 128)
        x = z_number(tape->small_int(4));
      else
        x = z_number(tape->small_int(12));
    }
    havoc_rec[v].push_back(x);
    havoc_seq.push_back(x);
    return x;
  }

  // executes the statements of block `cur`; returns true when the block was
  // completed and the execution continues with a successor (pick_next), false
  // when the execution has ended (in the block, at the exit, by a limit)
  bool exec_cur() {
    if (finished)
      return false;
    if (path.size() >= max_blocks) {
      end = Stop::StepLimit;
      finished = true;
      return false;
    }
    path.push_back(cur);
    block_t &b = cfg->get_node(cur);
    StmtExec ex(this);
    for (auto &stmt : b) {
      if (steps++ >= max_steps) {
        end = Stop::StepLimit;
        finished = true;
        return false;
      }
      if (pre_stmt)
        pre_stmt(stmt, (unsigned)path.size() - 1);
      if (stmt.is_arr_init() || stmt.is_arr_read() || stmt.is_arr_write() || stmt.is_arr_assign())
        n_array_stmts++;
      ex.exec(stmt, st);
      if (ex.stop != Stop::None) {
        end = ex.stop;
        outside_reason = ex.outside_reason;
        finished = true;
        return false;
      }
    }
    if (cfg->has_exit() && cur == cfg->exit()) {
      reached_exit = true;
      end = Stop::NoSuccessor;
      finished = true;
      return false;
    }
    return true;
  }
  // chooses the successor of the completed block `cur`
  bool pick_next() {
    if (follow_path) {
      if (path.size() >= follow_path->size()) {
        end = Stop::StepLimit;
        finished = true;
        return false;
      }
      cur = (*follow_path)[path.size()];
      return true;
    }
    block_t &b = cfg->get_node(cur);
    std::vector<label_t> succs;
    for (auto const &n : boost::make_iterator_range(b.next_blocks()))
      succs.push_back(n);
    if (succs.empty()) {
      end = Stop::NoSuccessor;
      finished = true;
      return false;
    }
    std::vector<label_t> feas;
    if (lookahead)
      for (auto &n : succs)
        if (leading_assumes_hold(cfg->get_node(n), st))
          feas.push_back(n);
    if (!feas.empty())
      cur = feas[tape->pick((unsigned)feas.size())];
    else
      cur = succs[tape->pick((unsigned)succs.size())];
    return true;
  }
  bool step() { return exec_cur() && pick_next(); }
  void run() {
    while (step()) {
    }
  }
};

// text of the whole cfg including blocks unreachable from the entry, edges in
// both directions, entry/exit and the declaration (cfg::write only prints the
// blocks reachable from the entry)
inline std::string full_text(const cfg_t &cfg) {
  std::vector<label_t> ls;
  for (auto it = cfg.label_begin(); it != cfg.label_end(); ++it)
    ls.push_back(*it);
  std::sort(ls.begin(), ls.end());
  crab::crab_string_os os;
  if (cfg.has_func_decl())
    os << cfg.get_func_decl() << "\n";
  os << "entry=" << cfg.entry() << " exit=" << (cfg.has_exit() ? cfg.exit() : std::string("<none>")) << "\n";
  for (auto &l : ls) {
    const block_t &b = cfg.get_node(l);
    b.write(os);
    os << "  preds:";
    for (auto const &p : boost::make_iterator_range(b.prev_blocks()))
      os << " " << p;
    os << "\n";
  }
  return os.str();
}

} // namespace vp
