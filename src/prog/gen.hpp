// CrabIR program generator (DESIGN.md section 2.5): a deterministic decoder of
// the choice tape that builds CFGs through the public builder API exactly as
// tests/*.cc do.  0-bytes decode to the simplest alternative.
#pragma once
#include "../core/tape.hpp"
#include "lang.hpp"

#include <crab/cfg/type_checker.hpp>

#include <memory>
#include <set>
#include <string>
#include <vector>

namespace vp {

enum Caps : unsigned {
  CAP_ARITH = 1u << 0,    // + - * with var/const
  CAP_DIV = 1u << 1,      // sdiv srem
  CAP_UNSIGNED = 1u << 2, // udiv urem lshr
  CAP_BITWISE = 1u << 3,  // and or xor shl ashr
  CAP_CAST = 1u << 4,     // int<->int casts (second width)
  CAP_BOOL = 1u << 5,     // boolean statements (+ bool<->int casts)
  CAP_ARRAY = 1u << 6,
  CAP_SELECT = 1u << 7,
  CAP_HAVOC = 1u << 8,
  CAP_UNREACHABLE = 1u << 9,
  CAP_ASSERT = 1u << 10,
  CAP_BIGCONST = 1u << 11,    // constants up to +-2^62 (unbounded-weight domains)
  CAP_UNSTRUCTURED = 1u << 12, // arbitrary edges / irreducible / unreachable blocks
  CAP_NONLINEAR = 1u << 13,    // var*var, var/var
  CAP_DISEQ = 1u << 14,        // != in conditions
  CAP_CALL_INTRA = 1u << 15,   // callsite to an unknown function (intra-procedural view)
  CAP_SIMPLE_CST = 1u << 16,   // conditions only of the forms x ~ c and x ~ y (machine-integer programs)
  CAP_NUM_ALL = CAP_ARITH | CAP_DIV | CAP_UNSIGNED | CAP_BITWISE | CAP_CAST | CAP_SELECT | CAP_HAVOC |
                CAP_UNREACHABLE | CAP_ASSERT | CAP_NONLINEAR | CAP_DISEQ | CAP_UNSTRUCTURED,
};

struct GenOpts {
  unsigned caps = CAP_NUM_ALL;
  unsigned max_blocks = 10;
  unsigned max_stmts_per_block = 4;
  int64_t const_cap = (int64_t)1 << 62; // |constants| <= cap (DBM int64 weights: 10^6)
  bool force_exit = false;              // always build cfg(entry, exit)
  unsigned int_width = 32;
  std::string name_prefix = "";  // to vary names across functions
  std::string label_prefix = ""; // block label prefix
  int64_t first_assert_id = 0;
};

struct Program {
  std::shared_ptr<variable_factory_t> vfac; // must outlive cfg
  std::unique_ptr<cfg_t> cfg;
  std::vector<var_t> ints, wides, bools, arrs;
  std::vector<z_number> arr_elem_size; // per array: the uniform constant element size
  std::vector<bool> arr_singleton;     // per array: one cell at offset 0 (only these receive strong updates)
  std::vector<label_t> labels;
  int64_t n_asserts = 0;
  bool structured = true;
  unsigned n_loops = 0, n_ifs = 0;
  std::vector<var_t> all_scalar_vars() const {
    std::vector<var_t> r = ints;
    r.insert(r.end(), wides.begin(), wides.end());
    r.insert(r.end(), bools.begin(), bools.end());
    return r;
  }
};

class Gen {
public:
  verif::Tape &t;
  GenOpts o;
  Program &p;
  unsigned blocks_left;
  unsigned next_label = 0;

  Gen(verif::Tape &tape, const GenOpts &opts, Program &prog) : t(tape), o(opts), p(prog), blocks_left(opts.max_blocks) {}

  bool cap(unsigned c) const { return (o.caps & c) != 0; }

  // ---- constants / expressions ------------------------------------------------
  z_number clampc(int64_t v) {
    if (v > o.const_cap)
      v = o.const_cap;
    if (v < -o.const_cap)
      v = -o.const_cap;
    return z_number(v);
  }
  z_number cnst() {
    unsigned k = t.pick(12);
    switch (k) {
    case 0: return z_number(0);
    case 1: return z_number(1);
    case 2: return z_number(-1);
    case 3: return z_number(2);
    case 4:
    case 5: return z_number(t.small_int(10));
    case 6: return z_number(t.small_int(100));
    case 7: { int s = (int)t.range(2, 16); return clampc(((int64_t)1 << s) + t.small_int(1)); }
    case 8: { int s = (int)t.range(2, 16); return clampc(-((int64_t)1 << s) + t.small_int(1)); }
    case 9:
      if (cap(CAP_BIGCONST))
        return clampc(t.i64_pool() >> 1);
      return z_number(t.small_int(50));
    case 10: return clampc((int64_t)INT32_MAX + t.small_int(1));
    default: return z_number(t.small_int(5));
    }
  }
  z_number coef() {
    static const int64_t cs[] = {1, -1, 2, -2, 3, 7, -3, 0, 5};
    unsigned k = t.pick(12);
    if (k < 9)
      return z_number(cs[k]);
    if (k == 9 && cap(CAP_BIGCONST))
      return clampc(t.i64_pool() >> 2);
    return z_number(t.small_int(10));
  }
  const var_t &ivar() { return p.ints[t.pick((unsigned)p.ints.size())]; }
  const var_t &bvar() { return p.bools[t.pick((unsigned)p.bools.size())]; }
  lin_t linexp(unsigned maxterms = 3) {
    unsigned n = t.pick(maxterms + 1);
    lin_t e(cnst());
    if (n == 0 && t.flag())
      n = 1;
    for (unsigned i = 0; i < n; i++)
      e = e + lin_t(coef(), ivar());
    return e;
  }
  // var or constant
  lin_t var_or_const() {
    if (t.pick(3) == 0)
      return lin_t(cnst());
    return lin_t(ivar());
  }
  cst_t constraint() {
    unsigned shape = t.pick(cap(CAP_SIMPLE_CST) ? 2 : 6);
    lin_t l, r;
    switch (shape) {
    case 0: l = lin_t(ivar()); r = lin_t(cnst()); break;
    case 1: l = lin_t(ivar()); r = lin_t(ivar()); break;
    case 2: l = lin_t(ivar()) - lin_t(ivar()); r = lin_t(cnst()); break;
    case 3: l = lin_t(ivar()) + lin_t(ivar()); r = lin_t(cnst()); break;
    case 4: l = linexp(2); r = lin_t(cnst()); break;
    default: l = linexp(3); r = linexp(1); break;
    }
    unsigned k = t.pick(cap(CAP_DISEQ) ? 6 : 5);
    switch (k) {
    case 0: return l <= r;
    case 1: return l < r;
    case 2: return l >= r;
    case 3: return l > r;
    case 4: return l == r;
    default: return l != r;
    }
  }

  // assertion conditions biased towards provable ones (C02 needs safe/unreachable
  // verdicts): loose bounds, the most recent guard (possibly weakened), or arbitrary
  bool have_last_cst = false;
  cst_t last_cst;
  cst_t remember(const cst_t &c) {
    last_cst = c;
    have_last_cst = true;
    return c;
  }
  cst_t assert_constraint() {
    static const int64_t loose[] = {10, 100, 1000, 1 << 20};
    unsigned ak = t.pick(5);
    if (cap(CAP_SIMPLE_CST) && (ak == 2 || ak == 3))
      ak = 0;
    switch (ak) {
    case 0: return constraint();
    case 1: {
      var_t v = ivar();
      z_number c(loose[t.pick(4)]);
      return t.flag() ? cst_t(lin_t(v) <= lin_t(c)) : cst_t(lin_t(v) >= lin_t(z_number(0) - c));
    }
    case 2:
      if (have_last_cst) {
        cst_t c = last_cst;
        if (c.is_inequality() && t.flag()) // weaken e <= 0 to e <= k
          return cst_t(c.expression() - lin_t(z_number((int64_t)t.pick(4))), cst_t::INEQUALITY);
        return c;
      }
      return constraint();
    case 3: {
      var_t x = ivar(), y = ivar();
      return cst_t(lin_t(x) - lin_t(y) <= lin_t(z_number(loose[t.pick(4)])));
    }
    default: {
      var_t v = ivar();
      z_number c = z_number(t.small_int(6));
      switch (t.pick(3)) {
      case 0: return cst_t(lin_t(v) >= lin_t(c));
      case 1: return cst_t(lin_t(v) <= lin_t(c));
      default: return cst_t(lin_t(v) == lin_t(c));
      }
    }
    }
  }

  // ---- statements -----------------------------------------------------------------
  void stmt(block_t &b) {
    // weighted choice over the enabled kinds; 0 -> plain assignment
    std::vector<int> kinds;
    kinds.push_back(0); // assign lin exp
    kinds.push_back(0);
    if (cap(CAP_ARITH)) { kinds.push_back(1); kinds.push_back(1); }
    if (cap(CAP_DIV)) kinds.push_back(2);
    if (cap(CAP_UNSIGNED)) kinds.push_back(3);
    if (cap(CAP_BITWISE)) kinds.push_back(4);
    if (cap(CAP_CAST) && !p.wides.empty()) kinds.push_back(5);
    if (cap(CAP_SELECT)) kinds.push_back(6);
    if (cap(CAP_HAVOC)) kinds.push_back(7);
    if (cap(CAP_ASSERT)) { kinds.push_back(8); kinds.push_back(8); }
    kinds.push_back(9); // assume in the middle of a block
    if (cap(CAP_UNREACHABLE)) kinds.push_back(10);
    if (cap(CAP_BOOL) && !p.bools.empty()) { kinds.push_back(11); kinds.push_back(11); kinds.push_back(11); }
    if (cap(CAP_ARRAY) && !p.arrs.empty()) for (int q = 0; q < 9; q++) kinds.push_back(12);
    if (cap(CAP_CALL_INTRA)) kinds.push_back(13);
    int k = kinds[t.pick((unsigned)kinds.size())];
    switch (k) {
    case 0: b.assign(ivar(), linexp()); break;
    case 1: {
      var_t lhs = ivar(), op1 = ivar();
      unsigned op = t.pick(3);
      bool varop = cap(CAP_NONLINEAR) ? t.pick(3) == 0 : (op != 2 && t.pick(3) == 0);
      if (varop) {
        var_t op2 = ivar();
        if (op == 0) b.add(lhs, op1, op2); else if (op == 1) b.sub(lhs, op1, op2); else b.mul(lhs, op1, op2);
      } else {
        z_number c = cnst();
        if (op == 0) b.add(lhs, op1, c); else if (op == 1) b.sub(lhs, op1, c); else b.mul(lhs, op1, c);
      }
      break;
    }
    case 2: {
      var_t lhs = ivar(), op1 = ivar();
      bool rem = t.flag();
      if (cap(CAP_NONLINEAR) && t.pick(3) == 0) {
        var_t op2 = ivar();
        if (rem) b.rem(lhs, op1, op2); else b.div(lhs, op1, op2);
      } else {
        z_number c = cnst();
        if (rem) b.rem(lhs, op1, c); else b.div(lhs, op1, c);
      }
      break;
    }
    case 3: {
      var_t lhs = ivar(), op1 = ivar();
      unsigned op = t.pick(3);
      if (t.pick(3) == 0) {
        var_t op2 = ivar();
        if (op == 0) b.udiv(lhs, op1, op2); else if (op == 1) b.urem(lhs, op1, op2); else b.lshr(lhs, op1, op2);
      } else {
        z_number c = op == 2 ? z_number((int64_t)t.pick(34)) : cnst();
        if (op == 0) b.udiv(lhs, op1, c); else if (op == 1) b.urem(lhs, op1, c); else b.lshr(lhs, op1, c);
      }
      break;
    }
    case 4: {
      var_t lhs = ivar(), op1 = ivar();
      unsigned op = t.pick(5);
      if (t.pick(3) == 0) {
        var_t op2 = ivar();
        switch (op) {
        case 0: b.bitwise_and(lhs, op1, op2); break;
        case 1: b.bitwise_or(lhs, op1, op2); break;
        case 2: b.bitwise_xor(lhs, op1, op2); break;
        case 3: b.shl(lhs, op1, op2); break;
        default: b.ashr(lhs, op1, op2); break;
        }
      } else {
        z_number c = op >= 3 ? z_number((int64_t)t.pick(34)) : cnst();
        switch (op) {
        case 0: b.bitwise_and(lhs, op1, c); break;
        case 1: b.bitwise_or(lhs, op1, c); break;
        case 2: b.bitwise_xor(lhs, op1, c); break;
        case 3: b.shl(lhs, op1, c); break;
        default: b.ashr(lhs, op1, c); break;
        }
      }
      break;
    }
    case 5: {
      const var_t &n = ivar();
      const var_t &w = p.wides[t.pick((unsigned)p.wides.size())];
      unsigned op = t.pick(3);
      if (op == 0) b.sext(n, w); else if (op == 1) b.zext(n, w); else b.truncate(w, n);
      break;
    }
    case 6: b.select(ivar(), constraint(), linexp(2), linexp(2)); break;
    case 7: b.havoc(ivar()); break;
    case 8: b.assertion(assert_constraint(), crab::cfg::debug_info("verif", 1, 1, o.first_assert_id + p.n_asserts)); p.n_asserts++; break;
    case 9: b.assume(remember(constraint())); break;
    case 10:
      if (t.pick(4) == 0) b.unreachable(); else b.assign(ivar(), linexp());
      break;
    case 11: bool_stmt(b); break;
    case 12: array_stmt(b); break;
    case 13: {
      std::vector<var_t> lhs, args;
      unsigned nl = t.pick(3), na = t.pick(3);
      std::set<var_t> used;
      for (unsigned i = 0; i < nl; i++) { var_t v = ivar(); if (used.insert(v).second) lhs.push_back(v); }
      for (unsigned i = 0; i < na; i++) args.push_back(ivar());
      b.callsite("unknown_fn", lhs, args);
      break;
    }
    }
  }

  void bool_stmt(block_t &b) {
    unsigned k = t.pick(10);
    switch (k) {
    case 0: b.bool_assign(bvar(), constraint()); break;
    case 1: b.bool_assign(bvar(), bvar(), t.flag()); break;
    case 2: { unsigned op = t.pick(3); var_t l = bvar(), x = bvar(), y = bvar();
      if (op == 0) b.bool_and(l, x, y); else if (op == 1) b.bool_or(l, x, y); else b.bool_xor(l, x, y); break; }
    case 3: if (t.flag()) b.bool_assume(bvar()); else b.bool_not_assume(bvar()); break;
    case 4: b.bool_select(bvar(), bvar(), bvar(), bvar()); break;
    case 5:
      if (cap(CAP_ASSERT)) { b.bool_assert(bvar(), crab::cfg::debug_info("verif", 1, 1, o.first_assert_id + p.n_asserts)); p.n_asserts++; }
      else b.bool_assign(bvar(), constraint());
      break;
    case 6: b.havoc(bvar()); break;
    case 7: b.zext(bvar(), ivar()); break; // bool -> int
    case 8: b.sext(bvar(), ivar()); break; // bool -> int (0/-1 undocumented: the interpreter truncates on true)
    default: b.bool_assign(bvar(), constraint()); break;
    }
  }

  void array_stmt(block_t &b) {
    unsigned ai = t.pick((unsigned)p.arrs.size());
    const var_t &a = p.arrs[ai];
    z_number es = p.arr_elem_size[ai];
    bool wide = es == z_number(8) && o.int_width != 64;
    auto svar = [&]() -> const var_t & { return wide ? p.wides[t.pick((unsigned)p.wides.size())] : ivar(); };
    auto sval = [&]() -> lin_t { return t.pick(3) == 0 ? lin_t(cnst()) : lin_t(svar()); };
    bool single = p.arr_singleton[ai];
    auto const_index = [&]() { return lin_t(es * z_number((int64_t)(single ? 0 : t.pick(6)))); };
    auto index = [&]() -> lin_t {
      if (single)
        return lin_t(z_number(0));
      unsigned k = t.pick(6);
      if (k == 0)
        return lin_t(ivar()); // symbolic index (may be unaligned -> truncated concretely)
      if (k == 1 || k == 2) {
        // aligned symbolic index es*v; half of the time v is first given a small range that
        // the abstract value knows (havoc; assume 0 <= v <= hi): the index is then symbolic for
        // the domain and always hits an existing cell concretely
        var_t v = ivar();
        if (t.flag()) {
          z_number hi((int64_t)(1 + t.pick(5)));
          b.havoc(v);
          b.assume(cst_t(lin_t(v) >= lin_t(z_number(0))));
          b.assume(cst_t(lin_t(v) <= lin_t(hi)));
        }
        return lin_t(es, v);
      }
      return const_index();
    };
    unsigned k = t.pick(8);
    switch (k) {
    case 0: { z_number lb = es * z_number((int64_t)(single ? 0 : t.pick(3))); z_number ub = lb + es * z_number((int64_t)(single ? 0 : t.pick(6)));
      b.array_init(a, lin_t(lb), lin_t(ub), sval(), lin_t(es)); break; }
    case 1: b.array_store(a, index(), sval(), lin_t(es)); break;
    case 2: b.array_store(a, const_index(), sval(), lin_t(es), single && t.flag()); break;
    case 3:
    case 4: b.array_load(svar(), a, index(), lin_t(es)); break;
    case 5: { z_number lb = es * z_number((int64_t)(single ? 0 : t.pick(3))); z_number ub = lb + es * z_number((int64_t)(single ? 0 : t.pick(5)));
      b.array_store_range(a, lin_t(lb), lin_t(ub), sval(), lin_t(es)); break; }
    case 6:
      if (p.arrs.size() > 1) {
        unsigned bi = (ai + 1) % p.arrs.size();
        if (p.arr_elem_size[bi] == es && p.arr_singleton[bi] == single) { b.array_assign(a, p.arrs[bi]); break; }
      }
      b.array_store(a, index(), sval(), lin_t(es));
      break;
    default: b.array_load(svar(), a, const_index(), lin_t(es)); break;
    }
  }

  // ---- blocks and shapes --------------------------------------------------------------
  block_t &new_block(bool with_stmts = true) {
    label_t l = o.label_prefix + "b" + std::to_string(next_label++);
    block_t &b = p.cfg->insert(l);
    p.labels.push_back(l);
    if (blocks_left > 0)
      blocks_left--;
    if (next_label == 1 && cap(CAP_ARRAY)) {
      // most programs initialise their arrays in the entry block (a load of a
      // never-written cell is outside the concrete model)
      for (unsigned ai = 0; ai < p.arrs.size(); ai++)
        if (t.pick(4) != 3) {
          z_number es = p.arr_elem_size[ai];
          b.array_init(p.arrs[ai], lin_t(z_number(0)), lin_t(es * z_number((int64_t)(p.arr_singleton[ai] ? 0 : 2 + t.pick(6)))), lin_t(cnst()), lin_t(es));
        }
    }
    if (with_stmts) {
      unsigned n = t.pick(o.max_stmts_per_block + 1);
      for (unsigned i = 0; i < n; i++)
        stmt(b);
    }
    return b;
  }

  struct Reg { label_t first, last; };

  Reg region(unsigned depth) {
    unsigned kind = (blocks_left < 3 || depth > 3) ? 0 : t.pick(6);
    switch (kind) {
    case 0:
    case 1: { // block or sequence
      block_t &b = new_block();
      Reg r{b.label(), b.label()};
      if (kind == 1 && blocks_left > 0) {
        Reg r2 = region(depth + 1);
        p.cfg->get_node(r.last) >> p.cfg->get_node(r2.first);
        r.last = r2.last;
      }
      return r;
    }
    case 2:
    case 3: { // if-else with complementary (or unrelated / absent) guards
      p.n_ifs++;
      block_t &c = new_block();
      label_t cl = c.label();
      block_t &gt = new_block(false);
      block_t &ge = new_block(false);
      label_t gtl = gt.label(), gel = ge.label();
      guards(gt, ge);
      bool swap = t.flag();
      if (swap) { p.cfg->get_node(cl) >> p.cfg->get_node(gel); p.cfg->get_node(cl) >> p.cfg->get_node(gtl); }
      else { p.cfg->get_node(cl) >> p.cfg->get_node(gtl); p.cfg->get_node(cl) >> p.cfg->get_node(gel); }
      Reg rt = region(depth + 1);
      p.cfg->get_node(gtl) >> p.cfg->get_node(rt.first);
      label_t elast = gel;
      if (blocks_left > 1 && t.flag()) {
        Reg re = region(depth + 1);
        p.cfg->get_node(gel) >> p.cfg->get_node(re.first);
        elast = re.last;
      }
      block_t &j = new_block();
      label_t jl = j.label();
      p.cfg->get_node(rt.last) >> p.cfg->get_node(jl);
      p.cfg->get_node(elast) >> p.cfg->get_node(jl);
      return Reg{cl, jl};
    }
    default: { // while loop
      p.n_loops++;
      block_t &h = new_block(t.flag());
      label_t hl = h.label();
      block_t &gb = new_block(false);
      block_t &gx = new_block(false);
      label_t gbl = gb.label(), gxl = gx.label();
      guards(gb, gx);
      bool swap = t.flag();
      if (swap) { p.cfg->get_node(hl) >> p.cfg->get_node(gxl); p.cfg->get_node(hl) >> p.cfg->get_node(gbl); }
      else { p.cfg->get_node(hl) >> p.cfg->get_node(gbl); p.cfg->get_node(hl) >> p.cfg->get_node(gxl); }
      Reg body = region(depth + 1);
      p.cfg->get_node(gbl) >> p.cfg->get_node(body.first);
      p.cfg->get_node(body.last) >> p.cfg->get_node(hl);
      // the exit guard block may carry statements after the guard
      unsigned n = t.pick(3);
      for (unsigned i = 0; i < n; i++)
        stmt(p.cfg->get_node(gxl));
      return Reg{hl, gxl};
    }
    }
  }

  // fills the two guard blocks with complementary / unrelated / no conditions
  void guards(block_t &gt, block_t &ge) {
    unsigned mode = t.pick(8);
    if (mode == 7)
      return; // non-deterministic branch
    if (mode == 6 && cap(CAP_BOOL) && !p.bools.empty()) {
      var_t c = bvar();
      gt.bool_assume(c);
      ge.bool_not_assume(c);
      return;
    }
    cst_t c = remember(constraint());
    gt.assume(c);
    if (mode == 5)
      ge.assume(constraint()); // unrelated guard
    else
      ge.assume(c.negate());
  }

  void unstructured(unsigned n) {
    std::vector<label_t> ls;
    for (unsigned i = 0; i < n; i++) {
      block_t &b = new_block(false);
      ls.push_back(b.label());
      // optional leading assume, then statements
      if (t.pick(3) == 0)
        b.assume(constraint());
      unsigned k = t.pick(o.max_stmts_per_block + 1);
      for (unsigned j = 0; j < k; j++)
        stmt(b);
    }
    // edges in decoded order: chain edges (mostly) + arbitrary extra edges
    unsigned extra = t.pick(n + 2);
    std::vector<std::pair<unsigned, unsigned>> es;
    for (unsigned i = 0; i + 1 < n; i++)
      if (t.pick(8) != 7)
        es.push_back({i, i + 1});
    for (unsigned i = 0; i < extra; i++)
      es.push_back({t.pick(n), t.pick(n)});
    // decoded insertion order: rotate / reverse
    if (t.flag())
      std::reverse(es.begin(), es.end());
    for (auto &e : es)
      p.cfg->get_node(ls[e.first]) >> p.cfg->get_node(ls[e.second]);
  }

  void declare_vars() {
    p.vfac = std::make_shared<variable_factory_t>();
    auto &vf = *p.vfac;
    unsigned ni = 2 + t.pick(5);
    for (unsigned i = 0; i < ni; i++)
      p.ints.push_back(var_t(vf[o.name_prefix + "i" + std::to_string(i)], crab::INT_TYPE, o.int_width));
    if (cap(CAP_CAST)) {
      unsigned nw = 1 + t.pick(2);
      for (unsigned i = 0; i < nw; i++)
        p.wides.push_back(var_t(vf[o.name_prefix + "w" + std::to_string(i)], crab::INT_TYPE, 64));
    }
    if (cap(CAP_BOOL)) {
      unsigned nb = 1 + t.pick(3);
      for (unsigned i = 0; i < nb; i++)
        p.bools.push_back(var_t(vf[o.name_prefix + "p" + std::to_string(i)], crab::BOOL_TYPE, 1));
    }
    if (cap(CAP_ARRAY)) {
      unsigned na = 1 + t.pick(2);
      // the element size is the byte width of the scalars stored/loaded (type_checker.hpp: "TODO: check
      // that e_sz is the same number that lhs's bitwidth"; array_adaptive gives a cell the width 8*size)
      for (unsigned i = 0; i < na; i++) {
        p.arrs.push_back(var_t(vf[o.name_prefix + "A" + std::to_string(i)], crab::ARR_INT_TYPE, 0));
        bool wide = !p.wides.empty() && t.pick(4) == 3;
        p.arr_elem_size.push_back(z_number((int64_t)(wide ? 8 : o.int_width / 8)));
        // is_strong_update=true is the client's promise that the store overwrites the whole
        // array content (cfg.hpp: "If unknown set to false"; array smashing then overwrites its
        // summary): only single-cell arrays get it
        p.arr_singleton.push_back(t.pick(5) == 4);
      }
    }
  }

  // builds p.cfg; the cfg has an exit when the shape is structured or force_exit
  void build() {
    declare_vars();
    bool unstruct = cap(CAP_UNSTRUCTURED) && t.pick(4) == 3;
    p.structured = !unstruct;
    label_t entry = o.label_prefix + "b0";
    if (!unstruct) {
      // labels are allocated in creation order; the exit is known only after
      // generation, so create the cfg with the entry and set the exit later
      p.cfg.reset(new cfg_t(entry));
      Reg r = region(0);
      (void)r.first; // == entry
      p.cfg->set_exit(r.last);
    } else {
      unsigned n = 2 + t.pick(o.max_blocks - 1);
      p.cfg.reset(new cfg_t(entry));
      unstructured(n);
      if (o.force_exit || t.flag())
        p.cfg->set_exit(p.labels.back());
    }
  }
};

inline void type_check(cfg_t &cfg) {
  cfg_ref_t ref(cfg);
  crab::cfg::type_checker<cfg_ref_t> tc(ref);
  tc.run();
}

} // namespace vp
