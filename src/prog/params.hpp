// Decodes the documented global domain parameters (crab_domain_params) from the
// TAIL of the choice tape: every combination is a legal configuration. 0 bytes
// decode to the defaults. Only the parameter groups relevant for the domain
// variant under test are decoded.
#pragma once
#include "../core/tape.hpp"
#include <crab/domains/abstract_domain_params.hpp>
#include <ostream>
#include <string>

namespace vp {
inline void decode_domain_params(verif::Tape &t, const std::string &variant, std::ostream &log) {
  auto &pm = crab::domains::crab_domain_params_man::get();
  pm = crab::domains::crab_domain_params();
  auto has = [&](const char *s) { return variant.find(s) != std::string::npos; };
  auto flip = [&](const char *name, bool dflt) {
    bool v = (t.tail_u8() & 3) == 3 ? !dflt : dflt; // a quarter of the time the non-default value
    pm.set_param(name, v ? "true" : "false");
    if (v != dflt)
      log << " " << name << "=" << v;
  };
  log << "params:";
  if (has("dbm") || has("numprod") || has("tvpi")) {
    flip("zones.chrome_dijkstra", true);
    flip("zones.widen_restabilize", true);
    flip("zones.special_assign", true);
    flip("zones.close_bounds_inline", false);
  }
  if (has("soct")) {
    flip("oct.chrome_dijkstra", true);
    flip("oct.widen_restabilize", true);
    flip("oct.special_assign", true);
    flip("oct.close_bounds_inline", false);
  }
  if (has("aa_")) {
    flip("array_adaptive.is_smashable", true);
    flip("array_adaptive.smash_at_nonzero_offset", true);
    static const char *cells[] = {"64", "0", "1", "2", "4", "512"};
    static const char *sizes[] = {"64", "0", "1", "2", "8", "512"};
    // (index 0 = the default; it is taken half of the time)
    unsigned c = t.tail_pick(12), z = t.tail_pick(12);
    c = c >= 6 ? 0 : c;
    z = z >= 6 ? 0 : z;
    pm.set_param("array_adaptive.max_smashable_cells", cells[c]);
    pm.set_param("array_adaptive.max_array_size", sizes[z]);
    log << " aa.max_smashable_cells=" << cells[c] << " aa.max_array_size=" << sizes[z];
  }
  if (has("pow")) {
    flip("powerset.exact_meet", false);
    static const char *md[] = {"99999", "1", "2", "3", "8"};
    unsigned k = t.tail_pick(5);
    pm.set_param("powerset.max_disjuncts", md[k]);
    log << " powerset.max_disjuncts=" << md[k];
  }
  if (has("rgn") || has("region")) {
    flip("region.allocation_sites", true);
    flip("region.deallocation", false);
    flip("region.tag_analysis", true);
    flip("region.is_dereferenceable", false);
    flip("region.skip_unknown_regions", true);
  }
  log << "\n";
}
} // namespace vp
