// gamma-membership test using only the public query API of a domain
// (DESIGN.md section 2.4): M1 is_bottom, M2 at()/operator[], M3 exported
// constraints, M4 point meet, M5 entailment probes.
#pragma once
#include "interp.hpp"
#include "../core/hooks.hpp"
#include "../core/report.hpp"
#include <crab/domains/interval.hpp>

namespace vp {

struct MemberOpts {
  bool m3 = true, m4 = true, m5 = true, use_brackets = true, disjunctive = true;
};

// returns "" when sigma is (as far as observable) a member of gamma(A); else
// a short reason starting with M1..M5.
template <class Dom>
std::string member(const State &s, const Dom &A, const MemberOpts &mo = MemberOpts()) {
  using interval_t = ikos::interval<z_number>;
  using bound_t = ikos::bound<z_number>;
  if (A.is_bottom())
    return "M1 value is bottom but a concrete state exists";
  for (auto &kv : s.num) {
    const var_t &v = kv.first;
    interval_t i = A.at(v);
    if (i.is_bottom() || !(i.lb() <= bound_t(kv.second) && bound_t(kv.second) <= i.ub()))
      return "M2 at(" + to_str(v) + ")=" + to_str(i) + " misses " + kv.second.get_str();
  }
  if (mo.use_brackets) {
    Dom B(A);
    for (auto &kv : s.num) {
      interval_t i = B[kv.first];
      if (i.is_bottom() || !(i.lb() <= bound_t(kv.second) && bound_t(kv.second) <= i.ub()))
        return "M2 operator[](" + to_str(kv.first) + ")=" + to_str(i) + " misses " + kv.second.get_str();
    }
  }
  if (mo.m3) {
    auto csts = A.to_linear_constraint_system();
    for (auto &c : csts) {
      bool def;
      bool h = Interp::holds_in(c, s, def);
      if (def && !h)
        return "M3 exported constraint " + to_str(c) + " is false";
    }
    if (mo.disjunctive) try {
      auto dcsts = A.to_disjunctive_linear_constraint_system();
      if (dcsts.is_false())
        return "M3 disjunctive system is false";
      if (!dcsts.is_true()) {
        bool some = false;
        for (auto &sys : dcsts) {
          bool all = true;
          for (auto &c : sys) {
            bool def;
            bool h = Interp::holds_in(c, s, def);
            if (def && !h) {
              all = false;
              break;
            }
          }
          if (all) {
            some = true;
            break;
          }
        }
        if (!some)
          return "M3 no disjunct of " + to_str(dcsts) + " holds";
      }
    } catch (const verif::crab_error &) {
      // several domains raise CRAB_ERROR from this export ("cannot add true",
      // "not implemented"): no answer was given, so nothing to judge
      verif::R().diag("disjunctive_export_raised_crab_error");
    }
  }
  if (mo.m5) {
    for (auto &kv : s.num) {
      const var_t &v = kv.first;
      if (!v.get_type().is_integer())
        continue;
      if (A.entails(cst_t(lin_t(v) <= lin_t(kv.second - z_number(1)))))
        return "M5 entails(" + to_str(v) + " <= " + (kv.second - z_number(1)).get_str() + ") but value is " + kv.second.get_str();
      if (A.entails(cst_t(lin_t(v) >= lin_t(kv.second + z_number(1)))))
        return "M5 entails(" + to_str(v) + " >= " + (kv.second + z_number(1)).get_str() + ") but value is " + kv.second.get_str();
      if (A.entails(cst_t(lin_t(v) != lin_t(kv.second))))
        return "M5 entails(" + to_str(v) + " != " + kv.second.get_str() + ")";
    }
  }
  if (mo.m4) {
    Dom B(A);
    for (auto &kv : s.num) {
      const var_t &v = kv.first;
      if (v.get_type().is_bool())
        B.assume_bool(v, kv.second == 0);
      else {
        csts_t sys;
        sys += cst_t(lin_t(v) == lin_t(kv.second));
        B += sys;
      }
      if (B.is_bottom())
        return "M4 point meet became bottom when adding " + to_str(v) + "=" + kv.second.get_str();
    }
  }
  return "";
}

} // namespace vp
