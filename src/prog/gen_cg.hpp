// Call-graph generator (DESIGN.md section 2.5, gen_callgraph): 1-5 functions,
// each a CFG with a function_decl, built on top of vp::Gen (the statement and
// expression generators are reused; only the shape code is copied because Gen's
// shape functions call Gen::stmt non-virtually and we have to interleave call
// sites and statements that read the formal input parameters).
//
// Guarantees by construction:
//  * inputs and outputs of every function are disjoint;
//  * a callee never assigns its inputs (the assignable pool given to Gen::stmt
//    contains the locals only; inputs are only ever read);
//  * "main" has no inputs and is never called; every other function has at
//    least one caller with a smaller index unless it is a decoded "orphan"
//    (= a second call-graph entry);
//  * call sites are well typed (arity and types of the callee's declaration),
//    their lhs variables are pairwise distinct locals of the caller;
//  * function names are unique, assertion ids are unique over the program.
// Names: every variable of every function lives in ONE variable factory; a
// variable is named either privately ("f2_i1") or from a small shared pool
// ("i0".."i5", "p0".."p2", "w0","w1") so that caller/callee, formal/actual and
// lhs/formal names collide often. 0 bytes decode to private names.
#pragma once
#include "gen.hpp"

#include <algorithm>
#include <map>

namespace vp {

struct CGOpts {
  unsigned caps = CAP_NUM_ALL;
  int64_t const_cap = (int64_t)1 << 62;
  unsigned max_funcs = 5;
  unsigned max_blocks = 6;        // per function
  unsigned max_stmts_per_block = 3;
  unsigned rec_num = 4;           // recursion allowed in rec_num/16 of the programs
  bool allow_orphans = true;      // functions without callers (extra call-graph entries)
};

struct Func {
  std::string name;
  Program prog; // prog.ints / prog.bools / prog.wides = assignable locals
  std::vector<var_t> inputs, outputs;
  std::vector<var_t> loc_ints, loc_bools;   // copies of the assignable pools
  std::vector<var_t> all_ints, all_bools;   // readable pools (locals + inputs unless strict)
  std::vector<var_t> vars;                  // every scalar variable of the function
  bool strict_copyin = false; // inputs used once: `local := input` in the entry block
  bool orphan = false;
  unsigned n_sites = 0; // call sites inside this function
};

struct CallSiteInfo {
  unsigned caller, callee;
  bool actual_is_other_formal = false; // some actual is named like a formal at another position
  bool actual_is_same_formal = false;  // actual i is named like formal i
  bool repeated_actual = false;        // same variable passed twice
  bool lhs_is_arg = false;             // an lhs is also an argument
  bool lhs_is_callee_formal = false;   // an lhs is named like a formal (in or out) at another position
  bool back_edge = false;              // callee index <= caller index (recursion)
  // hazards of *sequential* formal/actual unification when names of the caller coincide with
  // formals of the callee at another position:
  //  h_args_entry: exists i<j: actual_j is named formal_i and actual_i is not formal_i
  //  h_args:       exists k!=m: actual_m is named in_formal_k and actual_k is not in_formal_k
  //  h_lhs:        some lhs_i is named like an input formal, or like out_formal_j with j>i
  bool h_args_entry = false, h_args = false, h_lhs = false;
  bool bool_lhs = false; // some lhs is a boolean
};

struct CGProgram {
  std::shared_ptr<variable_factory_t> vfac;
  std::vector<std::unique_ptr<Func>> funcs; // funcs[0] = main
  std::vector<CallSiteInfo> sites;
  std::vector<var_t> all_vars; // union of all functions' scalar variables (no duplicates)
  bool allow_self = false, allow_back = false;
  int64_t n_asserts = 0;
  unsigned n_loops = 0;
  bool has_recursion() const {
    for (auto &s : sites)
      if (s.back_edge)
        return true;
    return false;
  }
  unsigned sites_to(unsigned callee) const {
    unsigned n = 0;
    for (auto &s : sites)
      if (s.callee == callee)
        n++;
    return n;
  }
  bool share_names(unsigned a, unsigned b) const {
    for (auto &v : funcs[a]->vars)
      for (auto &w : funcs[b]->vars)
        if (v == w)
          return true;
    return false;
  }
};

class FGen : public Gen {
public:
  std::vector<var_t> last_lhs; // lhs of the most recently emitted call
  std::vector<var_t> last_args;
  unsigned last_callee = 0;
  CGProgram &cg;
  unsigned self;
  Func &f;
  std::vector<unsigned> pending; // callees that must be called from this function
  bool copyin_pending = false;

  FGen(verif::Tape &tape, const GenOpts &opts, CGProgram &c, unsigned idx)
      : Gen(tape, opts, c.funcs[idx]->prog), cg(c), self(idx), f(*c.funcs[idx]) {}

  // readable pools while in scope
  struct PoolAll {
    FGen &g;
    std::vector<var_t> si, sb;
    explicit PoolAll(FGen &gg) : g(gg), si(gg.p.ints), sb(gg.p.bools) {
      g.p.ints = g.f.all_ints;
      g.p.bools = g.f.all_bools;
    }
    ~PoolAll() {
      g.p.ints = si;
      g.p.bools = sb;
    }
  };

  var_t local_int() { return f.loc_ints[t.pick((unsigned)f.loc_ints.size())]; }
  var_t local_bool() { return f.loc_bools[t.pick((unsigned)f.loc_bools.size())]; }
  crab::cfg::debug_info next_dbg() {
    crab::cfg::debug_info d("verif", 1, 1, o.first_assert_id + p.n_asserts);
    p.n_asserts++;
    return d;
  }

  // ---- candidates for a call ------------------------------------------------------
  std::vector<unsigned> callee_candidates() {
    std::vector<unsigned> c;
    for (unsigned x : pending) {
      c.push_back(x);
      c.push_back(x);
    }
    for (unsigned x = self + 1; x < cg.funcs.size(); x++)
      if (!cg.funcs[x]->orphan)
        c.push_back(x);
    if (self > 0 && cg.allow_self) {
      c.push_back(self);
      c.push_back(self);
    }
    if (cg.allow_back)
      for (unsigned x = 1; x < self; x++)
        if (!cg.funcs[x]->orphan) {
          c.push_back(x);
          c.push_back(x);
        }
    return c;
  }

  bool can_call(const Func &cf) {
    unsigned ni = 0, nb = 0;
    for (auto &v : cf.outputs)
      (v.get_type().is_bool() ? nb : ni)++;
    if (ni > f.loc_ints.size() || nb > f.loc_bools.size())
      return false;
    for (auto &v : cf.inputs)
      if (v.get_type().is_bool() ? f.all_bools.empty() : f.all_ints.empty())
        return false;
    return true;
  }

  // emits `lhs.. = call cf(args..)`; first_int: forced first integer actual
  bool emit_call(block_t &b, unsigned c, const var_t *first_int = nullptr) {
    Func &cf = *cg.funcs[c];
    if (!can_call(cf))
      return false;
    std::vector<var_t> args, lhs;
    bool used_first = false;
    for (auto &formal : cf.inputs) {
      bool isb = formal.get_type().is_bool();
      const std::vector<var_t> &pool = isb ? f.all_bools : f.all_ints;
      if (!isb && first_int && !used_first) {
        args.push_back(*first_int);
        used_first = true;
        continue;
      }
      unsigned mode = t.pick(4);
      if (mode == 2 && !isb) {
        // a known constant as actual (informative, distinct calling contexts)
        var_t tmp = local_int();
        b.assign(tmp, lin_t(z_number(t.small_int(5))));
        args.push_back(tmp);
        continue;
      }
      if (mode == 3) {
        // prefer a caller variable named like some formal of the callee
        std::vector<var_t> coll;
        for (auto &v : pool)
          for (auto &w : cf.vars)
            if (v == w && (std::find(cf.inputs.begin(), cf.inputs.end(), w) != cf.inputs.end() ||
                           std::find(cf.outputs.begin(), cf.outputs.end(), w) != cf.outputs.end()))
              coll.push_back(v);
        if (!coll.empty()) {
          args.push_back(coll[t.pick((unsigned)coll.size())]);
          continue;
        }
      }
      args.push_back(pool[t.pick((unsigned)pool.size())]);
    }
    std::vector<var_t> li = f.loc_ints, lb = f.loc_bools;
    for (auto &formal : cf.outputs) {
      std::vector<var_t> &pool = formal.get_type().is_bool() ? lb : li;
      unsigned k = t.pick((unsigned)pool.size());
      lhs.push_back(pool[k]);
      pool.erase(pool.begin() + k);
    }
    b.callsite(cf.name, lhs, args);
    last_lhs = lhs;
    last_args = args;
    last_callee = c;
    pending.erase(std::remove(pending.begin(), pending.end(), c), pending.end());
    f.n_sites++;
    CallSiteInfo si;
    si.caller = self;
    si.callee = c;
    si.back_edge = c <= self;
    for (unsigned i = 0; i < args.size(); i++) {
      for (unsigned j = 0; j < args.size(); j++) {
        if (i != j && args[i] == args[j])
          si.repeated_actual = true;
        if (i != j && args[i] == cf.inputs[j])
          si.actual_is_other_formal = true;
      }
      if (args[i] == cf.inputs[i])
        si.actual_is_same_formal = true;
      for (auto &w : cf.outputs)
        if (args[i] == w)
          si.actual_is_other_formal = true;
      for (auto &l : lhs)
        if (l == args[i])
          si.lhs_is_arg = true;
    }
    for (unsigned i = 0; i < lhs.size(); i++) {
      for (unsigned j = 0; j < cf.outputs.size(); j++)
        if (i != j && lhs[i] == cf.outputs[j])
          si.lhs_is_callee_formal = true;
      for (auto &w : cf.inputs)
        if (lhs[i] == w)
          si.lhs_is_callee_formal = true;
    }
    for (unsigned k = 0; k < args.size(); k++)
      for (unsigned m = 0; m < args.size(); m++)
        if (k != m && args[m] == cf.inputs[k] && !(args[k] == cf.inputs[k])) {
          si.h_args = true;
          if (k < m)
            si.h_args_entry = true;
        }
    for (unsigned i = 0; i < lhs.size(); i++) {
      if (lhs[i].get_type().is_bool())
        si.bool_lhs = true;
      for (auto &w : cf.inputs)
        if (lhs[i] == w)
          si.h_lhs = true;
      for (unsigned j = i + 1; j < cf.outputs.size(); j++)
        if (lhs[i] == cf.outputs[j])
          si.h_lhs = true;
    }
    cg.sites.push_back(si);
    return true;
  }

  bool call_stmt(block_t &b) {
    std::vector<unsigned> c = callee_candidates();
    if (c.empty())
      return false;
    return emit_call(b, c[t.pick((unsigned)c.size())]);
  }

  // ---- statements ---------------------------------------------------------------------
  void input_stmt(block_t &b) {
    PoolAll sw(*this);
    var_t lhs = local_int();
    switch (t.pick(5)) {
    case 0: b.assign(lhs, linexp()); break;
    case 1: {
      var_t a = ivar();
      unsigned op = t.pick(3);
      bool varop = cap(CAP_NONLINEAR) ? t.pick(3) == 0 : (op != 2 && t.pick(3) == 0);
      if (varop) {
        var_t c = ivar();
        if (op == 0) b.add(lhs, a, c); else if (op == 1) b.sub(lhs, a, c); else b.mul(lhs, a, c);
      } else {
        z_number c = cnst();
        if (op == 0) b.add(lhs, a, c); else if (op == 1) b.sub(lhs, a, c); else b.mul(lhs, a, c);
      }
      break;
    }
    case 2:
      if (cap(CAP_SELECT)) b.select(lhs, constraint(), linexp(2), linexp(2));
      else b.assign(lhs, linexp());
      break;
    case 3:
      if (!f.loc_bools.empty()) { var_t l = local_bool(); var_t r = bvar(); b.bool_assign(l, r, t.flag()); }
      else b.assign(lhs, linexp());
      break;
    default:
      if (!f.loc_bools.empty()) { var_t l = local_bool(); b.bool_assign(l, constraint()); }
      else b.assign(lhs, linexp(1));
      break;
    }
  }

  void cond_stmt(block_t &b) {
    PoolAll sw(*this);
    if (!p.bools.empty() && t.pick(4) == 3) {
      var_t c = bvar();
      if (cap(CAP_ASSERT) && t.flag()) b.bool_assert(c, next_dbg());
      else if (t.flag()) b.bool_assume(c);
      else b.bool_not_assume(c);
      return;
    }
    if (cap(CAP_ASSERT) && t.pick(3) != 0) {
      cst_t c = assert_constraint();
      b.assertion(c, next_dbg());
    } else
      b.assume(remember(constraint()));
  }

  void fstmt(block_t &b) {
    unsigned k = t.pick(16);
    bool has_in = !f.strict_copyin && !f.inputs.empty();
    if (k < 6) { Gen::stmt(b); return; }
    if (k < 9) { if (has_in) input_stmt(b); else Gen::stmt(b); return; }
    if (k < 13) { cond_stmt(b); return; }
    if (!call_stmt(b)) {
      Gen::stmt(b);
      return;
    }
    // (tail choice) the same callee called again right away with a larger first integer actual:
    // a second calling context that contains, or lies next to, the first one
    {
      unsigned rc = t.tail_u8();
      if ((rc & 7) == 5) {
        const var_t *a = nullptr;
        for (auto &x : last_args)
          if (x.get_type().is_integer() && std::find(f.loc_ints.begin(), f.loc_ints.end(), x) != f.loc_ints.end()) {
            a = &x;
            break;
          }
        if (a) {
          var_t av = *a;
          unsigned callee = last_callee;
          switch ((rc >> 3) & 3) {
          case 0: b.havoc(av); break;
          case 1: b.havoc(av); b.assume(cst_t(lin_t(av) >= lin_t(z_number((int64_t)(rc >> 5)) - z_number(2)))); break;
          case 2: b.add(av, av, z_number(1 + (int64_t)(rc >> 5))); break;
          default: b.havoc(av); b.assume(cst_t(lin_t(av) <= lin_t(z_number((int64_t)(rc >> 5))))); break;
          }
          emit_call(b, callee, &av);
        }
      }
    }
    // often an assertion right after the call (about the returned values, typically)
    if (cap(CAP_ASSERT) && t.pick(3) == 1) {
      PoolAll sw(*this);
      cst_t c = assert_constraint();
      b.assertion(c, next_dbg());
    }
  }

  // ---- shapes (copies of Gen::new_block/region/guards/unstructured using fstmt) ----------
  void copy_in(block_t &b) {
    if (!copyin_pending)
      return;
    copyin_pending = false;
    for (auto &in : f.inputs) {
      if (in.get_type().is_bool()) {
        if (!f.loc_bools.empty())
          b.bool_assign(local_bool(), in, false);
      } else
        b.assign(local_int(), lin_t(in));
    }
  }

  block_t &fnew_block(bool with_stmts = true) {
    label_t l = o.label_prefix + "b" + std::to_string(next_label++);
    block_t &b = p.cfg->insert(l);
    p.labels.push_back(l);
    if (blocks_left > 0)
      blocks_left--;
    if (p.labels.size() == 1 && self > 0 && cap(CAP_ASSERT)) {
      // (tail choice) an assertion about an integer input, first thing in the callee: its verdict
      // depends on the calling contexts only
      unsigned ec = t.tail_u8();
      if ((ec & 3) == 2)
        for (auto &in : f.inputs)
          if (in.get_type().is_integer()) {
            z_number c((int64_t)((ec >> 4) & 7) - 3);
            switch ((ec >> 2) & 3) {
            case 0: b.assertion(cst_t(lin_t(in) <= lin_t(c)), next_dbg()); break;
            case 1: b.assertion(cst_t(lin_t(in) >= lin_t(c)), next_dbg()); break;
            case 2: b.assertion(cst_t(lin_t(in) != lin_t(c)), next_dbg()); break;
            default: b.assertion(cst_t(lin_t(in) <= lin_t(c + z_number(8))), next_dbg()); break;
            }
            break;
          }
    }
    copy_in(b);
    if (with_stmts) {
      unsigned n = t.pick(o.max_stmts_per_block + 1);
      for (unsigned i = 0; i < n; i++)
        fstmt(b);
    }
    return b;
  }

  void fguards(block_t &gt, block_t &ge) {
    PoolAll sw(*this);
    guards(gt, ge);
  }

  Reg fregion(unsigned depth) {
    unsigned kind = (blocks_left < 3 || depth > 3) ? 0 : t.pick(8);
    if (kind >= 6) {
      // guarded call: if (x > k) { d := x - 1; outs := call g(d, ...); } else { } ; join
      std::vector<unsigned> cands = callee_candidates();
      if (cands.empty() || f.all_ints.empty())
        kind = 2;
      else {
        unsigned c = cands[t.pick((unsigned)cands.size())];
        if (self > 0 && cg.allow_self && t.flag())
          c = self; // recursion with a decreasing argument and a base case
        if (!can_call(*cg.funcs[c]))
          kind = 2;
        else {
          p.n_ifs++;
          block_t &cb = fnew_block();
          label_t cl = cb.label();
          block_t &gt = fnew_block(false);
          block_t &ge = fnew_block(false);
          label_t gtl = gt.label(), gel = ge.label();
          var_t x = f.all_ints[t.pick((unsigned)f.all_ints.size())];
          if (!f.strict_copyin && t.pick(4) != 3)
            for (auto &in : f.inputs)
              if (in.get_type().is_integer()) {
                x = in; // the classic shape: f(n) { if (n > k) { ... f(n-1) ... } }
                break;
              }
          z_number k((int64_t)t.pick(3));
          gt.assume(cst_t(lin_t(x) >= lin_t(k + z_number(1))));
          ge.assume(cst_t(lin_t(x) <= lin_t(k)));
          var_t d = local_int();
          gt.sub(d, x, z_number(1));
          size_t site = cg.sites.size();
          emit_call(gt, c, &d);
          if (cg.sites.size() > site && !f.outputs.empty() && t.flag()) {
            // accumulate: own output := returned value + constant
            for (auto &l : last_lhs)
              if (l.get_type().is_integer()) {
                for (auto &out : f.outputs)
                  if (out.get_type().is_integer()) {
                    gt.add(out, l, z_number(1 + (int64_t)t.pick(3)));
                    break;
                  }
                break;
              }
          }
          unsigned n = t.pick(3);
          for (unsigned i = 0; i < n; i++)
            fstmt(gt);
          n = t.pick(3);
          for (unsigned i = 0; i < n; i++)
            fstmt(ge);
          if (t.flag()) { p.cfg->get_node(cl) >> p.cfg->get_node(gel); p.cfg->get_node(cl) >> p.cfg->get_node(gtl); }
          else { p.cfg->get_node(cl) >> p.cfg->get_node(gtl); p.cfg->get_node(cl) >> p.cfg->get_node(gel); }
          block_t &j = fnew_block();
          label_t jl = j.label();
          p.cfg->get_node(gtl) >> p.cfg->get_node(jl);
          p.cfg->get_node(gel) >> p.cfg->get_node(jl);
          return Reg{cl, jl};
        }
      }
    }
    switch (kind) {
    case 0:
    case 1: {
      block_t &b = fnew_block();
      Reg r{b.label(), b.label()};
      if (kind == 1 && blocks_left > 0) {
        Reg r2 = fregion(depth + 1);
        p.cfg->get_node(r.last) >> p.cfg->get_node(r2.first);
        r.last = r2.last;
      }
      return r;
    }
    case 2:
    case 3: {
      p.n_ifs++;
      block_t &c = fnew_block();
      label_t cl = c.label();
      block_t &gt = fnew_block(false);
      block_t &ge = fnew_block(false);
      label_t gtl = gt.label(), gel = ge.label();
      fguards(gt, ge);
      bool swap = t.flag();
      if (swap) { p.cfg->get_node(cl) >> p.cfg->get_node(gel); p.cfg->get_node(cl) >> p.cfg->get_node(gtl); }
      else { p.cfg->get_node(cl) >> p.cfg->get_node(gtl); p.cfg->get_node(cl) >> p.cfg->get_node(gel); }
      Reg rt = fregion(depth + 1);
      p.cfg->get_node(gtl) >> p.cfg->get_node(rt.first);
      label_t elast = gel;
      if (blocks_left > 1 && t.flag()) {
        Reg re = fregion(depth + 1);
        p.cfg->get_node(gel) >> p.cfg->get_node(re.first);
        elast = re.last;
      }
      block_t &j = fnew_block();
      label_t jl = j.label();
      p.cfg->get_node(rt.last) >> p.cfg->get_node(jl);
      p.cfg->get_node(elast) >> p.cfg->get_node(jl);
      return Reg{cl, jl};
    }
    default: {
      p.n_loops++;
      block_t &h = fnew_block(t.flag());
      label_t hl = h.label();
      block_t &gb = fnew_block(false);
      block_t &gx = fnew_block(false);
      label_t gbl = gb.label(), gxl = gx.label();
      fguards(gb, gx);
      bool swap = t.flag();
      if (swap) { p.cfg->get_node(hl) >> p.cfg->get_node(gxl); p.cfg->get_node(hl) >> p.cfg->get_node(gbl); }
      else { p.cfg->get_node(hl) >> p.cfg->get_node(gbl); p.cfg->get_node(hl) >> p.cfg->get_node(gxl); }
      Reg body = fregion(depth + 1);
      p.cfg->get_node(gbl) >> p.cfg->get_node(body.first);
      p.cfg->get_node(body.last) >> p.cfg->get_node(hl);
      unsigned n = t.pick(3);
      for (unsigned i = 0; i < n; i++)
        fstmt(p.cfg->get_node(gxl));
      return Reg{hl, gxl};
    }
    }
  }

  void funstructured(unsigned n) {
    std::vector<label_t> ls;
    for (unsigned i = 0; i < n; i++) {
      block_t &b = fnew_block(false);
      ls.push_back(b.label());
      if (t.pick(3) == 0) {
        PoolAll sw(*this);
        b.assume(constraint());
      }
      unsigned k = t.pick(o.max_stmts_per_block + 1);
      for (unsigned j = 0; j < k; j++)
        fstmt(b);
    }
    unsigned extra = t.pick(n + 2);
    std::vector<std::pair<unsigned, unsigned>> es;
    for (unsigned i = 0; i + 1 < n; i++)
      if (t.pick(8) != 7)
        es.push_back({i, i + 1});
    for (unsigned i = 0; i < extra; i++)
      es.push_back({t.pick(n), t.pick(n)});
    if (t.flag())
      std::reverse(es.begin(), es.end());
    for (auto &e : es)
      p.cfg->get_node(ls[e.first]) >> p.cfg->get_node(ls[e.second]);
  }

  void build_fn() {
    bool unstruct = cap(CAP_UNSTRUCTURED) && t.pick(4) == 3;
    p.structured = !unstruct;
    label_t entry = o.label_prefix + "b0";
    p.cfg.reset(new cfg_t(entry));
    copyin_pending = f.strict_copyin && !f.inputs.empty();
    if (!unstruct) {
      Reg r = fregion(0);
      p.cfg->set_exit(r.last);
    } else {
      unsigned n = 2 + t.pick(o.max_blocks - 1);
      funstructured(n);
      p.cfg->set_exit(p.labels.back());
    }
    // calls that must exist (so that every non-orphan function has a caller)
    while (!pending.empty()) {
      unsigned c = pending.front();
      block_t &b = p.cfg->get_node(p.labels[t.pick((unsigned)p.labels.size())]);
      if (!emit_call(b, c))
        pending.erase(pending.begin()); // cannot be typed from here: the callee stays uncalled
    }
    // outputs: usually defined from the readable variables at the exit
    {
      block_t &ex = p.cfg->get_node(p.cfg->exit());
      PoolAll sw(*this);
      for (auto &out : f.outputs) {
        if (out.get_type().is_bool()) {
          if (t.pick(3) != 2)
            ex.bool_assign(out, constraint());
          continue;
        }
        switch (t.pick(4)) {
        case 0: ex.assign(out, linexp(2)); break;
        case 1: { var_t a = ivar(); ex.add(out, a, cnst()); break; }
        case 2: break;
        default: ex.assign(out, lin_t(ivar())); break;
        }
      }
    }
    p.cfg->set_func_decl(fdecl_t(f.name, f.inputs, f.outputs));
  }
};

// Decodes a whole program. `gopts` carries caps/const_cap; per-function label and
// name prefixes and assertion ids are set here.
inline void gen_callgraph(verif::Tape &t, const CGOpts &co, CGProgram &cg) {
  cg.vfac = std::make_shared<variable_factory_t>();
  auto &vf = *cg.vfac;
  static const unsigned ntab[] = {2, 3, 1, 4, 5, 2, 3, 4};
  unsigned n = ntab[t.pick(8)];
  if (n > co.max_funcs)
    n = co.max_funcs;
  unsigned rm = t.pick(16);
  // 0 -> no recursion; the top values enable direct, then direct+mutual recursion
  cg.allow_self = rm >= 16 - co.rec_num;
  cg.allow_back = rm >= 16 - co.rec_num / 2;
  const bool has_bool = (co.caps & CAP_BOOL) != 0, has_wide = (co.caps & CAP_CAST) != 0;

  // ---- declarations: variables and signatures of all functions first -------------------
  std::vector<std::vector<unsigned>> required(n);
  for (unsigned k = 0; k < n; k++) {
    cg.funcs.emplace_back(new Func());
    Func &f = *cg.funcs.back();
    f.name = k == 0 ? std::string("main") : "f" + std::to_string(k);
    f.prog.vfac = cg.vfac;
    unsigned rot_i = t.pick(6), rot_b = t.pick(3), used_i = 0, used_b = 0, used_w = 0, priv = 0;
    auto mk_int = [&]() {
      std::string nm;
      if (t.pick(3) != 0 && used_i < 6)
        nm = "i" + std::to_string((rot_i + used_i++) % 6);
      else
        nm = f.name + "_i" + std::to_string(priv++);
      return var_t(vf[nm], crab::INT_TYPE, 32);
    };
    auto mk_bool = [&]() {
      std::string nm;
      if (t.pick(3) != 0 && used_b < 3)
        nm = "p" + std::to_string((rot_b + used_b++) % 3);
      else
        nm = f.name + "_p" + std::to_string(priv++);
      return var_t(vf[nm], crab::BOOL_TYPE, 1);
    };
    auto mk_wide = [&]() {
      std::string nm;
      if (t.pick(3) != 0 && used_w < 2)
        nm = "w" + std::to_string(used_w++);
      else
        nm = f.name + "_w" + std::to_string(priv++);
      return var_t(vf[nm], crab::INT_TYPE, 64);
    };
    unsigned nloc = 2 + t.pick(4);
    for (unsigned i = 0; i < nloc; i++)
      f.prog.ints.push_back(mk_int());
    if (has_wide)
      f.prog.wides.push_back(mk_wide());
    if (has_bool) {
      unsigned nb = 1 + t.pick(2);
      for (unsigned i = 0; i < nb; i++)
        f.prog.bools.push_back(mk_bool());
    }
    f.loc_ints = f.prog.ints;
    f.loc_bools = f.prog.bools;
    static const unsigned in_tab[] = {1, 2, 0, 3, 2, 1}, out_tab[] = {1, 1, 2, 0, 1, 2};
    unsigned nin = 0, nout = 0;
    if (k == 0)
      nout = t.pick(2);
    else {
      nin = in_tab[t.pick(6)];
      nout = out_tab[t.pick(6)];
    }
    // outputs are designated locals (assignable); inputs are extra read-only variables
    std::vector<var_t> li = f.loc_ints, lb = f.loc_bools;
    for (unsigned i = 0; i < nout; i++) {
      bool isb = has_bool && lb.size() > 0 && t.pick(4) == 3;
      std::vector<var_t> &pool = isb ? lb : li;
      if (pool.empty())
        break;
      unsigned j = t.pick((unsigned)pool.size());
      f.outputs.push_back(pool[j]);
      pool.erase(pool.begin() + j);
    }
    for (unsigned i = 0; i < nin; i++) {
      bool isb = has_bool && t.pick(4) == 3;
      f.inputs.push_back(isb ? mk_bool() : mk_int());
    }
    f.strict_copyin = k > 0 && t.pick(4) == 1;
    f.all_ints = f.loc_ints;
    f.all_bools = f.loc_bools;
    if (!f.strict_copyin)
      for (auto &v : f.inputs)
        (v.get_type().is_bool() ? f.all_bools : f.all_ints).push_back(v);
    f.vars = f.prog.all_scalar_vars();
    f.vars.insert(f.vars.end(), f.inputs.begin(), f.inputs.end());
    if (k > 0) {
      f.orphan = co.allow_orphans && t.pick(16) == 15;
      if (!f.orphan) {
        // a caller with a smaller index that is not an orphan-only... any earlier function
        unsigned parent = t.pick(k);
        required[parent].push_back(k);
      }
    }
    for (auto &v : f.vars)
      if (std::find(cg.all_vars.begin(), cg.all_vars.end(), v) == cg.all_vars.end())
        cg.all_vars.push_back(v);
  }

  // ---- bodies ------------------------------------------------------------------------------
  for (unsigned k = 0; k < n; k++) {
    Func &f = *cg.funcs[k];
    GenOpts go;
    go.caps = co.caps & ~(unsigned)CAP_CALL_INTRA;
    go.const_cap = co.const_cap;
    go.max_blocks = co.max_blocks;
    go.max_stmts_per_block = co.max_stmts_per_block;
    go.force_exit = true;
    go.label_prefix = (k == 0 ? std::string("m") : "f" + std::to_string(k)) + "_";
    go.first_assert_id = cg.n_asserts;
    FGen g(t, go, cg, k);
    g.pending = required[k];
    g.build_fn();
    cg.n_asserts += f.prog.n_asserts;
    cg.n_loops += f.prog.n_loops;
  }
}

} // namespace vp
