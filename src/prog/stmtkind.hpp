#pragma once
#include "lang.hpp"
namespace vp {
inline std::string stmt_kind(stmt_t &s) {
  using V = crab::cfg::statement_visitor<label_t, z_number, varname_t>;
  if (s.is_bin_op()) {
    auto &b = static_cast<V::bin_op_t &>(s);
    static const char *n[] = {"add", "sub", "mul", "sdiv", "udiv", "srem", "urem", "and", "or", "xor", "shl", "lshr", "ashr"};
    std::string r = std::string("binop_") + n[(int)b.op()];
    if (b.right().is_constant())
      r += "_k";
    return r;
  }
  if (s.is_assign()) return "assign";
  if (s.is_assume()) return "assume";
  if (s.is_select()) return "select";
  if (s.is_assert()) return "assert";
  if (s.is_int_cast()) {
    auto &c = static_cast<V::int_cast_t &>(s);
    static const char *n[] = {"trunc", "sext", "zext"};
    std::string r = std::string("cast_") + n[(int)c.op()];
    if (c.src().get_type().is_bool()) r += "_frombool";
    if (c.dst().get_type().is_bool()) r += "_tobool";
    return r;
  }
  if (s.is_havoc()) return "havoc";
  if (s.is_unreachable()) return "unreachable";
  if (s.is_arr_init()) return "arr_init";
  if (s.is_arr_read()) return "arr_load";
  if (s.is_arr_write()) return "arr_store";
  if (s.is_arr_assign()) return "arr_assign";
  if (s.is_bool_bin_op()) return "bool_binop";
  if (s.is_bool_assign_cst()) return "bool_assign_cst";
  if (s.is_bool_assign_var()) return "bool_assign_var";
  if (s.is_bool_assume()) return "bool_assume";
  if (s.is_bool_assert()) return "bool_assert";
  if (s.is_bool_select()) return "bool_select";
  if (s.is_callsite()) return "callsite";
  if (s.is_intrinsic()) return "intrinsic";
  if (s.is_ref_make()) return "ref_make";
  if (s.is_ref_remove()) return "ref_remove";
  if (s.is_ref_load()) return "ref_load";
  if (s.is_ref_store()) return "ref_store";
  if (s.is_ref_gep()) return "ref_gep";
  if (s.is_ref_assume()) return "ref_assume";
  if (s.is_ref_assert()) return "ref_assert";
  if (s.is_ref_select()) return "ref_select";
  if (s.is_ref_to_int()) return "ref_to_int";
  if (s.is_int_to_ref()) return "int_to_ref";
  if (s.is_region_init()) return "region_init";
  if (s.is_region_copy()) return "region_copy";
  if (s.is_region_cast()) return "region_cast";
  return "other";
}
} // namespace vp
