// Domain roster (DESIGN.md section 2.6). One harness binary per domain:
// the Makefile passes -DVERIF_VARIANT_<name>. Instantiations follow
// tests/crab_dom.hpp.
#pragma once
#include "gen.hpp"
#include "lang.hpp"

#include <crab/domains/abstract_domain_params.hpp>
#include <crab/domains/array_adaptive.hpp>
#include <crab/domains/array_smashing.hpp>
#include <crab/domains/combined_congruences.hpp>
#include <crab/domains/combined_domains.hpp>
#include <crab/domains/constant_domain.hpp>
#include <crab/domains/dis_intervals.hpp>
#include <crab/domains/fixed_tvpi_domain.hpp>
#include <crab/domains/flat_boolean_domain.hpp>
#include <crab/domains/generic_abstract_domain.hpp>
#include <crab/domains/intervals.hpp>
#include <crab/domains/lookahead_widening_domain.hpp>
#include <crab/domains/numerical_packing.hpp>
#include <crab/domains/powerset_domain.hpp>
#include <crab/domains/sign_constant_domain.hpp>
#include <crab/domains/sign_domain.hpp>
#include <crab/domains/sparse_dbm.hpp>
#include <crab/domains/split_dbm.hpp>
#include <crab/domains/split_oct.hpp>
#include <crab/domains/term_equiv.hpp>
#include <crab/domains/uf_domain.hpp>
#include <crab/domains/value_partitioning_domain.hpp>
#include <crab/domains/wrapped_interval_domain.hpp>

namespace vp {
using namespace crab::domains;
using namespace ikos;

using interval_dom_t = interval_domain<z_number, varname_t>;
using constant_dom_t = constant_domain<z_number, varname_t>;
using sign_dom_t = sign_domain<z_number, varname_t>;
using sign_constant_dom_t = sign_constant_domain<z_number, varname_t>;
using ric_dom_t = numerical_congruence_domain<interval_dom_t>;
using dis_interval_dom_t = dis_interval_domain<z_number, varname_t>;
// NOTE: DefaultParams uses int64_t weights (overflow unchecked, documented in
// graph_config.hpp); BigNumDefaultParams uses z_number weights; SafeInt64 raises.
using z_graph_t = DBM_impl::DefaultParams<z_number, DBM_impl::GraphRep::adapt_ss>;
using z_graph_ss_t = DBM_impl::DefaultParams<z_number, DBM_impl::GraphRep::ss>;
using z_graph_pt_t = DBM_impl::DefaultParams<z_number, DBM_impl::GraphRep::pt>;
using z_graph_ht_t = DBM_impl::DefaultParams<z_number, DBM_impl::GraphRep::ht>;
using big_graph_t = DBM_impl::BigNumDefaultParams<z_number>;
using safe_graph_t = DBM_impl::SafeInt64DefaultParams<z_number, DBM_impl::GraphRep::adapt_ss>;
using dbm_dom_t = sparse_dbm_domain<z_number, varname_t, z_graph_t>;
using sdbm_dom_t = split_dbm_domain<z_number, varname_t, z_graph_t>;
using soct_dom_t = split_oct_domain<z_number, varname_t, z_graph_t>;
using term_int_dom_t = term_domain<term::TDomInfo<z_number, varname_t, interval_dom_t>>;
using term_sdbm_dom_t = term_domain<term::TDomInfo<z_number, varname_t, sdbm_dom_t>>;
using term_dis_int_dom_t = term_domain<term::TDomInfo<z_number, varname_t, dis_interval_dom_t>>;
using num_prod_dom_t = reduced_numerical_domain_product2<term_dis_int_dom_t, sdbm_dom_t>;
using fixed_tvpi_dom_t = fixed_tvpi_domain<sdbm_dom_t>;
using bool_int_dom_t = flat_boolean_numerical_domain<interval_dom_t>;
using bool_dbm_dom_t = flat_boolean_numerical_domain<dbm_dom_t>;
using bool_sdbm_dom_t = flat_boolean_numerical_domain<sdbm_dom_t>;
using soct_lw_dom_t = lookahead_widening_domain<soct_dom_t>;
using aa_int_dom_t = array_adaptive_domain<interval_dom_t>;
using aa_bool_int_dom_t = array_adaptive_domain<bool_int_dom_t>;
using aa_sdbm_dom_t = array_adaptive_domain<sdbm_dom_t>;
using as_dis_int_dom_t = array_smashing<dis_interval_dom_t>;
using as_sdbm_dom_t = array_smashing<sdbm_dom_t>;
using as_bool_int_dom_t = array_smashing<bool_int_dom_t>;
using pow_int_dom_t = powerset_domain<interval_dom_t>;
#ifdef VERIF_GENERIC_VALUE
using generic_dom_t = abstract_domain<var_t>;
#else
using generic_dom_t = abstract_domain_ref<var_t>;
#endif

constexpr unsigned NUM_BASE = CAP_ARITH | CAP_DIV | CAP_UNSIGNED | CAP_BITWISE | CAP_CAST | CAP_SELECT | CAP_HAVOC |
                              CAP_UNREACHABLE | CAP_ASSERT | CAP_NONLINEAR | CAP_DISEQ | CAP_UNSTRUCTURED | CAP_CALL_INTRA;

#if defined(VERIF_VARIANT_interval)
#define VERIF_EXACT_GAMMA 1
using dom_t = interval_dom_t;
constexpr unsigned DOM_CAPS = NUM_BASE | CAP_BIGCONST;
#elif defined(VERIF_VARIANT_constant)
using dom_t = constant_dom_t;
constexpr unsigned DOM_CAPS = NUM_BASE | CAP_BIGCONST;
#elif defined(VERIF_VARIANT_sign)
using dom_t = sign_dom_t;
constexpr unsigned DOM_CAPS = NUM_BASE | CAP_BIGCONST;
#elif defined(VERIF_VARIANT_signconst)
using dom_t = sign_constant_dom_t;
constexpr unsigned DOM_CAPS = NUM_BASE | CAP_BIGCONST;
#elif defined(VERIF_VARIANT_ric)
using dom_t = ric_dom_t;
constexpr unsigned DOM_CAPS = NUM_BASE | CAP_BIGCONST;
#elif defined(VERIF_VARIANT_disint)
using dom_t = dis_interval_dom_t;
constexpr unsigned DOM_CAPS = NUM_BASE | CAP_BIGCONST;
#elif defined(VERIF_VARIANT_dbm)
#define VERIF_EXACT_GAMMA 1
using dom_t = dbm_dom_t;
constexpr unsigned DOM_CAPS = NUM_BASE;
#define VERIF_CONST_CAP 1000000
#define VERIF_INT64_WEIGHTS 1
#elif defined(VERIF_VARIANT_sdbm)
#define VERIF_EXACT_GAMMA 1
using dom_t = sdbm_dom_t;
constexpr unsigned DOM_CAPS = NUM_BASE;
#define VERIF_CONST_CAP 1000000
#define VERIF_INT64_WEIGHTS 1
#elif defined(VERIF_VARIANT_sdbm_ss)
#define VERIF_EXACT_GAMMA 1
using dom_t = split_dbm_domain<z_number, varname_t, z_graph_ss_t>;
constexpr unsigned DOM_CAPS = NUM_BASE;
#define VERIF_CONST_CAP 1000000
#define VERIF_INT64_WEIGHTS 1
#elif defined(VERIF_VARIANT_sdbm_pt)
#define VERIF_EXACT_GAMMA 1
using dom_t = split_dbm_domain<z_number, varname_t, z_graph_pt_t>;
constexpr unsigned DOM_CAPS = NUM_BASE;
#define VERIF_CONST_CAP 1000000
#define VERIF_INT64_WEIGHTS 1
#elif defined(VERIF_VARIANT_sdbm_ht)
#define VERIF_EXACT_GAMMA 1
using dom_t = split_dbm_domain<z_number, varname_t, z_graph_ht_t>;
constexpr unsigned DOM_CAPS = NUM_BASE;
#define VERIF_CONST_CAP 1000000
#define VERIF_INT64_WEIGHTS 1
#elif defined(VERIF_VARIANT_sdbm_z)
#define VERIF_EXACT_GAMMA 1
using dom_t = split_dbm_domain<z_number, varname_t, big_graph_t>;
constexpr unsigned DOM_CAPS = NUM_BASE | CAP_BIGCONST;
#elif defined(VERIF_VARIANT_soct_z)
#define VERIF_EXACT_GAMMA 1
using dom_t = split_oct_domain<z_number, varname_t, big_graph_t>;
constexpr unsigned DOM_CAPS = NUM_BASE | CAP_BIGCONST;
#elif defined(VERIF_VARIANT_sdbm_safe)
#define VERIF_EXACT_GAMMA 1
using dom_t = split_dbm_domain<z_number, varname_t, safe_graph_t>;
constexpr unsigned DOM_CAPS = NUM_BASE;
#define VERIF_CONST_CAP 1000000
#define VERIF_INT64_WEIGHTS 1
#elif defined(VERIF_VARIANT_soct)
#define VERIF_EXACT_GAMMA 1
using dom_t = soct_dom_t;
constexpr unsigned DOM_CAPS = NUM_BASE;
#define VERIF_CONST_CAP 1000000
#define VERIF_INT64_WEIGHTS 1
#elif defined(VERIF_VARIANT_term_int)
using dom_t = term_int_dom_t;
constexpr unsigned DOM_CAPS = NUM_BASE | CAP_BIGCONST;
#elif defined(VERIF_VARIANT_term_sdbm)
using dom_t = term_sdbm_dom_t;
constexpr unsigned DOM_CAPS = NUM_BASE;
#define VERIF_CONST_CAP 1000000
#define VERIF_INT64_WEIGHTS 1
#elif defined(VERIF_VARIANT_term_disint)
using dom_t = term_dis_int_dom_t;
constexpr unsigned DOM_CAPS = NUM_BASE | CAP_BIGCONST;
#elif defined(VERIF_VARIANT_numprod)
using dom_t = num_prod_dom_t;
constexpr unsigned DOM_CAPS = NUM_BASE;
#define VERIF_CONST_CAP 1000000
#define VERIF_INT64_WEIGHTS 1
#elif defined(VERIF_VARIANT_tvpi)
using dom_t = fixed_tvpi_dom_t;
constexpr unsigned DOM_CAPS = NUM_BASE;
#define VERIF_CONST_CAP 1000000
#define VERIF_INT64_WEIGHTS 1
#elif defined(VERIF_VARIANT_bool_int)
using dom_t = bool_int_dom_t;
constexpr unsigned DOM_CAPS = NUM_BASE | CAP_BIGCONST | CAP_BOOL;
#elif defined(VERIF_VARIANT_bool_sdbm)
using dom_t = bool_sdbm_dom_t;
constexpr unsigned DOM_CAPS = NUM_BASE | CAP_BOOL;
#define VERIF_CONST_CAP 1000000
#define VERIF_INT64_WEIGHTS 1
#elif defined(VERIF_VARIANT_soct_lw)
using dom_t = soct_lw_dom_t;
constexpr unsigned DOM_CAPS = NUM_BASE;
#define VERIF_CONST_CAP 1000000
#define VERIF_INT64_WEIGHTS 1
#elif defined(VERIF_VARIANT_pow_int)
using dom_t = pow_int_dom_t;
constexpr unsigned DOM_CAPS = NUM_BASE | CAP_BIGCONST;
#elif defined(VERIF_VARIANT_aa_int)
using dom_t = aa_int_dom_t;
constexpr unsigned DOM_CAPS = NUM_BASE | CAP_BIGCONST | CAP_ARRAY;
#elif defined(VERIF_VARIANT_aa_bool_int)
using dom_t = aa_bool_int_dom_t;
constexpr unsigned DOM_CAPS = NUM_BASE | CAP_BIGCONST | CAP_ARRAY | CAP_BOOL;
#elif defined(VERIF_VARIANT_aa_sdbm)
using dom_t = aa_sdbm_dom_t;
constexpr unsigned DOM_CAPS = NUM_BASE | CAP_ARRAY;
#define VERIF_CONST_CAP 1000000
#define VERIF_INT64_WEIGHTS 1
#elif defined(VERIF_VARIANT_as_disint)
using dom_t = as_dis_int_dom_t;
constexpr unsigned DOM_CAPS = NUM_BASE | CAP_BIGCONST | CAP_ARRAY;
#elif defined(VERIF_VARIANT_as_sdbm)
using dom_t = as_sdbm_dom_t;
constexpr unsigned DOM_CAPS = NUM_BASE | CAP_ARRAY;
#define VERIF_CONST_CAP 1000000
#define VERIF_INT64_WEIGHTS 1
#elif defined(VERIF_VARIANT_as_bool_int)
using dom_t = as_bool_int_dom_t;
constexpr unsigned DOM_CAPS = NUM_BASE | CAP_BIGCONST | CAP_ARRAY | CAP_BOOL;
#elif defined(VERIF_VARIANT_pack_sdbm)
using dom_t = numerical_packing_domain<sdbm_dom_t>;
constexpr unsigned DOM_CAPS = NUM_BASE;
#define VERIF_CONST_CAP 1000000
#define VERIF_INT64_WEIGHTS 1
#elif defined(VERIF_VARIANT_pack_int)
using dom_t = numerical_packing_domain<interval_dom_t>;
constexpr unsigned DOM_CAPS = NUM_BASE | CAP_BIGCONST;
#elif defined(VERIF_VARIANT_wint)
using dom_t = wrapped_interval_domain<z_number, varname_t>;
constexpr unsigned DOM_CAPS = (NUM_BASE & ~CAP_CALL_INTRA) | CAP_SIMPLE_CST | CAP_BIGCONST;
#define VERIF_WRAPPED 1
// constants must be representable in the (signed) width of the 32-bit variables:
// a condition x <= 2^31 has no agreed meaning on a 32-bit x
#define VERIF_CONST_CAP 2147483647
#else
#error "unknown VERIF_VARIANT domain"
#endif

#ifndef VERIF_CONST_CAP
#define VERIF_CONST_CAP ((int64_t)1 << 62)
#endif

} // namespace vp
