// Concrete reference interpreter for CrabIR (DESIGN.md section 2.3).
// It walks Crab's own statement objects through the statement_visitor API, so
// it can execute both generated and transformed CFGs.  Every point where the
// documentation is silent is resolved in the direction that only weakens the
// oracles: the execution is *truncated* ("outside the model"), never judged.
#pragma once
#include "../core/tape.hpp"
#include "lang.hpp"

#include <functional>
#include <map>
#include <set>
#include <string>
#include <vector>

namespace vp {

struct State {
  std::map<var_t, z_number> num; // integer and boolean (0/1) variables
  // array contents: byte offset -> value; only cells written on this execution
  std::map<var_t, std::map<z_number, z_number>> arr;
  // arrays whose content is completely unknown (never initialised/copied from unknown)
  std::string str() const {
    std::string s = "{";
    bool first = true;
    for (auto &kv : num) {
      if (!first)
        s += ", ";
      first = false;
      s += to_str(kv.first) + "=" + kv.second.get_str();
    }
    for (auto &kv : arr) {
      if (!first)
        s += ", ";
      first = false;
      s += to_str(kv.first) + "=[";
      bool f2 = true;
      for (auto &c : kv.second) {
        if (!f2)
          s += ",";
        f2 = false;
        s += c.first.get_str() + ":" + c.second.get_str();
      }
      s += "]";
    }
    return s + "}";
  }
};

enum class Stop {
  None,
  Blocked,      // assume false / unreachable / division by zero
  AssertFailed, // a failing assertion ends the execution
  Outside,      // left the concrete model (truncated; nothing judged after)
  StepLimit,
  NoSuccessor, // reached a block without successors (e.g. the exit)
};
inline const char *stop_name(Stop s) {
  switch (s) {
  case Stop::None: return "none";
  case Stop::Blocked: return "blocked";
  case Stop::AssertFailed: return "assert-failed";
  case Stop::Outside: return "outside-model";
  case Stop::StepLimit: return "step-limit";
  default: return "no-successor";
  }
}

inline bool state_has_large_value(const State &s, unsigned bits = 40) {
  z_number lim = z_number(1) << z_number((int64_t)bits);
  for (auto &kv : s.num)
    if (kv.second > lim || kv.second < -lim)
      return true;
  return false;
}

struct Observer {
  virtual ~Observer() {}
  virtual void block_entry(const cfg_t &, const label_t &, const State &) {}
  // idx = position of the statement in its block
  virtual void after_stmt(const cfg_t &, const label_t &, unsigned idx, stmt_t &, const State &) {}
  virtual void block_exit(const cfg_t &, const label_t &, const State &) {}
  // an assertion statement was reached in state s; holds = its condition is true
  virtual void assertion(const cfg_t &, stmt_t &, bool holds, const State &) {}
  // an assume-like condition was evaluated
  virtual void condition(const cfg_t &, stmt_t &, bool outcome, const State &) {}
  // a call returned: callee cfg, inputs (formal->value), outputs (formal->value)
  virtual void call_returned(const cfg_t &callee, const State &inputs, const State &outputs) {}
};

class Interp : public crab::cfg::statement_visitor<label_t, z_number, varname_t> {
public:
  verif::Tape &tape;
  Observer *obs = nullptr;
  unsigned steps = 0, max_steps = 200, max_blocks = 60;
  unsigned depth = 0, max_depth = 6;
  std::string outside_reason;
  // inter-procedural mode: function name -> cfg
  std::map<std::string, cfg_t *> funcs;
  bool inter = false;
  // value source for arbitrary values
  int big_chance = 24; // out of 256
  unsigned blocks_visited = 0;
  std::vector<label_t> path;
  // optional: called at depth 0 before a block is entered; false stops the execution there
  std::function<bool(const label_t &, const State &)> block_filter;

  explicit Interp(verif::Tape &t) : tape(t) {}

  // machine-integer mode (wrapped domains, property C13): every integer variable
  // holds the SIGNED value of a w-bit vector, w = the variable's bit width
  bool machine_ints = false;
  unsigned wrap_events = 0; // writes whose mathematical result did not fit
  static z_number p2(unsigned k) { return z_number(1) << z_number((int64_t)k); }
  static z_number to_unsigned(const z_number &v, unsigned w) {
    z_number m = p2(w), r = v % m;
    if (r < 0)
      r = r + m;
    return r;
  }
  static z_number to_signed(const z_number &v, unsigned w) {
    z_number u = to_unsigned(v, w);
    return u >= p2(w - 1) ? u - p2(w) : u;
  }
  z_number wrapv(const z_number &v, const var_t &x) {
    if (!machine_ints || !x.get_type().is_integer())
      return v;
    z_number r = to_signed(v, x.get_type().get_integer_bitwidth());
    if (r != v)
      wrap_events++;
    return r;
  }

  z_number arbitrary_int() {
    unsigned k = tape.u8();
    if (k < (unsigned)big_chance)
      return z_number(tape.i64_pool());
    if (k < 128)
      return z_number(tape.small_int(4));
    return z_number(tape.small_int(12));
  }
  z_number arbitrary_for(const var_t &v) {
    if (v.get_type().is_bool())
      return z_number((int64_t)(tape.u8() & 1));
    if (machine_ints && v.get_type().is_integer())
      return to_signed(arbitrary_int(), v.get_type().get_integer_bitwidth());
    return arbitrary_int();
  }

  // ---- evaluation helpers --------------------------------------------------
  z_number get(const var_t &v) {
    auto it = st->num.find(v);
    if (it != st->num.end())
      return it->second;
    // uninitialised read: arbitrary but from now on fixed
    z_number x = arbitrary_for(v);
    st->num[v] = x;
    return x;
  }
  z_number eval(const lin_t &e) {
    z_number r = e.constant();
    for (auto it = e.begin(); it != e.end(); ++it) {
      auto c = *it;
      r = r + c.first * get(c.second);
    }
    return r;
  }
  bool holds(const cst_t &c) {
    z_number x = eval(c.expression());
    switch (c.kind()) {
    case cst_t::EQUALITY: return x == 0;
    case cst_t::DISEQUATION: return x != 0;
    case cst_t::INEQUALITY: return x <= 0;
    default: return x < 0;
    }
  }
  static bool holds_in(const cst_t &c, const State &s, bool &defined) {
    z_number r = c.expression().constant();
    defined = true;
    for (auto it = c.expression().begin(); it != c.expression().end(); ++it) {
      auto comp = *it;
      auto f = s.num.find(comp.second);
      if (f == s.num.end()) {
        defined = false;
        return true;
      }
      r = r + comp.first * f->second;
    }
    switch (c.kind()) {
    case cst_t::EQUALITY: return r == 0;
    case cst_t::DISEQUATION: return r != 0;
    case cst_t::INEQUALITY: return r <= 0;
    default: return r < 0;
    }
  }

  // ---- driver ----------------------------------------------------------------
  // Runs from block `start` in state s (modified in place). Returns the reason
  // why the execution ended.
  Stop run(cfg_t &cfg, const label_t &start, State &s) {
    State *saved_st = st;
    cfg_t *saved_cfg = cur_cfg;
    st = &s;
    cur_cfg = &cfg;
    label_t cur = start;
    Stop res = Stop::None;
    for (;;) {
      if (blocks_visited++ >= max_blocks) {
        res = Stop::StepLimit;
        break;
      }
      if (depth == 0)
        path.push_back(cur);
      block_t &b = cfg.get_node(cur);
      if (depth == 0 && block_filter && !block_filter(cur, s)) {
        // the analysis was told to assume something at this block that this state violates:
        // the execution is not among those the analysis describes
        res = Stop::Blocked;
        if (!path.empty())
          path.pop_back();
        break;
      }
      if (obs)
        obs->block_entry(cfg, cur, s);
      stop = Stop::None;
      unsigned idx = 0;
      for (auto &stmt : b) {
        if (steps++ >= max_steps) {
          stop = Stop::StepLimit;
          break;
        }
        cur_label = cur;
        stmt.accept(this);
        if (stop != Stop::None)
          break;
        if (obs)
          obs->after_stmt(cfg, cur, idx, stmt, s);
        idx++;
      }
      if (stop != Stop::None) {
        res = stop;
        break;
      }
      if (obs)
        obs->block_exit(cfg, cur, s);
      // successors
      std::vector<label_t> succs;
      for (auto const &n : boost::make_iterator_range(b.next_blocks()))
        succs.push_back(n);
      if (succs.empty() || (depth > 0 && cfg.has_exit() && cur == cfg.exit())) {
        // a callee returns when it has executed its exit block (even if that
        // block has successors: crab's analyses treat the exit as the return point)
        res = Stop::NoSuccessor;
        last_block_was_exit = cfg.has_exit() && cur == cfg.exit();
        break;
      }
      // one-block look-ahead: prefer successors whose leading assumes hold
      std::vector<label_t> feas;
      for (auto &n : succs)
        if (leading_assumes_hold(cfg.get_node(n)))
          feas.push_back(n);
      if (!feas.empty())
        cur = feas[tape.pick((unsigned)feas.size())];
      else
        cur = succs[tape.pick((unsigned)succs.size())];
    }
    st = saved_st;
    cur_cfg = saved_cfg;
    return res;
  }

  Stop last_stop() const { return stop; }

private:
  State *st = nullptr;
  cfg_t *cur_cfg = nullptr;
  label_t cur_label;
  Stop stop = Stop::None;

  void outside(const std::string &why) {
    stop = Stop::Outside;
    outside_reason = why;
  }

  bool leading_assumes_hold(block_t &b) {
    for (auto &stmt : b) {
      if (stmt.is_assume()) {
        auto &a = static_cast<assume_t &>(stmt);
        bool def;
        if (!holds_in(a.constraint(), *st, def) && def)
          return false;
      } else if (stmt.is_bool_assume()) {
        auto &a = static_cast<bool_assume_t &>(stmt);
        auto f = st->num.find(a.cond());
        if (f != st->num.end()) {
          bool v = f->second != 0;
          if (a.is_negated())
            v = !v;
          if (!v)
            return false;
        }
      } else if (stmt.is_unreachable()) {
        return false;
      } else
        break;
    }
    return true;
  }

  static z_number pow2(unsigned k) { return z_number(1) << z_number((int64_t)k); }
  static z_number floor_div_pow2(const z_number &a, unsigned k) { return a >> z_number((int64_t)k); }

public:
  // ---- statements ---------------------------------------------------------------
  void visit(bin_op_t &s) override {
    z_number a = eval(s.left()), b = eval(s.right()), r;
    if (machine_ints) {
      visit_machine(s, a, b);
      return;
    }
    switch (s.op()) {
    case crab::cfg::BINOP_ADD: r = a + b; break;
    case crab::cfg::BINOP_SUB: r = a - b; break;
    case crab::cfg::BINOP_MUL: r = a * b; break;
    case crab::cfg::BINOP_SDIV:
      if (b == 0) { stop = Stop::Blocked; return; }
      r = a / b;
      break;
    case crab::cfg::BINOP_SREM:
      if (b == 0) { stop = Stop::Blocked; return; }
      r = a % b;
      break;
    case crab::cfg::BINOP_UDIV:
      if (b == 0) { stop = Stop::Blocked; return; }
      if (a < 0 || b < 0) { outside("udiv with negative operand"); return; }
      r = a / b;
      break;
    case crab::cfg::BINOP_UREM:
      if (b == 0) { stop = Stop::Blocked; return; }
      if (a < 0 || b < 0) { outside("urem with negative operand"); return; }
      r = a % b;
      break;
    case crab::cfg::BINOP_AND: r = a & b; break;
    case crab::cfg::BINOP_OR: r = a | b; break;
    case crab::cfg::BINOP_XOR: r = a ^ b; break;
    case crab::cfg::BINOP_SHL:
      if (b < 0 || b > 64) { outside("shl amount outside [0,64]"); return; }
      r = a * pow2((unsigned)(int64_t)b);
      break;
    case crab::cfg::BINOP_LSHR:
      if (b < 0 || b > 64) { outside("lshr amount outside [0,64]"); return; }
      if (a < 0) { outside("lshr of negative value"); return; }
      r = floor_div_pow2(a, (unsigned)(int64_t)b);
      break;
    case crab::cfg::BINOP_ASHR:
      if (b < 0 || b > 64) { outside("ashr amount outside [0,64]"); return; }
      r = floor_div_pow2(a, (unsigned)(int64_t)b);
      break;
    default:
      outside("unknown binop");
      return;
    }
    if (too_big(r)) { outside("value beyond 2^1024"); return; }
    st->num[s.lhs()] = r;
  }
  // w-bit semantics (LLVM): operands are the signed values of w-bit vectors
  void visit_machine(bin_op_t &s, z_number a, z_number b) {
    unsigned w = s.lhs().get_type().is_integer() ? s.lhs().get_type().get_integer_bitwidth() : 0;
    if (w == 0) { outside("machine binop on non-integer"); return; }
    a = to_signed(a, w); // a constant operand is reduced to the width as well
    b = to_signed(b, w);
    z_number au = to_unsigned(a, w), bu = to_unsigned(b, w), r;
    switch (s.op()) {
    case crab::cfg::BINOP_ADD: r = a + b; break;
    case crab::cfg::BINOP_SUB: r = a - b; break;
    case crab::cfg::BINOP_MUL: r = a * b; break;
    case crab::cfg::BINOP_SDIV:
      if (b == 0) { stop = Stop::Blocked; return; }
      if (b == -1 && a == z_number(0) - p2(w - 1)) { outside("INT_MIN sdiv -1"); return; }
      r = a / b;
      break;
    case crab::cfg::BINOP_SREM:
      if (b == 0) { stop = Stop::Blocked; return; }
      if (b == -1 && a == z_number(0) - p2(w - 1)) { outside("INT_MIN srem -1"); return; }
      r = a % b;
      break;
    case crab::cfg::BINOP_UDIV:
      if (b == 0) { stop = Stop::Blocked; return; }
      r = au / bu;
      break;
    case crab::cfg::BINOP_UREM:
      if (b == 0) { stop = Stop::Blocked; return; }
      r = au % bu;
      break;
    case crab::cfg::BINOP_AND: r = a & b; break;
    case crab::cfg::BINOP_OR: r = a | b; break;
    case crab::cfg::BINOP_XOR: r = a ^ b; break;
    case crab::cfg::BINOP_SHL:
      if (bu >= z_number((int64_t)w)) { outside("shift amount >= width"); return; }
      r = a * p2((unsigned)(int64_t)bu);
      break;
    case crab::cfg::BINOP_LSHR:
      if (bu >= z_number((int64_t)w)) { outside("shift amount >= width"); return; }
      r = au >> bu;
      break;
    case crab::cfg::BINOP_ASHR:
      if (bu >= z_number((int64_t)w)) { outside("shift amount >= width"); return; }
      r = a >> bu;
      break;
    default:
      outside("unknown binop");
      return;
    }
    st->num[s.lhs()] = wrapv(r, s.lhs());
  }
  void visit(assign_t &s) override {
    z_number r = eval(s.rhs());
    if (too_big(r)) { outside("value beyond 2^1024"); return; }
    st->num[s.lhs()] = wrapv(r, s.lhs());
  }
  // repeated squaring in a loop doubles the size of a value at every step: such executions
  // leave the model (nothing is judged beyond) instead of exhausting the memory
  static bool too_big(const z_number &v) {
    static const z_number lim = z_number(1) << z_number((int64_t)1024);
    return v > lim || v < z_number(0) - lim;
  }
  void visit(assume_t &s) override {
    bool h = holds(s.constraint());
    if (obs)
      obs->condition(*cur_cfg, s, h, *st);
    if (!h)
      stop = Stop::Blocked;
  }
  void visit(select_t &s) override {
    bool c = holds(s.cond());
    z_number a = eval(s.left()), b = eval(s.right());
    st->num[s.lhs()] = wrapv(c ? a : b, s.lhs());
  }
  void visit(assert_t &s) override {
    bool h = holds(s.constraint());
    if (obs) {
      obs->assertion(*cur_cfg, s, h, *st);
      obs->condition(*cur_cfg, s, h, *st);
    }
    if (!h)
      stop = Stop::AssertFailed;
  }
  void visit(int_cast_t &s) override {
    auto sty = s.src().get_type(), dty = s.dst().get_type();
    z_number v = get(s.src());
    if (sty.is_bool() && dty.is_integer()) {
      if (s.op() == crab::cfg::CAST_ZEXT) {
        st->num[s.dst()] = v; // 0/1
      } else if (s.op() == crab::cfg::CAST_SEXT) {
        if (v != 0) { outside("sext of true boolean (0/-1 vs 0/1 undocumented)"); return; }
        st->num[s.dst()] = z_number(0);
      } else { outside("trunc bool->int"); return; }
    } else if (sty.is_integer() && dty.is_bool()) {
      if (v != 0 && v != 1) { outside("int->bool cast of value outside {0,1}"); return; }
      st->num[s.dst()] = v;
    } else if (sty.is_integer() && dty.is_integer() && machine_ints) {
      unsigned ws = sty.get_integer_bitwidth();
      if (s.op() == crab::cfg::CAST_ZEXT)
        st->num[s.dst()] = wrapv(to_unsigned(v, ws), s.dst());
      else if (s.op() == crab::cfg::CAST_SEXT)
        st->num[s.dst()] = wrapv(to_signed(v, ws), s.dst());
      else
        st->num[s.dst()] = wrapv(v, s.dst()); // trunc keeps the low bits
    } else if (sty.is_integer() && dty.is_integer()) {
      if (s.op() == crab::cfg::CAST_ZEXT) {
        unsigned w = sty.get_integer_bitwidth();
        if (v < 0 || v >= pow2(w)) { outside("zext of value outside [0,2^w)"); return; }
      }
      st->num[s.dst()] = v; // mathematical integers: identity
    } else {
      outside("cast with unexpected types");
    }
  }
  void visit(unreach_t &) override { stop = Stop::Blocked; }
  void visit(havoc_t &s) override {
    auto ty = s.get_variable().get_type();
    if (ty.is_bool() || ty.is_integer())
      st->num[s.get_variable()] = arbitrary_for(s.get_variable());
    else if (ty.is_array())
      st->arr.erase(s.get_variable()); // content unknown: reads become outside the model
    else
      outside("havoc of region/reference");
  }
  void visit(bool_bin_op_t &s) override {
    bool a = get(s.left()) != 0, b = get(s.right()) != 0, r;
    switch (s.op()) {
    case crab::cfg::BINOP_BAND: r = a && b; break;
    case crab::cfg::BINOP_BOR: r = a || b; break;
    default: r = a != b; break;
    }
    st->num[s.lhs()] = z_number((int64_t)r);
  }
  void visit(bool_assign_cst_t &s) override {
    if (!s.is_rhs_linear_constraint()) { outside("bool := reference constraint"); return; }
    st->num[s.lhs()] = z_number((int64_t)holds(s.rhs_as_linear_constraint()));
  }
  void visit(bool_assign_var_t &s) override {
    bool v = get(s.rhs()) != 0;
    if (s.is_rhs_negated())
      v = !v;
    st->num[s.lhs()] = z_number((int64_t)v);
  }
  void visit(bool_assume_t &s) override {
    bool v = get(s.cond()) != 0;
    if (s.is_negated())
      v = !v;
    if (obs)
      obs->condition(*cur_cfg, s, v, *st);
    if (!v)
      stop = Stop::Blocked;
  }
  void visit(bool_select_t &s) override {
    bool c = get(s.cond()) != 0;
    z_number a = get(s.left()), b = get(s.right());
    st->num[s.lhs()] = c ? a : b;
  }
  void visit(bool_assert_t &s) override {
    bool v = get(s.cond()) != 0;
    if (obs) {
      obs->assertion(*cur_cfg, s, v, *st);
      obs->condition(*cur_cfg, s, v, *st);
    }
    if (!v)
      stop = Stop::AssertFailed;
  }

  // arrays: cell = byte offset, multiple of the (constant) element size
  void visit(arr_init_t &s) override {
    z_number es = eval(s.elem_size()), lb = eval(s.lb_index()), ub = eval(s.ub_index()), v = eval(s.val());
    if (es <= 0) { outside("array elem size <= 0"); return; }
    auto &cells = st->arr[s.array()];
    cells.clear();
    if (ub - lb > z_number(4096)) { outside("array_init range too large"); return; }
    for (z_number i = lb; i <= ub; i = i + es)
      cells[i] = v;
    array_known.insert(s.array());
  }
  void visit(arr_store_t &s) override {
    z_number es = eval(s.elem_size()), lb = eval(s.lb_index()), ub = eval(s.ub_index()), v = eval(s.value());
    if (es <= 0) { outside("array elem size <= 0"); return; }
    if (ub - lb > z_number(4096)) { outside("array_store range too large"); return; }
    auto &cells = st->arr[s.array()];
    if (lb % es != 0) { outside("unaligned array store"); return; }
    for (z_number i = lb; i <= ub; i = i + es)
      cells[i] = v;
  }
  void visit(arr_load_t &s) override {
    z_number es = eval(s.elem_size()), i = eval(s.index());
    auto it = st->arr.find(s.array());
    if (it == st->arr.end() || !it->second.count(i)) { outside("array load of a never-written cell"); return; }
    (void)es;
    st->num[s.lhs()] = it->second[i];
  }
  void visit(arr_assign_t &s) override {
    auto it = st->arr.find(s.rhs());
    if (it == st->arr.end())
      st->arr.erase(s.lhs());
    else {
      auto copy = it->second;
      st->arr[s.lhs()] = copy;
    }
  }

  void visit(callsite_t &s) override {
    auto it = funcs.find(s.get_func_name());
    if (!inter || it == funcs.end()) {
      // intra-procedural view: outputs arbitrary
      for (auto &v : s.get_lhs()) {
        auto ty = v.get_type();
        if (ty.is_bool() || ty.is_integer())
          st->num[v] = arbitrary_for(v);
        else if (ty.is_array())
          st->arr.erase(v);
        else { outside("callsite with region/reference output"); return; }
      }
      return;
    }
    if (depth >= max_depth) { outside("call depth limit"); return; }
    cfg_t &callee = *it->second;
    if (!callee.has_func_decl()) { outside("callee without declaration"); return; }
    const fdecl_t &fd = callee.get_func_decl();
    if (fd.get_num_inputs() != s.get_args().size() || fd.get_num_outputs() != s.get_lhs().size()) {
      outside("call arity mismatch");
      return;
    }
    State frame, inputs;
    for (unsigned i = 0; i < fd.get_num_inputs(); i++) {
      var_t formal = fd.get_input_name(i);
      const var_t &actual = s.get_args()[i];
      auto ty = actual.get_type();
      if (ty.is_bool() || ty.is_integer()) {
        frame.num[formal] = get(actual);
        inputs.num[formal] = frame.num[formal];
      } else if (ty.is_array()) {
        auto f = st->arr.find(actual);
        if (f != st->arr.end()) {
          frame.arr[formal] = f->second;
          inputs.arr[formal] = f->second;
        }
      } else { outside("call with region/reference argument"); return; }
    }
    depth++;
    State *saved = st;
    cfg_t *saved_cfg = cur_cfg;
    label_t saved_label = cur_label;
    Stop r = run(callee, callee.entry(), frame);
    st = saved;
    cur_cfg = saved_cfg;
    cur_label = saved_label;
    depth--;
    if (r == Stop::NoSuccessor && callee.has_exit() && last_block_was_exit) {
      State outputs;
      for (unsigned i = 0; i < fd.get_num_outputs(); i++) {
        var_t formal = fd.get_output_name(i);
        auto ty = formal.get_type();
        if (ty.is_bool() || ty.is_integer()) {
          auto f = frame.num.find(formal);
          z_number v = f != frame.num.end() ? f->second : arbitrary_for(formal);
          outputs.num[formal] = v;
        } else if (ty.is_array()) {
          auto f = frame.arr.find(formal);
          if (f != frame.arr.end())
            outputs.arr[formal] = f->second;
        }
      }
      if (obs)
        obs->call_returned(callee, inputs, outputs);
      // lhs := outputs simultaneously
      for (unsigned i = 0; i < fd.get_num_outputs(); i++) {
        var_t formal = fd.get_output_name(i);
        const var_t &lhs = s.get_lhs()[i];
        auto ty = formal.get_type();
        if (ty.is_bool() || ty.is_integer())
          st->num[lhs] = outputs.num[formal];
        else if (ty.is_array()) {
          auto f = outputs.arr.find(formal);
          if (f != outputs.arr.end())
            st->arr[lhs] = f->second;
          else
            st->arr.erase(lhs);
        }
      }
      stop = Stop::None;
    } else if (r == Stop::NoSuccessor) {
      stop = Stop::Blocked; // callee got stuck in a block without successors that is not its exit
    } else {
      stop = r; // blocked / assert failed / outside / step limit inside the callee ends the execution
    }
  }
  void visit(intrinsic_t &s) override {
    (void)s; // no concrete effect for the intrinsics we generate
  }
  void visit(region_init_t &) override { outside("region statement"); }
  void visit(region_copy_t &) override { outside("region statement"); }
  void visit(region_cast_t &) override { outside("region statement"); }
  void visit(make_ref_t &) override { outside("region statement"); }
  void visit(remove_ref_t &) override { outside("region statement"); }
  void visit(load_from_ref_t &) override { outside("region statement"); }
  void visit(store_to_ref_t &) override { outside("region statement"); }
  void visit(gep_ref_t &) override { outside("region statement"); }
  void visit(assume_ref_t &) override { outside("region statement"); }
  void visit(assert_ref_t &) override { outside("region statement"); }
  void visit(select_ref_t &) override { outside("region statement"); }
  void visit(int_to_ref_t &) override { outside("region statement"); }
  void visit(ref_to_int_t &) override { outside("region statement"); }

  std::set<var_t> array_known;
  bool last_block_was_exit = false;
};

} // namespace vp
