// C20 — numbers and linear constraints keep their mathematical meaning.
// Oracles: __int128 differential, algebraic identities beyond 64 bits,
// round trips, evaluation homomorphism of linear expressions, exact complement
// for negate(), exact tautology/contradiction tests, truth preservation of
// linear_constraint_system::normalize().
#include "core/report.hpp"
#include "core/tape.hpp"

#include <crab/numbers/bignums.hpp>
#include <crab/numbers/safeint.hpp>
#include <crab/types/linear_constraints.hpp>
#include <crab/types/variable.hpp>
#include <crab/types/varname_factory.hpp>

#include <map>
#include <string>

namespace crab {
template <> class variable_name_traits<std::string> {
public:
  static std::string to_string(std::string varname) { return varname; }
};
} // namespace crab

using namespace verif;
using ikos::q_number;
using ikos::z_number;
typedef __int128 i128;
typedef unsigned __int128 u128;

namespace verif {
const char *harness_name() { return "h_numbers"; }
} // namespace verif

static const char *P = "C20";

static std::string i128_str(i128 v) {
  if (v == 0)
    return "0";
  bool neg = v < 0;
  u128 u = neg ? (u128)0 - (u128)v : (u128)v;
  std::string s;
  while (u) {
    s.insert(s.begin(), (char)('0' + (int)(u % 10)));
    u /= 10;
  }
  return neg ? "-" + s : s;
}
static std::string zs(const z_number &z) { return z.get_str(); }
static i128 floor_div(i128 a, i128 b) { // b > 0
  i128 q = a / b;
  if ((a % b) != 0 && a < 0)
    q -= 1;
  return q;
}

// ---- generators ------------------------------------------------------------
static int64_t small62(Tape &t) {
  int64_t v = t.i64_pool();
  // keep |v| < 2^62 so that products of two fit in __int128
  if (v > ((int64_t)1 << 61) || v < -((int64_t)1 << 61))
    v >>= 3;
  return v;
}

// big z_number possibly beyond 64 bits, built from a decimal string (so it
// does not depend on z arithmetic) -- returns the string too.
static std::string big_str(Tape &t) {
  unsigned k = t.pick(8);
  switch (k) {
  case 0:
    return i128_str((i128)t.i64_pool());
  case 1: { // around 2^63 / 2^64
    i128 b = (i128)1 << (63 + (int)t.pick(2));
    b += t.small_int(3);
    if (t.flag())
      b = -b;
    return i128_str(b);
  }
  case 2: { // 2^k +- d for k up to 126
    int sh = (int)t.range(64, 126);
    i128 b = ((i128)1 << sh) + t.small_int(3);
    if (t.flag())
      b = -b;
    return i128_str(b);
  }
  case 3: { // arbitrary 128 bit
    i128 b = ((i128)t.u64() << 64) | (i128)t.u64();
    return i128_str(b);
  }
  case 4: { // long decimal string (up to 60 digits)
    unsigned n = 1 + t.pick(60);
    std::string s;
    for (unsigned i = 0; i < n; i++)
      s += (char)('0' + (i == 0 ? 1 + t.pick(9) : t.pick(10)));
    if (t.flag())
      s = "-" + s;
    return s;
  }
  case 5:
    return i128_str((i128)INT32_MAX + t.small_int(3));
  case 6:
    return i128_str((i128)INT32_MIN + t.small_int(3));
  default:
    return i128_str((i128)t.small_int(20));
  }
}
static bool beyond64(const z_number &z) { return !z.fits_int64(); }

// ---- A: z_number vs __int128 ----------------------------------------------
static void z_differential(Tape &t, CaseCtx &ctx) {
  int64_t a = small62(t), b = small62(t);
  z_number za(a), zb(b);
  ctx.log << "z_diff a=" << a << " b=" << b << "\n";
  ctx.mix(a);
  ctx.mix(b);
  i128 A = a, B = b;
  VCHECK(ctx, P, zs(za) == i128_str(A), "z_ctor_int64", "z_number(" << a << ").get_str()=" << zs(za));
  VCHECK(ctx, P, zs(za + zb) == i128_str(A + B), "z_add", a << "+" << b << " gave " << zs(za + zb));
  VCHECK(ctx, P, zs(za - zb) == i128_str(A - B), "z_sub", a << "-" << b << " gave " << zs(za - zb));
  VCHECK(ctx, P, zs(za * zb) == i128_str(A * B), "z_mul", a << "*" << b << " gave " << zs(za * zb));
  VCHECK(ctx, P, zs(-za) == i128_str(-A), "z_neg", "-" << a << " gave " << zs(-za));
  if (b != 0) {
    VCHECK(ctx, P, zs(za / zb) == i128_str(A / B), "z_div", a << "/" << b << " gave " << zs(za / zb));
    VCHECK(ctx, P, zs(za % zb) == i128_str(A % B), "z_rem", a << "%" << b << " gave " << zs(za % zb));
    z_number c(za);
    c /= zb;
    VCHECK(ctx, P, zs(c) == i128_str(A / B), "z_div_assign", a << "/=" << b << " gave " << zs(c));
    c = za;
    c %= zb;
    VCHECK(ctx, P, zs(c) == i128_str(A % B), "z_rem_assign", a << "%=" << b << " gave " << zs(c));
  }
  VCHECK(ctx, P, zs(za & zb) == i128_str(A & B), "z_and", a << "&" << b << " gave " << zs(za & zb));
  VCHECK(ctx, P, zs(za | zb) == i128_str(A | B), "z_or", a << "|" << b << " gave " << zs(za | zb));
  VCHECK(ctx, P, zs(za ^ zb) == i128_str(A ^ B), "z_xor", a << "^" << b << " gave " << zs(za ^ zb));
  unsigned k = t.pick(61);
  {
    // a * 2^k fits: |a| < 2^62, k <= 60
    VCHECK(ctx, P, zs(za << z_number((int64_t)k)) == i128_str(A * ((i128)1 << k)), "z_shl",
           a << "<<" << k << " gave " << zs(za << z_number((int64_t)k)));
    VCHECK(ctx, P, zs(za >> z_number((int64_t)k)) == i128_str(floor_div(A, (i128)1 << k)), "z_shr",
           a << ">>" << k << " gave " << zs(za >> z_number((int64_t)k)));
  }
  VCHECK(ctx, P, (za == zb) == (A == B) && (za != zb) == (A != B) && (za < zb) == (A < B) &&
                     (za <= zb) == (A <= B) && (za > zb) == (A > B) && (za >= zb) == (A >= B),
         "z_cmp", "comparison of " << a << " and " << b);
  {
    z_number c(za);
    c += zb;
    VCHECK(ctx, P, zs(c) == i128_str(A + B), "z_add_assign", "");
    c = za;
    c -= zb;
    VCHECK(ctx, P, zs(c) == i128_str(A - B), "z_sub_assign", "");
    c = za;
    c *= zb;
    VCHECK(ctx, P, zs(c) == i128_str(A * B), "z_mul_assign", "");
    c = za;
    z_number d = c++;
    VCHECK(ctx, P, zs(d) == i128_str(A) && zs(c) == i128_str(A + 1), "z_postinc", "");
    d = c--;
    VCHECK(ctx, P, zs(d) == i128_str(A + 1) && zs(c) == i128_str(A), "z_postdec", "");
    ++c;
    VCHECK(ctx, P, zs(c) == i128_str(A + 1), "z_preinc", "");
    --c;
    --c;
    VCHECK(ctx, P, zs(c) == i128_str(A - 1), "z_predec", "");
  }
  i128 r = A * B;
  if (r > (i128)INT64_MAX || r < (i128)INT64_MIN || A + B > (i128)INT64_MAX || A + B < (i128)INT64_MIN)
    ctx.nontrivial = true, R().cls("z_diff_result_crosses_2^63");
  R().cls("mode_z_diff");
}

// ---- B: identities beyond 64 bits ------------------------------------------
static void z_identities(Tape &t, CaseCtx &ctx) {
  std::string sa = big_str(t), sb = big_str(t);
  z_number a(sa), b(sb);
  ctx.log << "z_ident a=" << sa << " b=" << sb << "\n";
  ctx.mixs(sa);
  ctx.mixs(sb);
  VCHECK(ctx, P, zs(a) == sa, "z_str_roundtrip", "z_number(\"" << sa << "\").get_str()=" << zs(a));
  // base-16 round trip
  {
    std::string h = a.get_str(16);
    z_number a2(h, 16);
    VCHECK(ctx, P, a2 == a, "z_str16_roundtrip", sa << " -> " << h << " -> " << zs(a2));
  }
  z_number zero(0), one(1);
  VCHECK(ctx, P, (a + b) - b == a, "z_add_sub", "(a+b)-b != a");
  VCHECK(ctx, P, a + b == b + a, "z_add_comm", "");
  VCHECK(ctx, P, a * b == b * a, "z_mul_comm", "");
  VCHECK(ctx, P, (a + one) * b == a * b + b, "z_distrib", "(a+1)*b != a*b+b");
  VCHECK(ctx, P, a - b == -(b - a), "z_sub_anti", "");
  VCHECK(ctx, P, (a < b) == ((a - b) < zero) && (a <= b) == !(b < a) && (a > b) == (b < a) &&
                     (a >= b) == (b <= a) && (a == b) == ((a - b) == zero) && (a != b) == !(a == b),
         "z_order", "ordering inconsistent for " << sa << " , " << sb);
  if (b != zero) {
    z_number q = a / b, r = a % b;
    VCHECK(ctx, P, q * b + r == a, "z_divrem_identity", "(a/b)*b+a%b != a for a=" << sa << " b=" << sb);
    z_number absr = r < zero ? -r : r, absb = b < zero ? -b : b;
    VCHECK(ctx, P, absr < absb, "z_rem_magnitude", "|a%b| >= |b| for a=" << sa << " b=" << sb);
    VCHECK(ctx, P, r == zero || ((r < zero) == (a < zero)), "z_rem_sign",
           "sign of remainder differs from dividend a=" << sa << " b=" << sb << " r=" << zs(r));
  }
  unsigned k = t.pick(200);
  z_number zk((int64_t)k);
  z_number p2 = one << zk;
  {
    // 2^k by repeated doubling (independent of <<)
    z_number d(1);
    for (unsigned i = 0; i < k; i++)
      d = d + d;
    VCHECK(ctx, P, p2 == d, "z_shl_pow2", "1<<" << k);
  }
  VCHECK(ctx, P, (a << zk) == a * p2, "z_shl_mul", sa << "<<" << k);
  VCHECK(ctx, P, ((a << zk) >> zk) == a, "z_shl_shr", sa << "<<" << k << ">>" << k);
  {
    z_number q = a >> zk;
    z_number rem = a - q * p2; // floor: 0 <= rem < 2^k
    VCHECK(ctx, P, rem >= zero && rem < p2, "z_shr_floor", sa << ">>" << k << " = " << zs(q) << " is not floor(a/2^k)");
  }
  VCHECK(ctx, P, (a & b) + (a | b) == a + b, "z_and_or_sum", "(a&b)+(a|b) != a+b for " << sa << " , " << sb);
  VCHECK(ctx, P, (a ^ b) == (a | b) - (a & b), "z_xor_identity", "a^b != (a|b)-(a&b) for " << sa << " , " << sb);
  VCHECK(ctx, P, (a & a) == a && (a | a) == a && (a ^ a) == zero, "z_bit_idem", "");
  VCHECK(ctx, P, (a & z_number(-1)) == a && (a | zero) == a, "z_bit_neutral", "");
  // two's complement: ~a = -a-1, and a ^ -1 = ~a
  VCHECK(ctx, P, (a ^ z_number(-1)) == -a - one, "z_xor_minus1", "");
  // fits_int64 / int64 conversion
  {
    bool fits = a.fits_int64();
    bool ref = a >= z_number("-9223372036854775808") && a <= z_number("9223372036854775807");
    VCHECK(ctx, P, fits == ref, "z_fits_int64", sa);
    if (fits) {
      int64_t v = (int64_t)a;
      VCHECK(ctx, P, std::to_string(v) == sa, "z_to_int64", sa << " -> " << v);
      VCHECK(ctx, P, z_number(v) == a, "z_int64_roundtrip", sa);
    } else {
      bool raised = false;
      try {
        volatile int64_t v = (int64_t)a;
        (void)v;
      } catch (const verif::crab_error &) {
        raised = true;
      }
      VCHECK(ctx, P, raised, "z_to_int64_silent_wrap", "conversion of " << sa << " to int64 did not raise");
    }
  }
  {
    uint64_t u = t.flag() ? t.u64() : (uint64_t)t.i64_pool();
    z_number zu = z_number::from_uint64(u);
    VCHECK(ctx, P, zs(zu) == std::to_string(u), "z_from_uint64", u << " -> " << zs(zu));
  }
  if (a >= zero && k < 130) {
    // fill_ones: smallest 2^m-1 >= a
    z_number f = a.fill_ones();
    bool ok = f >= a && ((f + one) & f) == zero;
    if (a > zero)
      ok = ok && ((f >> one) < a);
    VCHECK(ctx, P, ok, "z_fill_ones", "fill_ones(" << sa << ")=" << zs(f));
  }
  if (beyond64(a) || beyond64(b)) {
    ctx.nontrivial = true;
    R().cls("z_ident_beyond_64_bits");
  }
  R().cls("mode_z_ident");
}

// ---- C: q_number -------------------------------------------------------------
struct Rat {
  i128 n, d;
}; // d > 0
static bool req(Rat a, Rat b) { return a.n * b.d == b.n * a.d; }
static bool rlt(Rat a, Rat b) { return a.n * b.d < b.n * a.d; }
static void q_checks(Tape &t, CaseCtx &ctx) {
  auto gen = [&](Rat &r) {
    r.n = t.flag() ? t.small_int(40) : t.range(-40000, 40000);
    r.d = t.flag() ? 1 + t.pick(12) : t.range(1, 30000);
  };
  Rat a, b;
  gen(a);
  gen(b);
  q_number qa(z_number((int64_t)a.n), z_number((int64_t)a.d));
  q_number qb(z_number((int64_t)b.n), z_number((int64_t)b.d));
  ctx.log << "q a=" << i128_str(a.n) << "/" << i128_str(a.d) << " b=" << i128_str(b.n) << "/" << i128_str(b.d) << "\n";
  ctx.mix((uint64_t)a.n * 65537 + (uint64_t)a.d);
  ctx.mix((uint64_t)b.n * 65537 + (uint64_t)b.d);
  auto same = [&](const q_number &q, Rat r) {
    i128 qn = 0, qd = 0;
    z_number n = q.numerator(), d = q.denominator();
    if (!n.fits_int64() || !d.fits_int64())
      return false;
    qn = (int64_t)n;
    qd = (int64_t)d;
    if (qd == 0)
      return false;
    if (qd < 0) {
      qd = -qd;
      qn = -qn;
    }
    return req(Rat{qn, qd}, r);
  };
  VCHECK(ctx, P, same(qa + qb, Rat{a.n * b.d + b.n * a.d, a.d * b.d}), "q_add", "");
  VCHECK(ctx, P, same(qa - qb, Rat{a.n * b.d - b.n * a.d, a.d * b.d}), "q_sub", "");
  VCHECK(ctx, P, same(qa * qb, Rat{a.n * b.n, a.d * b.d}), "q_mul", "");
  VCHECK(ctx, P, same(-qa, Rat{-a.n, a.d}), "q_neg", "");
  if (b.n != 0) {
    Rat r{a.n * b.d, a.d * b.n};
    if (r.d < 0) {
      r.d = -r.d;
      r.n = -r.n;
    }
    VCHECK(ctx, P, same(qa / qb, r), "q_div", "");
  }
  VCHECK(ctx, P, (qa == qb) == req(a, b) && (qa != qb) == !req(a, b) && (qa < qb) == rlt(a, b) &&
                     (qa > qb) == rlt(b, a) && (qa <= qb) == !rlt(b, a) && (qa >= qb) == !rlt(a, b),
         "q_cmp", "");
  // rounding
  {
    i128 fl = floor_div(a.n, a.d);
    i128 ce = -floor_div(-a.n, a.d);
    z_number lo = qa.round_to_lower(), up = qa.round_to_upper();
    VCHECK(ctx, P, zs(lo) == i128_str(fl), "q_round_lower",
           "round_to_lower(" << i128_str(a.n) << "/" << i128_str(a.d) << ")=" << zs(lo));
    VCHECK(ctx, P, zs(up) == i128_str(ce), "q_round_upper",
           "round_to_upper(" << i128_str(a.n) << "/" << i128_str(a.d) << ")=" << zs(up));
  }
  {
    q_number c(qa);
    c += qb;
    VCHECK(ctx, P, same(c, Rat{a.n * b.d + b.n * a.d, a.d * b.d}), "q_add_assign", "");
    c = qa;
    c -= qb;
    VCHECK(ctx, P, same(c, Rat{a.n * b.d - b.n * a.d, a.d * b.d}), "q_sub_assign", "");
    c = qa;
    c *= qb;
    VCHECK(ctx, P, same(c, Rat{a.n * b.n, a.d * b.d}), "q_mul_assign", "");
    c = qa;
    ++c;
    VCHECK(ctx, P, same(c, Rat{a.n + a.d, a.d}), "q_inc", "");
    c = qa;
    --c;
    VCHECK(ctx, P, same(c, Rat{a.n - a.d, a.d}), "q_dec", "");
    c = qa;
    q_number old = c++;
    VCHECK(ctx, P, same(old, a) && same(c, Rat{a.n + a.d, a.d}), "q_postinc", "");
  }
  {
    // q from z, string round trip
    q_number qz(z_number((int64_t)a.n));
    VCHECK(ctx, P, same(qz, Rat{a.n, 1}), "q_from_z", "");
    q_number s1 = qa + q_number(z_number(0)); // canonical
    q_number s2(s1.get_str());
    VCHECK(ctx, P, s2 == qa, "q_str_roundtrip", s1.get_str());
  }
  {
    unsigned k = t.pick(20);
    q_number sh = qa << q_number(z_number((int64_t)k));
    VCHECK(ctx, P, same(sh, Rat{a.n * ((i128)1 << k), a.d}), "q_shl", "");
  }
  if (a.n % a.d != 0 && a.n < 0)
    ctx.nontrivial = true, R().cls("q_negative_nonintegral");
  else if (a.n % a.d != 0)
    ctx.nontrivial = true, R().cls("q_positive_nonintegral");
  R().cls("mode_q");
}

// ---- D: safe_i64 ---------------------------------------------------------------
static void safe_checks(Tape &t, CaseCtx &ctx) {
  int64_t a = t.i64_pool(), b = t.i64_pool();
  ctx.log << "safe_i64 a=" << a << " b=" << b << "\n";
  ctx.mix(a);
  ctx.mix(b * 31);
  crab::safe_i64 sa(a), sb(b);
  i128 A = a, B = b;
  bool any_overflow = false;
  auto chk = [&](const char *name, i128 exact, auto fn) {
    bool raised = false;
    int64_t got = 0;
    try {
      got = fn();
    } catch (const verif::crab_error &) {
      raised = true;
    }
    bool fits = exact <= (i128)INT64_MAX && exact >= (i128)INT64_MIN;
    if (!fits)
      any_overflow = true;
    if (raised) {
      // raising on a representable result is allowed by "never wrap silently"
      // only when the result really overflows; otherwise the operation failed.
      VCHECK(ctx, P, !fits, std::string("safe_spurious_") + name, name << " raised on " << a << "," << b << " although the exact result fits");
    } else {
      VCHECK(ctx, P, fits && (i128)got == exact, std::string("safe_silent_wrap_") + name,
             name << "(" << a << "," << b << ") returned " << got << " exact=" << i128_str(exact));
    }
  };
  chk("add", A + B, [&]() { return (int64_t)(sa + sb); });
  chk("sub", A - B, [&]() { return (int64_t)(sa - sb); });
  chk("mul", A * B, [&]() { return (int64_t)(sa * sb); });
  if (b != 0)
    chk("div", A / B, [&]() { return (int64_t)(sa / sb); });
  chk("neg", -A, [&]() { return (int64_t)(-sa); });
  chk("add_assign", A + B, [&]() { crab::safe_i64 c(sa); c += sb; return (int64_t)c; });
  chk("sub_assign", A - B, [&]() { crab::safe_i64 c(sa); c -= sb; return (int64_t)c; });
  VCHECK(ctx, P, (sa == sb) == (a == b) && (sa < sb) == (a < b) && (sa <= sb) == (a <= b) &&
                     (sa > sb) == (a > b) && (sa >= sb) == (a >= b) && (sa != sb) == (a != b),
         "safe_cmp", "");
  {
    // construction from z_number must not wrap silently either
    std::string s = big_str(t);
    z_number z(s);
    bool raised = false;
    int64_t got = 0;
    try {
      crab::safe_i64 c(z);
      got = (int64_t)c;
    } catch (const verif::crab_error &) {
      raised = true;
    }
    if (z.fits_int64())
      VCHECK(ctx, P, !raised && std::to_string(got) == s, "safe_from_z", s);
    else
      VCHECK(ctx, P, raised, "safe_from_z_silent_wrap", s << " -> " << got);
  }
  if (any_overflow)
    ctx.nontrivial = true, R().cls("safe_overflowing_op");
  R().cls("mode_safe");
}

// ---- E: linear expressions / constraints ----------------------------------------
using vfac_t = crab::var_factory_impl::str_variable_factory;
using var_t = crab::variable<z_number, vfac_t::varname_t>;
using lin_t = ikos::linear_expression<z_number, vfac_t::varname_t>;
using cst_t = ikos::linear_constraint<z_number, vfac_t::varname_t>;
using csts_t = ikos::linear_constraint_system<z_number, vfac_t::varname_t>;
using val_t = std::map<var_t, z_number>;

static z_number eval(const lin_t &e, const val_t &v) {
  z_number r = e.constant();
  for (auto it = e.begin(); it != e.end(); ++it) {
    auto comp = *it; // (coef, var)
    auto f = v.find(comp.second);
    r = r + comp.first * (f == v.end() ? z_number(0) : f->second);
  }
  return r;
}
static bool holds(const cst_t &c, const val_t &v) {
  z_number x = eval(c.expression(), v);
  switch (c.kind()) {
  case cst_t::EQUALITY: return x == 0;
  case cst_t::DISEQUATION: return x != 0;
  case cst_t::INEQUALITY: return x <= 0;
  default: return x < 0;
  }
}
static std::string str(const lin_t &e) {
  crab::crab_string_os os;
  os << e;
  return os.str();
}
static std::string str(const cst_t &e) {
  crab::crab_string_os os;
  os << e;
  return os.str();
}
static z_number coef(Tape &t) {
  unsigned k = t.pick(8);
  if (k < 5)
    return z_number(t.small_int(4));
  if (k == 5)
    return z_number(t.i64_pool());
  if (k == 6)
    return z_number(big_str(t));
  return z_number(t.small_int(100));
}

static void linear_checks(Tape &t, CaseCtx &ctx) {
  vfac_t vfac;
  std::vector<var_t> vars;
  static const char *names[] = {"x", "y", "z", "w", "u", "v"};
  for (int i = 0; i < 6; i++)
    vars.push_back(var_t(vfac[names[i]], crab::INT_TYPE, 32));
  auto gen_expr = [&](unsigned maxterms) {
    lin_t e(coef(t));
    unsigned n = t.pick(maxterms + 1);
    for (unsigned i = 0; i < n; i++) {
      var_t v = vars[t.pick(4)];
      z_number c = coef(t);
      switch (t.pick(4)) {
      case 0: e = e + lin_t(c, v); break;
      case 1: e = e - lin_t(c, v); break;
      case 2: e = e + v; break;
      default: e = e - v; break;
      }
    }
    return e;
  };
  lin_t e1 = gen_expr(4), e2 = gen_expr(3);
  z_number k = coef(t);
  ctx.log << "lin e1=" << str(e1) << " e2=" << str(e2) << " k=" << zs(k) << "\n";
  ctx.mixs(str(e1));
  ctx.mixs(str(e2));
  // valuations
  std::vector<val_t> vals;
  unsigned nv = 3 + t.pick(4);
  for (unsigned i = 0; i < nv; i++) {
    val_t v;
    for (auto &x : vars)
      v[x] = t.flag() ? z_number(t.small_int(6)) : coef(t);
    vals.push_back(v);
  }
  // renaming map (x->u or y->v ...); targets fresh w.r.t. e1's variables
  std::map<var_t, var_t> ren;
  if (t.flag())
    ren.insert({vars[0], vars[4]});
  if (t.flag())
    ren.insert({vars[1], vars[5]});
  // (tail choices) further entries with arbitrary targets: a variable of the expression, the same
  // target twice (coefficients add up, terms may cancel), a swap. rename is a simultaneous
  // substitution: eval(e.rename(m), v) = eval(e, v o m)
  for (unsigned r = 0; r < 3; r++) {
    unsigned rb = t.tail_u8();
    if (rb & 1)
      if (ren.insert({vars[(rb >> 1) % 4], vars[(rb >> 3) % 6]}).second && (rb >> 3) % 6 < 4)
        R().cls("rename_onto_variable_of_the_expression_pool");
  }
  auto compose = [&](const val_t &v) {
    val_t vm = v;
    for (auto &kv : ren) {
      auto it = v.find(kv.second);
      vm[kv.first] = it == v.end() ? z_number(0) : it->second;
    }
    return vm;
  };
  lin_t e1r = e1.rename(ren);
  for (auto &v : vals) {
    z_number a = eval(e1, v), b = eval(e2, v);
    VCHECK(ctx, P, eval(e1 + e2, v) == a + b, "lin_add_hom", "eval(e1+e2) != eval(e1)+eval(e2)");
    VCHECK(ctx, P, eval(e1 - e2, v) == a - b, "lin_sub_hom", "eval(e1-e2) != eval(e1)-eval(e2)");
    VCHECK(ctx, P, eval(e1 * k, v) == a * k, "lin_scale_hom", "eval(e1*k) != eval(e1)*k, k=" << zs(k));
    VCHECK(ctx, P, eval(k * e1, v) == a * k, "lin_scale_hom_left", "");
    VCHECK(ctx, P, eval(-e1, v) == -a, "lin_neg_hom", "");
    VCHECK(ctx, P, eval(e1 + k, v) == a + k && eval(e1 - k, v) == a - k, "lin_addcst_hom", "");
    VCHECK(ctx, P, eval(e1 + vars[2], v) == a + v[vars[2]] && eval(e1 - vars[2], v) == a - v[vars[2]],
           "lin_addvar_hom", "");
    // renaming: evaluate the renamed expression under the valuation where the
    // target takes the source's value
    val_t v2 = v;
    for (auto &kv : ren)
      v2[kv.second] = v[kv.first];
    VCHECK(ctx, P, eval(e1r, v2) == eval(e1, compose(v2)), "lin_rename_hom", "rename changed the value of " << str(e1) << " -> " << str(e1r));
    VCHECK(ctx, P, eval(e1r, v) == eval(e1, compose(v)), "lin_rename_hom", "rename changed the value of " << str(e1) << " -> " << str(e1r));
    // coefficient accessor
  }
  {
    // operator[] = coefficient: e(v + delta on x) - e(v) = coef(x)*delta
    val_t v = vals[0];
    for (unsigned i = 0; i < 4; i++) {
      val_t v2 = v;
      v2[vars[i]] = v2[vars[i]] + z_number(1);
      VCHECK(ctx, P, eval(e1, v2) - eval(e1, v) == e1[vars[i]], "lin_coef_accessor", "operator[] disagrees with evaluation on " << str(e1));
    }
    VCHECK(ctx, P, e1.is_constant() == (e1.size() == 0), "lin_is_constant", "");
    bool anyvar = false;
    for (unsigned i = 0; i < 6; i++)
      if (e1[vars[i]] != 0)
        anyvar = true;
    VCHECK(ctx, P, e1.is_constant() == !anyvar, "lin_is_constant_sem", "is_constant() wrong on " << str(e1));
    VCHECK(ctx, P, e1.equal(e1 + e2 - e2), "lin_equal", "e1 != e1+e2-e2 for e1=" << str(e1) << " e2=" << str(e2));
  }
  // constraints
  unsigned kind = t.pick(4);
  static const cst_t::kind_t kinds[] = {cst_t::INEQUALITY, cst_t::STRICT_INEQUALITY, cst_t::EQUALITY, cst_t::DISEQUATION};
  cst_t c(e1, kinds[kind]);
  cst_t nc = c.negate();
  ctx.log << "cst " << str(c) << "  negated: " << str(nc) << "\n";
  bool saw_true = false, saw_false = false;
  for (auto &v : vals) {
    bool h = holds(c, v);
    (h ? saw_true : saw_false) = true;
    VCHECK(ctx, P, holds(nc, v) == !h, "cst_negate_complement", "negate() of " << str(c) << " = " << str(nc) << " is not the complement");
    VCHECK(ctx, P, !(c.is_tautology() && !h), "cst_tautology_false", str(c) << " is_tautology but false on a valuation");
    VCHECK(ctx, P, !(c.is_contradiction() && h), "cst_contradiction_true", str(c) << " is_contradiction but true on a valuation");
    // comparison operators build what they say
    z_number a = eval(e1, v), b = eval(e2, v);
    VCHECK(ctx, P, holds(e1 <= e2, v) == (a <= b) && holds(e1 < e2, v) == (a < b) && holds(e1 >= e2, v) == (a >= b) &&
                       holds(e1 > e2, v) == (a > b) && holds(e1 == e2, v) == (a == b) && holds(e1 != e2, v) == (a != b),
           "cst_operators", "comparison operator built a wrong constraint for e1=" << str(e1) << " e2=" << str(e2));
    VCHECK(ctx, P, holds(e1 <= k, v) == (a <= k) && holds(e1 < k, v) == (a < k) && holds(e1 >= k, v) == (a >= k) &&
                       holds(e1 > k, v) == (a > k) && holds(e1 == k, v) == (a == k) && holds(e1 != k, v) == (a != k),
           "cst_operators_const", "comparison with constant built a wrong constraint");
    if (c.is_strict_inequality()) {
      cst_t ns = ikos::linear_constraint_impl::strict_to_non_strict_inequality(c);
      VCHECK(ctx, P, holds(ns, v) == h, "cst_strict_to_nonstrict", str(c) << " -> " << str(ns));
    }
    cst_t cr = c.rename(ren);
    val_t v2 = v;
    for (auto &kv : ren)
      v2[kv.second] = v[kv.first];
    VCHECK(ctx, P, holds(cr, v2) == holds(c, compose(v2)), "cst_rename", str(c) << " -> " << str(cr));
    VCHECK(ctx, P, holds(cr, v) == holds(c, compose(v)), "cst_rename", str(c) << " -> " << str(cr));
  }
  if (e1.is_constant()) {
    val_t empty;
    bool h = holds(c, empty);
    VCHECK(ctx, P, c.is_tautology() == h, "cst_tautology_exact", str(c) << " constant constraint: is_tautology()=" << c.is_tautology() << " truth=" << h);
    VCHECK(ctx, P, c.is_contradiction() == !h, "cst_contradiction_exact", str(c));
    R().cls("constant_constraint");
  }
  VCHECK(ctx, P, cst_t::get_true().is_tautology() && cst_t::get_false().is_contradiction(), "cst_true_false", "");
  // constraint systems: normalize preserves the solution set
  {
    csts_t sys;
    unsigned n = 1 + t.pick(6);
    std::vector<cst_t> pool;
    for (unsigned i = 0; i < n; i++) {
      unsigned w = t.pick(6);
      lin_t e = (w == 0 && !pool.empty()) ? -pool[t.pick(pool.size())].expression() : (w == 1 ? e1 : (w == 2 ? -e1 : gen_expr(2)));
      cst_t cc(e, kinds[t.pick(8) < 5 ? 0 : t.pick(4)]);
      pool.push_back(cc);
      sys += cc;
    }
    csts_t norm = sys.normalize();
    crab::crab_string_os o1, o2;
    o1 << sys;
    o2 << norm;
    ctx.log << "sys " << o1.str() << " normalized " << o2.str() << "\n";
    bool paired = norm.size() < sys.size();
    // valuations: the random ones + ones solving e1 == 0 when possible
    std::vector<val_t> vs = vals;
    for (auto &v : vals) {
      // try to fix the first variable with unit coefficient so that e1 = 0
      for (unsigned i = 0; i < 4; i++) {
        z_number cf = e1[vars[i]];
        if (cf == 1 || cf == -1) {
          val_t v2 = v;
          v2[vars[i]] = v2[vars[i]] - eval(e1, v) * cf;
          vs.push_back(v2);
          break;
        }
      }
    }
    for (auto &v : vs) {
      bool a = true, b = true;
      for (auto &cc : sys)
        a = a && holds(cc, v);
      for (auto &cc : norm)
        b = b && holds(cc, v);
      VCHECK(ctx, P, a == b, "sys_normalize", "normalize changed the truth value: " << o1.str() << " -> " << o2.str());
    }
    VCHECK(ctx, P, !(sys.is_false()) || true, "sys_is_false", "");
    if (sys.is_false()) {
      for (auto &v : vs) {
        bool a = true;
        for (auto &cc : sys)
          a = a && holds(cc, v);
        VCHECK(ctx, P, !a, "sys_is_false_sat", "is_false() system satisfied: " << o1.str());
      }
    }
    if (paired)
      R().cls("normalize_merged_pair");
  }
  if (e1.size() >= 2) {
    ctx.nontrivial = true;
    R().cls("constraint_ge2_vars");
  }
  if (saw_true && saw_false)
    R().cls("constraint_both_truth_values");
  R().cls("mode_linear");
}

namespace verif {
void run_case(const uint8_t *data, size_t size, CaseCtx &ctx) {
  Tape t(data, size);
  unsigned rounds = 1 + t.pick(4);
  for (unsigned i = 0; i < rounds; i++) {
    switch (t.pick(5)) {
    case 0: z_differential(t, ctx); break;
    case 1: z_identities(t, ctx); break;
    case 2: q_checks(t, ctx); break;
    case 3: safe_checks(t, ctx); break;
    default: linear_checks(t, ctx); break;
    }
  }
}
} // namespace verif
