// h_rgn-<base>: property C15 -- the region/reference domain is sound for loads and
// reference queries.  Forward intra-procedural analysis over
// region_domain<RegionParams<base>> vs concrete executions with a heap model
// (prog/heap.hpp):
//   (1) after every statement (in particular after every load_from_ref) the concrete
//       scalar state is a member of the propagated invariant; a reached state is
//       never bottom;
//   (2) is_null_ref / get_allocation_sites / get_tags on the invariant of a program
//       point hold for every concrete state reaching it.
#include "core/report.hpp"
#include "core/tape.hpp"
#include <cstdlib>
#include <iostream>

#include "prog/gen_rgn.hpp"
#include "prog/heap.hpp"
#include "prog/member.hpp"
#include "prog/params.hpp"
#include "prog/stmtkind.hpp"

#include <crab/analysis/dataflow/liveness.hpp>
#include <crab/analysis/fwd_analyzer.hpp>
#include <crab/domains/abstract_domain_params.hpp>
#include <crab/domains/constant_domain.hpp>
#include <crab/domains/flat_boolean_domain.hpp>
#include <crab/domains/intervals.hpp>
#include <crab/domains/region_domain.hpp>
#include <crab/domains/sign_constant_domain.hpp>
#include <crab/domains/split_dbm.hpp>

using namespace verif;
using namespace vp;

namespace verif {
const char *harness_name() { return "h_rgn-" VERIF_VARIANT; }
} // namespace verif

// ---- domain under test, instantiated as in tests/crab_dom.hpp.  NOTE: str_var_alloc_col::varname_t
//      IS str_variable_factory::varname_t, so region_domain selects
//      ghost_variable_manager_with_fixed_naming (std::is_same<varname_t, base_varname_t>); the
//      manager with variable naming cannot be instantiated with the factories shipped in the tree
//      when programs use string variable names (crab's own tests do not reach it either) --------
template <class BaseAbsDom> struct RegionParams {
  using number_t = z_number;
  using varname_t = vp::varname_t;
  using varname_allocator_t = crab::var_factory_impl::str_var_alloc_col;
  using base_abstract_domain_t = BaseAbsDom;
  using base_varname_t = typename BaseAbsDom::varname_t;
};
using bvarname_t = typename crab::var_factory_impl::str_var_alloc_col::varname_t;
using dbm_graph_t = crab::domains::DBM_impl::DefaultParams<z_number, crab::domains::DBM_impl::GraphRep::adapt_ss>;

static const int64_t CONST_CAP_BIG = (int64_t)1 << 62;
#if defined(VERIF_VARIANT_interval)
using base_dom_t = ikos::interval_domain<z_number, bvarname_t>;
static const bool INT64_WEIGHTS = false, HAS_BOOL = false;
#elif defined(VERIF_VARIANT_bool_int)
using base_dom_t = crab::domains::flat_boolean_numerical_domain<ikos::interval_domain<z_number, bvarname_t>>;
static const bool INT64_WEIGHTS = false, HAS_BOOL = true;
#elif defined(VERIF_VARIANT_sdbm)
using base_dom_t = crab::domains::split_dbm_domain<z_number, bvarname_t, dbm_graph_t>;
static const bool INT64_WEIGHTS = true, HAS_BOOL = false;
#define VERIF_RELATIONAL_BASE 1
#elif defined(VERIF_VARIANT_constant)
using base_dom_t = crab::domains::constant_domain<z_number, bvarname_t>;
static const bool INT64_WEIGHTS = false, HAS_BOOL = false;
#elif defined(VERIF_VARIANT_sign_constant)
using base_dom_t = crab::domains::sign_constant_domain<z_number, bvarname_t>;
static const bool INT64_WEIGHTS = false, HAS_BOOL = false;
#else
#error "unknown VERIF_VARIANT for h_rgn"
#endif
#ifdef VERIF_RELATIONAL_BASE
static const bool RELATIONAL = true;
#else
static const bool RELATIONAL = false;
#endif
using dom_t = crab::domains::region_domain<RegionParams<base_dom_t>>;

using analyzer_t = crab::analyzer::intra_fwd_analyzer<cfg_ref_t, dom_t>;
using abs_tr_t = typename analyzer_t::abs_tr_t;

static std::string mkind(const std::string &reason) { return reason.substr(0, 2); }

static bool large_magnitude(const dom_t &inv, const std::vector<var_t> &vars) {
  if (inv.is_bottom())
    return false;
  z_number lim = z_number(1) << z_number(40);
  for (auto &v : vars) {
    auto i = inv.at(v);
    if (i.is_bottom())
      continue;
    if (i.lb().is_finite() && (*i.lb().number() > lim || *i.lb().number() < -lim))
      return true;
    if (i.ub().is_finite() && (*i.ub().number() > lim || *i.ub().number() < -lim))
      return true;
  }
  return false;
}

// answers of the reference queries at one program point (same for all executions)
struct RefAnswers {
  bool done = false;
  std::map<var_t, int> null3;                                 // 1 definitely null, 0 definitely non-null, 2 unknown
  std::map<var_t, std::pair<bool, std::set<size_t>>> sites;   // get_allocation_sites
  std::map<var_t, std::pair<bool, std::set<uint64_t>>> tags;  // get_tags(home, ref)
};

struct BlockInv {
  dom_t pre, post;
  std::vector<dom_t> after;
  bool have_after = false;
  RefAnswers q_pre, q_post;
  std::vector<RefAnswers> q_after;
  // scalar states already found to be members at a point (executions repeat each other a lot,
  // and every operation of the region domain pays for CrabStats bookkeeping)
  std::set<std::string> seen_pre, seen_post;
  std::vector<std::set<std::string>> seen_after;
};

struct RgnObs : public Observer {
  analyzer_t &a;
  CaseCtx &ctx;
  RgnProgram &prog;
  HeapInterp *cur = nullptr;
  std::map<label_t, BlockInv> cache;
  MemberOpts mo;
  bool saw_nontrivial_inv = false;
  unsigned checks = 0, query_checks = 0, definite_null_answers = 0, site_answers = 0, tag_answers = 0;
  std::vector<var_t> scalars;
  bool magnitude_hit = false;

  RgnObs(analyzer_t &an, CaseCtx &c, RgnProgram &p) : a(an), ctx(c), prog(p) {
    scalars = p.all_scalar_vars();
    mo.disjunctive = false; // region_domain raises CRAB_ERROR ("not implemented")
  }

  BlockInv &inv(const label_t &l) {
    auto it = cache.find(l);
    if (it != cache.end())
      return it->second;
    BlockInv bi{a.get_pre(l), a.get_post(l), {}, false, {}, {}, {}, {}, {}, {}};
    if (INT64_WEIGHTS && (large_magnitude(bi.pre, scalars) || large_magnitude(bi.post, scalars)))
      magnitude_hit = true;
    return cache.emplace(l, std::move(bi)).first->second;
  }
  void compute_after(const cfg_t &cfg, const label_t &l, BlockInv &bi) {
    if (bi.have_after)
      return;
    bi.have_after = true;
    abs_tr_t &tr = a.get_abs_transformer();
    dom_t pre(bi.pre);
    tr.set_abs_value(std::move(pre));
    auto &b = const_cast<cfg_t &>(cfg).get_node(l);
    for (auto &s : b) {
      s.accept(&tr);
      bi.after.push_back(tr.get_abs_value());
      if (INT64_WEIGHTS && large_magnitude(bi.after.back(), scalars))
        magnitude_hit = true;
    }
    bi.q_after.resize(bi.after.size());
    bi.seen_after.resize(bi.after.size());
  }
  void note(const dom_t &d) {
    if (!d.is_top() && !d.is_bottom())
      saw_nontrivial_inv = true;
  }
  void guard(const State &s) {
    if (magnitude_hit)
      throw Truncate{"int64_dbm_weights_large_magnitude"};
    if (INT64_WEIGHTS && state_has_large_value(s))
      throw Truncate{"int64_dbm_weights_large_concrete_value"};
    // repeated squaring in a loop: the numbers (and their decimal strings) explode
    if (state_has_large_value(s, 256))
      throw HeapEnd{Stop::Outside, "value magnitude beyond 2^256"};
  }

  void answer(const dom_t &d, RefAnswers &q) {
    if (q.done)
      return;
    q.done = true;
    if (d.is_bottom())
      return;
    dom_t c(d); // the queries are non-const members
    for (auto &r : prog.refs) {
      auto bv = c.is_null_ref(r.v);
      q.null3[r.v] = bv.is_true() ? 1 : bv.is_false() ? 0 : 2;
      std::vector<crab::tag> out;
      bool ok = c.get_allocation_sites(r.v, out);
      std::set<size_t> ss;
      for (auto &as : out)
        ss.insert((size_t)as.index());
      q.sites[r.v] = {ok, ss};
      std::vector<uint64_t> tg;
      bool okt = c.get_tags(prog.rgns[r.home].v, r.v, tg);
      q.tags[r.v] = {okt, std::set<uint64_t>(tg.begin(), tg.end())};
    }
  }
  // known finding: ref_make does not forget the previous address of its lhs; everything the
  // base domain then derives from that address (nullness, ref_to_int, reference constraints,
  // bottom after an assume on it) is about the OLD value
  static const char *stale_tag() { return "rgn_make_ref_keeps_stale_address_of_lhs"; }
  static const char *miscount_tag() { return "rgn_load_refcount_one_kept_on_redefinition_with_live_alias"; }
  std::string scalar_tag(const std::string &dflt, const std::string &reason) {
    if (reason.empty() || !cur)
      return dflt;
    // known finding of the flat boolean domain (see heap.hpp): only the variants with a boolean base
    // (classifiers of repaired defects only win while their tag is switched on; otherwise the
    // failure keeps its plain tag or falls to the next classifier)
    if (HAS_BOOL && cur->stale_bool_link && R().is_known("flatbool_stale_bool_implication_after_redefinition"))
      return "flatbool_stale_bool_implication_after_redefinition";
    if (HAS_BOOL && cur->stale_negated_copy && R().is_known("flatbool_negated_copy_keeps_old_constraint"))
      return "flatbool_negated_copy_keeps_old_constraint";
    if (!cur->any_stale() || !R().is_known(stale_tag()))
      return dflt;
    if (reason.compare(0, 2, "M1") == 0)
      return stale_tag(); // a stale address made an assume_ref / ref constraint infeasible
    for (auto &v : cur->stale_scalars)
      if (reason.find(to_str(v)) != std::string::npos)
        return stale_tag();
    return dflt;
  }
  // reference queries vs the concrete heap
  template <class Where> void check_refs(const dom_t &d, RefAnswers &q, Where where_fn) {
    if (!cur || d.is_bottom())
      return;
    answer(d, q);
    const Heap &h = cur->heap;
    std::string where;
    bool have_where = false;
    auto need_where = [&]() {
      if (!have_where) {
        where = where_fn();
        have_where = true;
      }
    };
    for (auto &r : prog.refs) {
      RefVal v = h.ref(r.v);
      if (v.k == RefVal::Uninit)
        continue;
      query_checks++;
      int n3 = q.null3[r.v];
      bool is_null = v.k == RefVal::Null;
      // with a relational base domain the stale address of a re-made reference stays related to
      // the addresses of other references (r := gep(q); q := make_ref(..); assume(q > null))
      bool stale = v.stale || (RELATIONAL && cur->any_stale());
      if (n3 != 2)
        definite_null_answers++;
      if ((n3 == 1 && !is_null) || (n3 == 0 && is_null))
        need_where();
      VCHECK(ctx, "C15", !(n3 == 1 && !is_null), (stale && R().is_known(stale_tag())) ? stale_tag() : v.from_miscounted_region ? miscount_tag() : "rgn_is_null_wrong_true",
             where << ": is_null_ref(" << to_str(r.v) << ") = true but the reference is " << v.str() << "; invariant " << to_str(d) << " heap " << h.str());
      VCHECK(ctx, "C15", !(n3 == 0 && is_null), (stale && R().is_known(stale_tag())) ? stale_tag() : v.from_miscounted_region ? miscount_tag() : "rgn_is_null_wrong_false",
             where << ": is_null_ref(" << to_str(r.v) << ") = false but the reference is null; invariant " << to_str(d) << " heap " << h.str());
      if (v.k != RefVal::Obj)
        continue;
      auto &sa = q.sites[r.v];
      if (sa.first) {
        site_answers++;
        size_t site = h.objs[v.obj].site;
        if (!sa.second.count(site))
          need_where();
        VCHECK(ctx, "C15", sa.second.count(site) > 0, v.from_miscounted_region ? miscount_tag() : "rgn_alloc_sites_miss",
               where << ": get_allocation_sites(" << to_str(r.v) << ") returned a set of " << sa.second.size() << " site(s) without the actual site as_" << site
                     << " of " << v.str() << "; invariant " << to_str(d) << " heap " << h.str());
      }
      auto &ta = q.tags[r.v];
      if (ta.first) {
        auto it = h.tags.find(CellKey{prog.rgns[r.home].v, v.obj, v.off});
        if (it != h.tags.end() && !it->second.empty()) {
          tag_answers++;
          need_where();
          for (uint64_t tg : it->second)
            VCHECK(ctx, "C15", ta.second.count(tg) > 0, cur->redefined_with_live_alias.count(prog.rgns[r.home].v) ? miscount_tag() : "rgn_tags_miss",
                   where << ": get_tags(" << to_str(prog.rgns[r.home].v) << "," << to_str(r.v) << ") lacks tag " << tg << " added to the cell of " << v.str()
                         << " since its last store; invariant " << to_str(d) << " heap " << h.str());
        }
      }
    }
  }

  void block_entry(const cfg_t &cfg, const label_t &l, const State &s) override {
    BlockInv &bi = inv(l);
    guard(s);
    note(bi.pre);
    checks++;
    std::string r;
    if (bi.seen_pre.insert(s.str()).second)
      r = member(s, bi.pre, mo);
    VCHECK(ctx, "C15", r.empty(), scalar_tag("rgn_pre_" + mkind(r), r),
           "state " << s.str() << " enters block " << l << " but is not in get_pre = " << to_str(bi.pre) << " : " << r);
    check_refs(bi.pre, bi.q_pre, [&]() { return "entry of " + l; });
  }
  void after_stmt(const cfg_t &cfg, const label_t &l, unsigned idx, stmt_t &st, const State &s) override {
    BlockInv &bi = inv(l);
    compute_after(cfg, l, bi);
    guard(s);
    if (idx >= bi.after.size())
      return;
    checks++;
    note(bi.after[idx]);
    std::string r;
    if (bi.seen_after[idx].insert(s.str()).second)
      r = member(s, bi.after[idx], mo);
    std::string tag;
    if (!r.empty()) {
      using V = crab::cfg::statement_visitor<label_t, z_number, varname_t>;
      tag = st.is_ref_load() ? "rgn_load_" + mkind(r) : "rgn_stmt_" + stmt_kind(st) + "_" + mkind(r);
      bool region_known = false;
      if (st.is_ref_load() && cur) {
        auto &ld = static_cast<V::load_from_ref_t &>(st);
        if (cur->redefined_with_live_alias.count(ld.region())) {
          // known finding: the reference count of a region stays 1(V) when V is counted again
          // although V's previous target is still reachable (see heap.hpp)
          tag = miscount_tag();
          region_known = true;
        } else if (cur->cast_of_multi_cell_region.count(ld.region()) && r.compare(0, 2, "M2") != 0) {
          tag = "rgn_region_cast_assigns_summary_of_non_singleton"; // relational facts only
          region_known = true;
        }
      }
      if (r.compare(0, 2, "M1") == 0 && (st.is_ref_assume() || st.is_ref_assert()) &&
          crab::domains::crab_domain_params_man::get().region_is_dereferenceable()) {
        // known finding: ref_assume(p == q + k) also asserts size(p) == size(q) + k on the ghost
        // size variables (ghosting_ref_cst_to_linear_cst applies the offset to every kind)
        const ref_cst_t &c = st.is_ref_assume() ? static_cast<V::assume_ref_t &>(st).constraint() : static_cast<V::assert_ref_t &>(st).constraint();
        if (c.is_binary() && c.is_equality() && c.offset() != 0) {
          tag = "rgn_ref_assume_eq_offset_applied_to_size";
          region_known = true;
        }
      }
      if (!region_known)
        tag = scalar_tag(tag, r);
    }
    VCHECK(ctx, "C15", r.empty(), tag,
           "after `" << to_str(st) << "` in block " << l << " state " << s.str() << " is not in the propagated invariant " << to_str(bi.after[idx])
                     << " (before: " << (idx ? to_str(bi.after[idx - 1]) : to_str(bi.pre)) << ") : " << r << " ; heap " << (cur ? cur->heap.str() : ""));
    check_refs(bi.after[idx], bi.q_after[idx], [&]() { return "after `" + to_str(st) + "` in " + l; });
  }
  void block_exit(const cfg_t &cfg, const label_t &l, const State &s) override {
    BlockInv &bi = inv(l);
    guard(s);
    note(bi.post);
    checks++;
    std::string r;
    if (bi.seen_post.insert(s.str()).second)
      r = member(s, bi.post, mo);
    VCHECK(ctx, "C15", r.empty(), scalar_tag("rgn_post_" + mkind(r), r),
           "state " << s.str() << " leaves block " << l << " but is not in get_post = " << to_str(bi.post) << " : " << r);
    check_refs(bi.post, bi.q_post, [&]() { return "exit of " + l; });
  }
};

namespace verif {
void run_case(const uint8_t *data, size_t size, CaseCtx &ctx) {
  Tape t(data, size);
  // ---- parameters --------------------------------------------------------------
  crab::fixpoint_parameters fp;
  fp.get_widening_delay() = t.pick(6);
  fp.get_descending_iterations() = t.pick(4);
  static const unsigned thr[] = {0, 1, 5, 20};
  fp.get_max_thresholds() = thr[t.pick(4)];
  bool use_liveness = t.flag();
  crab::CrabSanityCheckFlag = false;
  crab::CrabWarningFlag = false;
  decode_domain_params(t, std::string("rgn_") + VERIF_VARIANT, ctx.log);
  auto &pm = crab::domains::crab_domain_params_man::get();

  // ---- program -------------------------------------------------------------------
  RgnProgram prog;
  GenOpts go;
  go.caps = CAP_ARITH | CAP_DIV | CAP_SELECT | CAP_HAVOC | CAP_UNREACHABLE | CAP_ASSERT | CAP_NONLINEAR | CAP_DISEQ | CAP_UNSTRUCTURED;
  if (HAS_BOOL)
    go.caps |= CAP_BOOL;
  if (!INT64_WEIGHTS)
    go.caps |= CAP_BIGCONST;
  go.const_cap = INT64_WEIGHTS ? 1000000 : CONST_CAP_BIG;
  go.max_blocks = 9;
  go.max_stmts_per_block = 6;
  RgnGenOpts ro;
  ro.dealloc = pm.region_deallocation();
  ro.tags = pm.region_tag_analysis() || t.pick(4) == 0;
  GenRgn gen(t, go, ro, prog);
  gen.build();
  cfg_t &cfg = *prog.cfg;
  ctx.log << "domain=rgn(" << VERIF_VARIANT << ") delay=" << fp.get_widening_delay() << " narrow=" << fp.get_descending_iterations()
          << " thresholds=" << fp.get_max_thresholds() << " liveness=" << use_liveness << "\n";
  std::string cfg_text = to_str(cfg);
  ctx.log << cfg_text;
  ctx.mixs(cfg_text);
  ctx.mix(fp.get_widening_delay() * 64 + fp.get_descending_iterations() * 8 + fp.get_max_thresholds());
  ctx.mix((pm.region_allocation_sites() ? 1 : 0) | (pm.region_deallocation() ? 2 : 0) | (pm.region_tag_analysis() ? 4 : 0) | (pm.region_is_dereferenceable() ? 8 : 0) |
          (pm.region_skip_unknown_regions() ? 16 : 0));
  if (getenv("VERIF_TRACE"))
    std::cerr << ctx.log.str() << std::flush;
  type_check(cfg);
  R().cls(prog.structured ? "shape_structured" : "shape_unstructured");
  if (prog.n_loops)
    R().cls("has_loop");
  for (auto &r : prog.rgns)
    R().cls(r.kind == RgnDecl::INT ? "region_int" : r.kind == RgnDecl::BOOL ? "region_bool" : r.kind == RgnDecl::REF ? "region_ref" : "region_unknown");

  // ---- initial value ---------------------------------------------------------------
  // The program generator may use up the whole tape; the choices of the executions (initial
  // values, branches, arbitrary values) are therefore decoded from the last third of the byte
  // string with a cursor of their own (still a deterministic function of the bytes).
  size_t consumed_by_generation = t.consumed();
  size_t ex_len = size / 3;
  Tape te(data + (size - ex_len), ex_len);
  std::vector<var_t> scalars = prog.all_scalar_vars();
  State sigma0;
  for (auto &v : scalars)
    sigma0.num[v] = v.get_type().is_bool() ? z_number((int64_t)(te.u8() & 1)) : z_number(te.small_int(6));
  csts_t init_csts;
  unsigned ninit = te.pick(4);
  for (unsigned i = 0; i < ninit && !prog.ints.empty(); i++) {
    const var_t &x = prog.ints[te.pick((unsigned)prog.ints.size())];
    z_number slack((int64_t)te.pick(4));
    switch (te.pick(3)) {
    case 0: init_csts += cst_t(lin_t(x) == lin_t(sigma0.num[x])); break;
    case 1: init_csts += cst_t(lin_t(x) <= lin_t(sigma0.num[x] + slack)); break;
    default: init_csts += cst_t(lin_t(x) >= lin_t(sigma0.num[x] - slack)); break;
    }
  }
  dom_t top;
  dom_t init = top.make_top();
  init += init_csts;
  ctx.log << "init: " << to_str(init_csts) << "\n";

  // ---- analysis ----------------------------------------------------------------------
  crab::analyzer::live_and_dead_analysis<cfg_ref_t> live(cfg);
  if (use_liveness)
    live.exec();
  analyzer_t a(cfg, top.make_top(), use_liveness ? &live : nullptr, fp);
  typename analyzer_t::assumption_map_t assumptions;
  g_step_count = 0;
  g_step_budget = 400000;
  try {
    a.run(cfg.entry(), init, assumptions);
  } catch (const step_budget_exceeded &e) {
    g_step_budget = ~0UL;
    VCHECK(ctx, "C05", false, "rgn_analysis_step_budget", "forward analysis exceeded " << e.steps << " fixpoint/transfer events (suspected non-termination)");
    throw Truncate{"step_budget"};
  }
  g_step_budget = ~0UL;
  if (ctx.verbose)
    for (auto &l : prog.labels)
      ctx.log << "  inv " << l << ": pre=" << to_str(a.get_pre(l)) << " post=" << to_str(a.get_post(l)) << "\n";

  // ---- executions -------------------------------------------------------------------------
  if (te.exhausted())
    R().cls("execution_tape_exhausted_before_executions");
  RgnObs obs(a, ctx, prog);
  unsigned nexec = 4 + te.pick(9);
  unsigned long_execs = 0, total_blocks = 0;
  unsigned loads = 0, nt_multi = 0, nt_alias = 0, nt_remake = 0, ref_loads = 0;
  for (unsigned e = 0; e < nexec; e++) {
    State s = sigma0;
    if (e > 0) {
      for (auto &v : scalars)
        if (te.pick(3) == 0)
          s.num[v] = v.get_type().is_bool() ? z_number((int64_t)(te.u8() & 1)) : z_number(te.small_int(10));
      bool ok = true;
      for (auto &c : init_csts) {
        bool def;
        if (!Interp::holds_in(c, s, def))
          ok = false;
      }
      if (!ok)
        s = sigma0;
    }
    HeapInterp in(te);
    in.obs = &obs;
    in.typing = &prog.typing;
    obs.cur = &in;
    if (INT64_WEIGHTS)
      in.big_chance = 0;
    Stop why = in.run_heap(cfg, cfg.entry(), s);
    obs.cur = nullptr;
    total_blocks += in.path.size();
    if (in.path.size() >= 3)
      long_execs++;
    R().cls(std::string("exec_stop_") + stop_name(why));
    if (why == Stop::Outside)
      R().trunc(in.outside_reason);
    loads += in.loads;
    nt_multi += in.nt_multi_cell;
    nt_alias += in.nt_alias_store;
    nt_remake += in.nt_remake;
    ref_loads += in.ref_loads;
    if (in.loads)
      R().cls("exec_with_judged_load");
    if (in.unary_cst_on_null)
      R().cls("exec_null_test_on_null_reference");
    if (in.nt_multi_cell)
      R().cls("exec_load_from_region_with_2_cells");
    if (in.nt_alias_store)
      R().cls("exec_load_after_store_through_alias");
    if (in.nt_remake)
      R().cls("exec_load_after_repeated_make_ref_with_alias");
    if (ctx.verbose) {
      ctx.log << "exec " << e << ": ";
      for (auto &l : in.path)
        ctx.log << l << " ";
      ctx.log << "-> " << stop_name(why) << (why == Stop::Outside ? " (" + in.outside_reason + ")" : "") << " final " << s.str() << " " << in.heap.str() << "\n";
    }
  }
  ctx.log << "executions=" << nexec << " blocks_visited=" << total_blocks << " membership_checks=" << obs.checks << " ref_query_checks=" << obs.query_checks
          << " judged_loads=" << loads << " tape_bytes(program/total/size)=" << consumed_by_generation << "/" << te.consumed() << "/" << size << "\n";
  if (loads)
    R().cls("program_with_judged_load");
  if (ref_loads)
    R().cls("program_with_judged_reference_load");
  if (nt_multi)
    R().cls("program_load_from_region_with_2_cells");
  if (nt_alias)
    R().cls("program_load_after_store_through_alias");
  if (nt_remake)
    R().cls("program_load_after_repeated_make_ref_with_alias");
  if (obs.definite_null_answers)
    R().cls("program_with_definite_null_answer");
  if (obs.site_answers)
    R().cls("program_with_alloc_site_answer");
  if (obs.tag_answers)
    R().cls("program_with_tag_answer_on_tagged_cell");
  if (obs.saw_nontrivial_inv)
    R().cls("program_with_nontrivial_invariant");
  ctx.nontrivial = nt_multi > 0 || nt_alias > 0 || nt_remake > 0;
}
} // namespace verif
