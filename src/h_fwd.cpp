// h_fwd-<domain>: forward intra-procedural analysis vs concrete executions.
//   C01  invariants at block entry/exit (and after every statement) contain
//        every concrete state of every execution
//   C02  (intra) safe/unreachable verdicts are never wrong
//   C05a the analysis terminates (deterministic step budget)
//   C14  array loads (array domains) -- same oracle, observed on the lhs
#include "core/report.hpp"
#include <iostream>
#include <cstdlib>
#include "core/tape.hpp"
#include "prog/domains.hpp"
#include "prog/gen.hpp"
#include "prog/interp.hpp"
#include "prog/member.hpp"
#include "prog/params.hpp"
#include "prog/stmtkind.hpp"

#include <crab/analysis/dataflow/liveness.hpp>
#include <crab/analysis/fwd_analyzer.hpp>
#include <crab/checkers/assertion.hpp>
#include <crab/checkers/base_property.hpp>
#include <crab/checkers/checker.hpp>

using namespace verif;
using namespace vp;

namespace verif {
const char *harness_name() { return "h_fwd-" VERIF_VARIANT; }
} // namespace verif

using analyzer_t = crab::analyzer::intra_fwd_analyzer<cfg_ref_t, dom_t>;
using abs_tr_t = typename analyzer_t::abs_tr_t;
using checker_t = crab::checker::intra_checker<analyzer_t>;
using assert_checker_t = crab::checker::assert_property_checker<analyzer_t>;

#ifdef VERIF_INT64_WEIGHTS
static const bool INT64_WEIGHTS = true;
#else
static const bool INT64_WEIGHTS = false;
#endif

static std::string mkind(const std::string &reason) { return reason.substr(0, 2); }

// does this abstract value carry a finite bound of large magnitude? (int64 DBM guard)
static bool large_magnitude(const dom_t &inv, const std::vector<var_t> &vars) {
  if (inv.is_bottom())
    return false;
  z_number lim = z_number(1) << z_number(40);
  for (auto &v : vars) {
    auto i = inv.at(v);
    if (i.is_bottom())
      continue;
    if (i.lb().is_finite() && (*i.lb().number() > lim || *i.lb().number() < -lim))
      return true;
    if (i.ub().is_finite() && (*i.ub().number() > lim || *i.ub().number() < -lim))
      return true;
  }
  return false;
}

struct BlockInv {
  dom_t pre, post;
  std::vector<dom_t> after; // after each statement (re-propagated from pre)
  bool have_after = false;
};

struct FwdObs : public Observer {
  analyzer_t &a;
  CaseCtx &ctx;
  Program &prog;
  std::map<label_t, BlockInv> cache;
  std::map<int64_t, bool> reached, violated;
  std::map<label_t, csts_t> *assumptions = nullptr;
  MemberOpts mo;
  bool saw_nontrivial_inv = false;
  unsigned checks = 0, loads_checked = 0, symbolic_loads = 0;
  const char *mp = "C01"; // property the membership oracle reports under (C14 for array domains when selected)
  std::vector<var_t> scalars;
  bool magnitude_hit = false;

  FwdObs(analyzer_t &an, CaseCtx &c, Program &p) : a(an), ctx(c), prog(p) {
    scalars = p.all_scalar_vars();
    if (ctx.selected_prop == "C14")
      mp = "C14";
#ifdef VERIF_WRAPPED
    if (ctx.selected_prop == "C13")
      mp = "C13";
#endif
  }

  BlockInv &inv(const label_t &l) {
    auto it = cache.find(l);
    if (it != cache.end())
      return it->second;
    BlockInv bi{a.get_pre(l), a.get_post(l), {}, false};
    if (INT64_WEIGHTS && (large_magnitude(bi.pre, scalars) || large_magnitude(bi.post, scalars)))
      magnitude_hit = true;
    return cache.emplace(l, std::move(bi)).first->second;
  }
  void compute_after(const cfg_t &cfg, const label_t &l, BlockInv &bi) {
    if (bi.have_after)
      return;
    bi.have_after = true;
    abs_tr_t &tr = a.get_abs_transformer();
    dom_t pre(bi.pre);
    tr.set_abs_value(std::move(pre));
    auto &b = const_cast<cfg_t &>(cfg).get_node(l);
    for (auto &s : b) {
      s.accept(&tr);
      bi.after.push_back(tr.get_abs_value());
      if (INT64_WEIGHTS && large_magnitude(bi.after.back(), scalars))
        magnitude_hit = true;
    }
  }
  void note(const dom_t &d) {
    if (!d.is_top() && !d.is_bottom())
      saw_nontrivial_inv = true;
  }
  void guard_magnitude() {
    if (magnitude_hit)
      throw Truncate{"int64_dbm_weights_large_magnitude"};
  }
  // int64-weight DBMs: overflow is unchecked by design (graph_config.hpp), so
  // states with huge values (and the probes built from them) are outside the model
  void guard_state(const State &s) {
    if (INT64_WEIGHTS && state_has_large_value(s))
      throw Truncate{"int64_dbm_weights_large_concrete_value"};
  }
  void block_entry(const cfg_t &cfg, const label_t &l, const State &s) override {
    BlockInv &bi = inv(l);
    guard_magnitude();
    guard_state(s);
    note(bi.pre);
    checks++;
    std::string r = member(s, bi.pre, mo);
    VCHECK(ctx, mp, r.empty(), "fwd_pre_" + mkind(r),
           "state " << s.str() << " enters block " << l << " but is not in get_pre = " << to_str(bi.pre) << " : " << r);
  }
  void after_stmt(const cfg_t &cfg, const label_t &l, unsigned idx, stmt_t &st, const State &s) override {
    BlockInv &bi = inv(l);
    compute_after(cfg, l, bi);
    guard_magnitude();
    guard_state(s);
    if (idx >= bi.after.size())
      return;
    checks++;
    if (st.is_arr_read() && !bi.after[idx].is_top()) {
      loads_checked++;
      auto &ld = static_cast<crab::cfg::statement_visitor<label_t, z_number, varname_t>::arr_load_t &>(st);
      if (!ld.index().is_constant())
        symbolic_loads++;
    }
    std::string r = member(s, bi.after[idx], mo);
    std::string tag = "fwd_stmt_" + stmt_kind(st) + "_" + mkind(r);
    // known finding (known_findings.json): array_adaptive drops stores beyond
    // array_adaptive.max_array_size cells without remembering it, and a later load
    // through a symbolic index only looks at the cells it still tracks
    if (!r.empty() && st.is_arr_read() && std::string(VERIF_VARIANT).compare(0, 3, "aa_") == 0) {
      // ... which needs more concretely written cells in that array than the limit allows
      auto &ld = static_cast<crab::cfg::statement_visitor<label_t, z_number, varname_t>::arr_load_t &>(st);
      auto ai = s.arr.find(ld.array());
      uint64_t ncells = ai == s.arr.end() ? 0 : ai->second.size();
      if (ncells > crab::domains::crab_domain_params_man::get().array_adaptive_max_array_size())
        tag = "aa_symbolic_load_unsound_small_max_array_size";
    }
    VCHECK(ctx, mp, r.empty(), tag,
           "after `" << to_str(st) << "` in block " << l << " state " << s.str() << " is not in the propagated invariant "
                     << to_str(bi.after[idx]) << " (before: " << (idx ? to_str(bi.after[idx - 1]) : to_str(bi.pre)) << ") : " << r);
  }
  void block_exit(const cfg_t &cfg, const label_t &l, const State &s) override {
    BlockInv &bi = inv(l);
    guard_magnitude();
    guard_state(s);
    note(bi.post);
    checks++;
    std::string r = member(s, bi.post, mo);
    VCHECK(ctx, mp, r.empty(), "fwd_post_" + mkind(r),
           "state " << s.str() << " leaves block " << l << " but is not in get_post = " << to_str(bi.post) << " : " << r);
  }
  void assertion(const cfg_t &, stmt_t &st, bool holds, const State &) override {
    int64_t id = st.get_debug_info().get_id();
    reached[id] = true;
    if (!holds)
      violated[id] = true;
  }
};

namespace verif {
void run_case(const uint8_t *data, size_t size, CaseCtx &ctx) {
  Tape t(data, size);
  // ---- parameters --------------------------------------------------------------
  crab::fixpoint_parameters fp;
  fp.get_widening_delay() = t.pick(6);
  fp.get_descending_iterations() = t.pick(4);
  static const unsigned thr[] = {0, 1, 5, 20};
  fp.get_max_thresholds() = thr[t.pick(4)];
  bool use_liveness = t.flag();
  crab::CrabSanityCheckFlag = false;
  crab::CrabWarningFlag = false;
  decode_domain_params(t, VERIF_VARIANT, ctx.log);

  // ---- program -------------------------------------------------------------------
  Program prog;
  GenOpts go;
  go.caps = DOM_CAPS;
  go.const_cap = VERIF_CONST_CAP;
  Gen gen(t, go, prog);
  gen.build();
  cfg_t &cfg = *prog.cfg;
  ctx.log << "domain=" << VERIF_VARIANT << " delay=" << fp.get_widening_delay() << " narrow=" << fp.get_descending_iterations()
          << " thresholds=" << fp.get_max_thresholds() << " liveness=" << use_liveness << "\n";
  std::string cfg_text = to_str(cfg);
  ctx.log << cfg_text;
  ctx.mixs(cfg_text);
  ctx.mix(fp.get_widening_delay() * 64 + fp.get_descending_iterations() * 8 + fp.get_max_thresholds());
  if (getenv("VERIF_TRACE"))
    std::cerr << ctx.log.str() << std::flush;
  type_check(cfg);
  R().cls(prog.structured ? "shape_structured" : "shape_unstructured");
  if (prog.n_loops)
    R().cls("has_loop");

  // ---- initial value ---------------------------------------------------------------
  std::vector<var_t> scalars = prog.all_scalar_vars();
  State sigma0;
  for (auto &v : scalars) {
    sigma0.num[v] = v.get_type().is_bool() ? z_number((int64_t)(t.u8() & 1)) : z_number(t.small_int(6));
#ifdef VERIF_WRAPPED
    // machine integers: start near the signed/unsigned boundaries a third of the time
    if (v.get_type().is_integer() && t.pick(3) == 2)
      sigma0.num[v] = Interp::to_signed(z_number(t.i64_pool()), v.get_type().get_integer_bitwidth());
#endif
  }
  csts_t init_csts;
  unsigned ninit = t.pick(4); // 0 => init = top
  for (unsigned i = 0; i < ninit && !prog.ints.empty(); i++) {
    const var_t &x = prog.ints[t.pick((unsigned)prog.ints.size())];
    const var_t &y = prog.ints[t.pick((unsigned)prog.ints.size())];
    z_number slack((int64_t)t.pick(4));
    unsigned ik = t.pick(4);
#ifdef VERIF_WRAPPED
    // machine integers: no arithmetic inside conditions, constants within the width
    slack = z_number(0);
    if (ik == 3)
      ik = 0;
#endif
    switch (ik) {
    case 0: init_csts += cst_t(lin_t(x) == lin_t(sigma0.num[x])); break;
    case 1: init_csts += cst_t(lin_t(x) <= lin_t(sigma0.num[x] + slack)); break;
    case 2: init_csts += cst_t(lin_t(x) >= lin_t(sigma0.num[x] - slack)); break;
    default: init_csts += cst_t(lin_t(x) - lin_t(y) <= lin_t(sigma0.num[x] - sigma0.num[y] + slack)); break;
    }
  }
  dom_t top;
  dom_t init = top.make_top();
  init += init_csts;
  ctx.log << "init: " << to_str(init_csts) << "\n";

  // ---- analysis ----------------------------------------------------------------------
  crab::analyzer::live_and_dead_analysis<cfg_ref_t> live(cfg);
  if (use_liveness)
    live.exec();
  analyzer_t a(cfg, top.make_top(), use_liveness ? &live : nullptr, fp);
  typename analyzer_t::assumption_map_t assumptions;
  // assumption map and alternative start block (decoded from the tail of the tape): a
  // state that enters a block violating its assumption is not described by the analysis;
  // admissible start blocks are the entry and blocks with empty WTO nesting (C06's wording)
  std::map<label_t, cst_t> assume_cst;
  label_t start = cfg.entry();
  {
    unsigned nassum = t.tail_pick(4) == 3 ? 1 + t.tail_pick(2) : 0;
    for (unsigned q = 0; q < nassum && !prog.ints.empty(); q++) {
      label_t l = prog.labels[t.tail_pick((unsigned)prog.labels.size())];
      const var_t &x = prog.ints[t.tail_pick((unsigned)prog.ints.size())];
      z_number c((int64_t)t.tail_pick(9) - 4);
      cst_t cst = t.tail_flag() ? cst_t(lin_t(x) <= lin_t(c)) : cst_t(lin_t(x) >= lin_t(c));
      if (assume_cst.count(l))
        continue;
      assume_cst.emplace(l, cst);
      dom_t av = top.make_top();
      csts_t sys;
      sys += cst;
      av += sys;
      assumptions.insert({l, av});
      ctx.log << "assumption[" << l << "]: " << to_str(cst) << "\n";
    }
    if (t.tail_pick(4) == 3) {
      std::vector<label_t> adm;
      for (auto &l : prog.labels) {
        if (l == cfg.entry())
          continue;
        auto nest = a.get_wto().nesting(l);
        if (nest && nest->begin() == nest->end())
          adm.push_back(l);
      }
      if (!adm.empty()) {
        start = adm[t.tail_pick((unsigned)adm.size())];
        ctx.log << "start block: " << start << "\n";
        R().cls("alt_start_block");
      }
    }
    if (!assume_cst.empty())
      R().cls("with_assumption_map");
  }
  g_step_count = 0;
  g_step_budget = 400000;
  try {
    a.run(start, init, assumptions);
  } catch (const step_budget_exceeded &e) {
    g_step_budget = ~0UL;
    VCHECK(ctx, "C05", false, "fwd_analysis_step_budget", "forward analysis exceeded " << e.steps << " fixpoint/transfer events (suspected non-termination)");
    throw Truncate{"step_budget"};
  }
  if (ctx.verbose)
    for (auto &l : prog.labels)
      ctx.log << "  inv " << l << ": pre=" << to_str(a.get_pre(l)) << " post=" << to_str(a.get_post(l)) << "\n";
  unsigned long analysis_steps = g_step_count;
  g_step_budget = ~0UL;
  R().cls(analysis_steps > 100000 ? "analysis_steps_gt_100000" : analysis_steps > 10000 ? "analysis_steps_gt_10000" : analysis_steps > 1000 ? "analysis_steps_gt_1000" : "analysis_steps_le_1000");

  // ---- checker (C02) --------------------------------------------------------------------
  std::map<int64_t, crab::checker::check_kind> verdict;
  if (prog.n_asserts > 0) {
    typename checker_t::prop_checker_ptr prop(new assert_checker_t(0));
    checker_t checker(a, {prop});
    checker.run();
    auto db = checker.get_all_checks();
    for (auto &kv : db.get_all_checks()) {
      if (kv.second.size() == 1)
        verdict[kv.first.get_id()] = kv.second[0];
    }
  }

  // ---- executions -------------------------------------------------------------------------
  FwdObs obs(a, ctx, prog);
  unsigned nexec = 4 + t.pick(9);
  unsigned long_execs = 0, total_blocks = 0, wrapped_execs = 0;
  for (unsigned e = 0; e < nexec; e++) {
    State s;
    if (e == 0)
      s = sigma0;
    else {
      // perturb sigma0; keep only states described by the initial value
      s = sigma0;
      for (auto &v : scalars)
        if (t.pick(3) == 0) {
          s.num[v] = v.get_type().is_bool() ? z_number((int64_t)(t.u8() & 1)) : z_number(t.small_int(10));
#ifdef VERIF_WRAPPED
          if (v.get_type().is_integer() && t.flag())
            s.num[v] = Interp::to_signed(z_number(t.i64_pool()), v.get_type().get_integer_bitwidth());
#endif
        }
      bool ok = true;
      for (auto &c : init_csts) {
        bool def;
        if (!Interp::holds_in(c, s, def))
          ok = false;
      }
      if (!ok)
        s = sigma0;
    }
    Interp in(t);
    in.obs = &obs;
    if (INT64_WEIGHTS)
      in.big_chance = 0;
#ifdef VERIF_WRAPPED
    in.machine_ints = true;
    in.big_chance = 96;
    for (auto &kv : s.num)
      kv.second = in.wrapv(kv.second, kv.first);
    in.wrap_events = 0;
#endif
    if (!assume_cst.empty())
      in.block_filter = [&](const label_t &l, const State &st) {
        auto it = assume_cst.find(l);
        if (it == assume_cst.end())
          return true;
        bool def;
        bool h = Interp::holds_in(it->second, st, def);
        return !def || h;
      };
    Stop why = in.run(cfg, start, s);
    wrapped_execs += in.wrap_events ? 1 : 0;
    total_blocks += in.path.size();
    if (in.path.size() >= 3)
      long_execs++;
    R().cls(std::string("exec_stop_") + stop_name(why));
    if (why == Stop::Outside)
      R().trunc(in.outside_reason);
    if (ctx.verbose) {
      ctx.log << "exec " << e << ": ";
      for (auto &l : in.path)
        ctx.log << l << " ";
      ctx.log << "-> " << stop_name(why) << " final " << s.str() << "\n";
    }
  }
  ctx.log << "executions=" << nexec << " blocks_visited=" << total_blocks << " membership_checks=" << obs.checks << "\n";

  // ---- verdicts vs executions (C02) ------------------------------------------------------------
  unsigned n_claims = 0, n_reached = 0, n_violated = 0;
  for (auto &kv : verdict) {
    bool r = obs.reached.count(kv.first) > 0, v = obs.violated.count(kv.first) > 0;
    if (r)
      n_reached++;
    if (v)
      n_violated++;
    if (kv.second == crab::checker::check_kind::CRAB_SAFE) {
      n_claims++;
      VCHECK(ctx, "C02", !v, "intra_safe_but_violated", "assertion id=" << kv.first << " classified SAFE but a concrete execution violates it");
    } else if (kv.second == crab::checker::check_kind::CRAB_UNREACH) {
      n_claims++;
      VCHECK(ctx, "C02", !r, "intra_unreachable_but_reached", "assertion id=" << kv.first << " classified UNREACHABLE but a concrete execution reaches it");
    }
  }
  if (n_violated)
    R().cls("program_with_violated_assertion");
  if (n_claims)
    R().cls("program_with_safe_or_unreach_claim");
  bool c02_nt = n_claims > 0 && n_reached > 0;
  bool c01_nt = obs.saw_nontrivial_inv && long_execs > 0;
  if (obs.loads_checked)
    R().cls("program_with_checked_array_load");
  if (obs.symbolic_loads)
    R().cls("program_with_checked_symbolic_load");
  if (wrapped_execs)
    R().cls("program_with_wrapping_execution");
  if (ctx.selected_prop == "C13")
    ctx.nontrivial = c01_nt && wrapped_execs > 0;
  else if (ctx.selected_prop == "C14")
    ctx.nontrivial = obs.loads_checked > 0 && (obs.symbolic_loads > 0 || prog.n_loops > 0 || prog.n_ifs > 0 || !prog.structured);
  else if (ctx.selected_prop == "C02")
    ctx.nontrivial = c02_nt;
  else if (ctx.selected_prop == "C05")
    ctx.nontrivial = prog.n_loops > 0 && analysis_steps > 0;
  else
    ctx.nontrivial = c01_nt;
}
} // namespace verif
