// h_hist-<domain>: the witness-set engine (DESIGN.md section 2.7).
// Operation histories over up to 6 abstract values; every value carries a
// finite set of concrete witness states that are members by construction.
//   C03  after every step the witnesses of the result are members (M1..M5)
//   C04  <= / join / meet / bottom / top laws against the witness sets
//   C05b widening chains become stationary; widening contains both arguments;
//        narrowing of a decreasing pair contains the second argument
//   C16  copy isolation, queries/normalize/minimize do not change the meaning;
//        (h_histg) generic wrappers describe exactly what the domain describes
#include "core/report.hpp"
#include "core/tape.hpp"
#include "prog/domains.hpp"
#include "prog/interp.hpp"
#include "prog/member.hpp"
#include "prog/params.hpp"

#include <crab/fixpoint/thresholds.hpp>

using namespace verif;
using namespace vp;

#if defined(VERIF_GENERIC_VALUE)
#define HNAME "h_histv-"
#elif defined(VERIF_GENERIC)
#define HNAME "h_histg-"
#else
#define HNAME "h_hist-"
#endif
namespace verif {
const char *harness_name() { return HNAME VERIF_VARIANT; }
} // namespace verif

#ifdef VERIF_INT64_WEIGHTS
static const bool INT64_WEIGHTS = true;
#else
static const bool INT64_WEIGHTS = false;
#endif

namespace {

const unsigned NVALS = 6;
const unsigned MAXW = 12;

struct Universe {
  std::shared_ptr<variable_factory_t> vfac;
  std::vector<var_t> ints, wides, bools, fresh; // fresh: rename/expand targets
  std::vector<var_t> scalars() const {
    std::vector<var_t> r = ints;
    r.insert(r.end(), wides.begin(), wides.end());
    r.insert(r.end(), bools.begin(), bools.end());
    r.insert(r.end(), fresh.begin(), fresh.end());
    return r;
  }
};

z_number pow2(unsigned k) { return z_number(1) << z_number((int64_t)k); }

template <class D> std::string snapshot(const D &a, const std::vector<var_t> &vars, const std::vector<cst_t> &probes) {
  std::string s;
  bool bot = a.is_bottom();
  // a value one of whose variables has an empty range describes no state, whether or not the
  // (incomplete) is_bottom() test has noticed yet: both observe as bottom
  std::vector<std::string> ats;
  if (!bot)
    for (auto &v : vars) {
      auto i = a.at(v);
      if (i.is_bottom())
        bot = true;
      ats.push_back(to_str(i));
    }
  s += bot ? "B" : "b";
  s += a.is_top() ? "T" : "t";
  if (bot)
    return s;
  for (auto &x : ats) {
    s += x;
    s += ";";
  }
  for (auto &c : probes)
    s += a.entails(c) ? "1" : "0";
  return s;
}

template <class D> bool large_magnitude(const D &inv, const std::vector<var_t> &vars) {
  if (inv.is_bottom())
    return false;
  z_number lim = pow2(40);
  for (auto &v : vars) {
    auto i = inv.at(v);
    if (i.is_bottom())
      continue;
    if (i.lb().is_finite() && (*i.lb().number() > lim || *i.lb().number() < -lim))
      return true;
    if (i.ub().is_finite() && (*i.ub().number() > lim || *i.ub().number() < -lim))
      return true;
  }
  return false;
}

// int64-weight DBMs do not check overflow (documented): witnesses with huge
// values, and the probes built from them, are outside the model
template <class D> std::string hmember(const State &w, const D &a, const MemberOpts &mo) {
  if (INT64_WEIGHTS && state_has_large_value(w)) {
    R().trunc("int64_dbm_weights_large_concrete_value");
    return "";
  }
  return member(w, a, mo);
}

struct Slot {
  std::vector<State> W;
  std::set<var_t> mentioned; // variables mentioned by any operation in the ancestry
  std::string snap;          // observation snapshot while the slot is not operated on
  bool snap_valid = false;
  bool derived_nontrivial = false;
};

template <class D> struct Hist {
  Tape &t;
  CaseCtx &ctx;
  Universe &u;
  std::vector<D> A;
#ifdef VERIF_GENERIC
  std::vector<generic_dom_t> G; // the same history on the type-erased wrapper
#endif
  std::vector<Slot> S;
  std::vector<var_t> vars; // all scalars
  std::vector<cst_t> probes;
  MemberOpts mo, mo_light, mo_sweep;
  unsigned steps_done = 0, distinct_vals_used = 0;
  bool any_nontrivial_checked = false;
  unsigned leq_yes = 0, leq_no = 0, copies = 0, mutations_after_copy = 0, observed_copy = 0;
  unsigned hot_left = 0, hot_dst = 0, hot_src = 0, moves_compared = 0;
  int64_t ccap;

  Hist(Tape &tape, CaseCtx &c, Universe &uni) : t(tape), ctx(c), u(uni) {
    vars = u.scalars();
    mo_sweep.m5 = false; // (entailment probes are the expensive part; M1-M4 decide membership)
    mo_sweep.use_brackets = false;
    mo_light.m3 = mo_light.m4 = mo_light.m5 = false;
    mo_light.use_brackets = false;
    ccap = VERIF_CONST_CAP;
  }

  // ---- decoding helpers -----------------------------------------------------------
  z_number clampc(int64_t v) { return z_number(v > ccap ? ccap : (v < -ccap ? -ccap : v)); }
  z_number cnst() {
    switch (t.pick(10)) {
    case 0: return z_number(0);
    case 1: return z_number(1);
    case 2: return z_number(-1);
    case 3: case 4: return z_number(t.small_int(10));
    case 5: return z_number(t.small_int(100));
    case 6: return clampc(((int64_t)1 << t.range(2, 20)) + t.small_int(1));
    case 7: return clampc(-((int64_t)1 << t.range(2, 20)) + t.small_int(1));
    case 8: return (DOM_CAPS & CAP_BIGCONST) ? clampc(t.i64_pool() >> 1) : z_number(t.small_int(50));
    default: return z_number(t.small_int(4));
    }
  }
  z_number coef() {
    static const int64_t cs[] = {1, -1, 2, -2, 3, 7, -3, 0, 5};
    unsigned k = t.pick(11);
    if (k < 9)
      return z_number(cs[k]);
    if (k == 9 && (DOM_CAPS & CAP_BIGCONST))
      return clampc(t.i64_pool() >> 2);
    return z_number(t.small_int(10));
  }
  // operands are drawn with locality of reference: 3 times out of 8 the variable used most
  // recently is taken again, so that consecutive steps talk about the same variables
  // (define, redefine, then use: where stale facts about a variable show)
  int hot_i = -1, hot_b = -1;
  const var_t &ivar() {
    unsigned k = t.pick(8);
    if (k < 3 && hot_i >= 0)
      return u.ints[(unsigned)hot_i];
    hot_i = (int)t.pick((unsigned)u.ints.size());
    return u.ints[(unsigned)hot_i];
  }
  const var_t &bvar() {
    unsigned k = t.pick(8);
    if (k < 3 && hot_b >= 0)
      return u.bools[(unsigned)hot_b];
    hot_b = (int)t.pick((unsigned)u.bools.size());
    return u.bools[(unsigned)hot_b];
  }
  lin_t linexp(unsigned maxterms, std::set<var_t> &m) {
    unsigned n = t.pick(maxterms + 1);
    lin_t e(cnst());
    for (unsigned i = 0; i < n; i++) {
      const var_t &v = ivar();
      m.insert(v);
      e = e + lin_t(coef(), v);
    }
    return e;
  }
  cst_t constraint(std::set<var_t> &m) {
    lin_t l, r;
    switch (t.pick(6)) {
    case 0: { const var_t &x = ivar(); m.insert(x); l = lin_t(x); r = lin_t(cnst()); break; }
    case 1: { const var_t &x = ivar(), &y = ivar(); m.insert(x); m.insert(y); l = lin_t(x); r = lin_t(y); break; }
    case 2: { const var_t &x = ivar(), &y = ivar(); m.insert(x); m.insert(y); l = lin_t(x) - lin_t(y); r = lin_t(cnst()); break; }
    case 3: { const var_t &x = ivar(), &y = ivar(); m.insert(x); m.insert(y); l = lin_t(x) + lin_t(y); r = lin_t(cnst()); break; }
    case 4: l = linexp(2, m); r = lin_t(cnst()); break;
    default: l = linexp(3, m); r = linexp(1, m); break;
    }
    switch (t.pick((DOM_CAPS & CAP_DISEQ) ? 6 : 5)) {
    case 0: return l <= r;
    case 1: return l < r;
    case 2: return l >= r;
    case 3: return l > r;
    case 4: return l == r;
    default: return l != r;
    }
  }

  // A constraint built around a witness w of the value it will be applied to: x ~ w.x+d,
  // x-y ~ (w.x-w.y)+d, x+y ~ (w.x+w.y)+d, a*x - y ~ ...+d with d in -2..2 and every kind of
  // comparison, so that assumes sit ON the boundary of what the witnesses allow (where an
  // off-by-one, a wrong strictness or a mishandled disequality shows).
  cst_t guided_constraint(const State &w, std::set<var_t> &m) {
    const var_t &x = ivar(), &y = ivar();
    m.insert(x);
    lin_t l;
    z_number at;
    switch (t.pick(5)) {
    case 0: l = lin_t(x); at = w.num.at(x); break;
    case 1:
    case 2: m.insert(y); l = lin_t(x) - lin_t(y); at = w.num.at(x) - w.num.at(y); break;
    case 3: m.insert(y); l = lin_t(x) + lin_t(y); at = w.num.at(x) + w.num.at(y); break;
    default: { z_number a = coef(); m.insert(y); l = lin_t(a, x) - lin_t(y); at = a * w.num.at(x) - w.num.at(y); break; }
    }
    lin_t r(at + z_number(t.small_int(2)));
    switch (t.pick((DOM_CAPS & CAP_DISEQ) ? 6 : 5)) {
    case 0: return l <= r;
    case 1: return l < r;
    case 2: return l >= r;
    case 3: return l > r;
    case 4: return l == r;
    default: return l != r;
    }
  }

  // ---- concrete helpers -------------------------------------------------------------
  static z_number ev(const lin_t &e, const State &s) {
    z_number r = e.constant();
    for (auto it = e.begin(); it != e.end(); ++it) {
      auto c = *it;
      r = r + c.first * s.num.at(c.second);
    }
    return r;
  }
  static bool holds(const cst_t &c, const State &s) {
    z_number x = ev(c.expression(), s);
    switch (c.kind()) {
    case cst_t::EQUALITY: return x == 0;
    case cst_t::DISEQUATION: return x != 0;
    case cst_t::INEQUALITY: return x <= 0;
    default: return x < 0;
    }
  }
  State random_state() {
    State s;
    for (auto &v : vars) {
      if (v.get_type().is_bool())
        s.num[v] = z_number((int64_t)(t.u8() & 1));
      else {
        unsigned k = t.u8();
        s.num[v] = k < 16 ? clampc(t.i64_pool() >> 2) : (k < 150 ? z_number(t.small_int(4)) : z_number(t.small_int(12)));
      }
    }
    return s;
  }
  void dedup(std::vector<State> &w) {
    std::vector<State> r;
    std::set<std::string> seen;
    for (auto &s : w) {
      if (r.size() >= MAXW)
        break;
      if (seen.insert(s.str()).second)
        r.push_back(s);
    }
    w.swap(r);
  }

  // ---- oracles ------------------------------------------------------------------------
  void check_members(unsigned k, const std::string &what, const char *prop = "C03") {
    if (INT64_WEIGHTS && large_magnitude(A[k], vars))
      throw Truncate{"int64_dbm_weights_large_magnitude"};
    if (!A[k].is_top() && !A[k].is_bottom() && !S[k].W.empty() && steps_done >= 3)
      any_nontrivial_checked = true;
    for (auto &w : S[k].W) {
      if (INT64_WEIGHTS && state_has_large_value(w)) {
        R().trunc("int64_dbm_weights_large_concrete_value");
        continue;
      }
      std::string r = hmember(w, A[k], mo);
      VCHECK(ctx, prop, r.empty(), "hist_" + what + "_" + r.substr(0, 2),
             "after " << what << ": witness " << w.str() << " is not in A" << k << " = " << to_str(A[k]) << " : " << r);
    }
  }
  void refresh_snap(unsigned k) {
    (void)snapshot(A[k], vars, probes); // warm-up: lazily cached state settles
    S[k].snap = snapshot(A[k], vars, probes);
    S[k].snap_valid = true;
  }
  // every value not operated on by this step must still describe the same thing
  void check_untouched(const std::set<unsigned> &touched, const std::string &what) {
    for (unsigned i = 0; i < NVALS; i++) {
      if (touched.count(i))
        continue;
      if (S[i].snap_valid) {
        std::string now = snapshot(A[i], vars, probes);
        VCHECK(ctx, "C16", now == S[i].snap, "hist_untouched_value_changed_by_" + what,
               "value A" << i << " was not operated on by `" << what << "` but its observations changed from " << S[i].snap << " to " << now);
        observed_copy++;
      }
      for (auto &w : S[i].W) {
        std::string r = hmember(w, A[i], mo_light);
        VCHECK(ctx, "C16", r.empty(), "hist_untouched_value_lost_witness_by_" + what,
               "value A" << i << " was not operated on by `" << what << "` but lost witness " << w.str() << " : " << r);
      }
    }
  }
#ifdef VERIF_GENERIC
  void check_generic(unsigned k, const std::string &what) {
    std::string a = snapshot(A[k], vars, probes), g = snapshot(G[k], vars, probes);
    VCHECK(ctx, "C16", a == g, "generic_wrapper_differs_after_" + what,
           "after " << what << " the wrapped value G" << k << " observes " << g << " but the unwrapped domain observes " << a
                    << " (domain value " << to_str(A[k]) << ", wrapped " << to_str(G[k]) << ")");
    bool l1 = A[k].is_bottom() == G[k].is_bottom();
    VCHECK(ctx, "C16", l1, "generic_wrapper_bottom_differs_after_" + what, "is_bottom differs");
  }
#define BOTH(k, CODE)                                                                                                  \
  do {                                                                                                                 \
    { auto &X = A[k]; CODE; }                                                                                          \
    { auto &X = G[k]; CODE; }                                                                                          \
  } while (0)
#else
  void check_generic(unsigned, const std::string &) {}
#define BOTH(k, CODE)                                                                                                  \
  do {                                                                                                                 \
    { auto &X = A[k]; CODE; }                                                                                          \
  } while (0)
#endif

  // C04 laws that can be checked on a single value
  void check_unary_laws(unsigned k) {
    D &a = A[k];
    VCHECK(ctx, "C04", a <= a, "leq_not_reflexive", "A" << k << " <= itself is false: " << to_str(a));
    {
      D c(a);
      VCHECK(ctx, "C04", c <= a && a <= c, "leq_copy_not_equal", "a copy of A" << k << " is not <=-equal to it: " << to_str(a));
    }
    VCHECK(ctx, "C04", a.make_bottom() <= a, "bottom_not_leq", "bottom <= A" << k << " is false: " << to_str(a));
    VCHECK(ctx, "C04", a <= a.make_top(), "not_leq_top", "A" << k << " <= top is false: " << to_str(a));
    VCHECK(ctx, "C04", !(a.is_bottom() && !S[k].W.empty()), "is_bottom_with_witness", "A" << k << " is_bottom but has a witness");
  }

  // ---- one step --------------------------------------------------------------------------
  void step() {
    unsigned kind = t.pick(20);
    unsigned i = t.pick(NVALS), j = t.pick(NVALS), k = t.pick(NVALS);
    // C16 runs: a fifth of the steps outside a hot window are copies (tail choice)
    if (ctx.selected_prop == "C16" && hot_left == 0 && t.tail_u8() % 5 == 0)
      kind = 16;
    // (tail choice) locality after a copy: the next steps usually operate on the fresh copy (or on its
    // source), so that "copy; update; update" sequences on structure-sharing values are common
    if (hot_left > 0) {
      hot_left--;
      unsigned hb = t.tail_u8();
      if ((hb & 3) != 0)
        i = (hb & 4) ? hot_src : hot_dst;
    }
    std::set<unsigned> touched;
    std::string what;
    switch (kind) {
    case 0: case 1: case 2: case 3: case 4: case 5: case 6: case 7: case 8:
      what = transfer(i);
      touched.insert(i);
      S[i].snap_valid = false;
      check_members(i, what);
      check_generic(i, what);
      break;
    case 9: case 10: { // join
      what = "join";
      D r = A[i] | A[j];
      std::vector<State> w = S[i].W;
      w.insert(w.end(), S[j].W.begin(), S[j].W.end());
      assign_result(k, std::move(r), w, i, j);
#ifdef VERIF_GENERIC
      G[k] = G[i] | G[j];
#endif
      touched.insert(k);
      check_members(k, what, "C04");
      check_members(k, what, "C03");
      check_generic(k, what);
      R().cls("op_join");
      break;
    }
    case 11: { // in-place join
      what = "join_inplace";
      A[i] |= A[j];
#ifdef VERIF_GENERIC
      G[i] |= G[j];
#endif
      {
        std::vector<State> wj = S[j].W; // i may equal j
        S[i].W.insert(S[i].W.end(), wj.begin(), wj.end());
      }
      dedup(S[i].W);
      S[i].mentioned.insert(S[j].mentioned.begin(), S[j].mentioned.end());
      S[i].snap_valid = false;
      touched.insert(i);
      check_members(i, what, "C04");
      check_members(i, what, "C03");
      check_generic(i, what);
      break;
    }
    case 12: case 13: { // meet
      what = "meet";
      D r = (kind == 12) ? (A[i] & A[j]) : A[i];
      if (kind == 13)
        r &= A[j];
      std::vector<State> w;
      std::set<std::string> in_j;
      for (auto &s : S[j].W)
        in_j.insert(s.str());
      for (auto &s : S[i].W)
        if (in_j.count(s.str()))
          w.push_back(s);
      // a witness of one side that is (observably) a member of the other side is a common state
      assign_result(k, std::move(r), w, i, j);
#ifdef VERIF_GENERIC
      if (kind == 12) G[k] = G[i] & G[j]; else { generic_dom_t g(G[i]); g &= G[j]; G[k] = g; }
#endif
      touched.insert(k);
      check_members(k, what, "C04");
      check_members(k, what, "C03");
      check_generic(k, what);
      R().cls(w.empty() ? "op_meet_empty_common" : "op_meet_common_witness");
      break;
    }
    case 14: { // widening (optionally with thresholds)
      bool thr = t.flag();
      what = thr ? "widening_thresholds" : "widening";
      crab::thresholds<z_number> ts;
      unsigned nt = thr ? t.pick(5) : 0;
      for (unsigned q = 0; q < nt; q++)
        ts.add(ikos::bound<z_number>(z_number(t.small_int(40))));
      D r = thr ? A[i].widening_thresholds(A[j], ts) : (A[i] || A[j]);
      std::vector<State> w = S[i].W;
      w.insert(w.end(), S[j].W.begin(), S[j].W.end());
      assign_result(k, std::move(r), w, i, j);
#ifdef VERIF_GENERIC
      G[k] = thr ? G[i].widening_thresholds(G[j], ts) : (G[i] || G[j]);
#endif
      touched.insert(k);
      check_members(k, what, "C05");
      check_members(k, what, "C03");
      check_generic(k, what);
      R().cls("op_widening");
      break;
    }
    case 15: { // narrowing of a decreasing pair: A_i && (A_i + constraint)
      what = "narrowing";
      std::set<var_t> m;
      cst_t c = constraint(m);
      D smaller(A[i]);
      csts_t sys;
      sys += c;
      smaller += sys;
      std::vector<State> w;
      for (auto &s : S[i].W)
        if (holds(c, s))
          w.push_back(s);
      D r = A[i] && smaller;
#ifdef VERIF_GENERIC
      generic_dom_t gs(G[i]);
      gs += sys;
      generic_dom_t gr = G[i] && gs;
#endif
      S[i].mentioned.insert(m.begin(), m.end());
      assign_result(k, std::move(r), w, i, i);
#ifdef VERIF_GENERIC
      G[k] = gr;
#endif
      touched.insert(k);
      ctx.log << "   (narrowing with " << to_str(c) << ")\n";
      check_members(k, what, "C05");
      check_members(k, what, "C03");
      check_generic(k, what);
      R().cls("op_narrowing");
      break;
    }
    case 16: { // copy (copy ctor / assignment / move-from-copy)
      what = "copy";
      if (i == k)
        break;
      unsigned how = t.pick(3);
      if (how == 0) {
        D c(A[i]);
        A[k] = c;
      } else if (how == 1)
        A[k] = A[i];
      else {
        D c(A[i]);
        A[k] = std::move(c);
      }
#ifdef VERIF_GENERIC
      G[k] = G[i];
#endif
      S[k] = S[i];
      touched.insert(k);
      refresh_snap(k);
      refresh_snap(i);
      copies++;
      hot_left = 3;
      hot_dst = k;
      hot_src = i;
      check_members(k, what);
      check_generic(k, what);
      R().cls("op_copy");
      break;
    }
    case 17: { // queries / normalize / minimize: meaning must not change
      unsigned q = t.pick(5);
      static const char *names[] = {"normalize", "minimize", "operator[]", "to_linear_constraint_system", "entails+at"};
      what = names[q];
      D before(A[i]);
      switch (q) {
      case 0: BOTH(i, X.normalize()); break;
      case 1: BOTH(i, X.minimize()); break;
      case 2: for (auto &v : vars) { BOTH(i, (void)X[v]); } break;
      case 3: BOTH(i, (void)X.to_linear_constraint_system(); (void)X.to_disjunctive_linear_constraint_system()); break;
      default: for (auto &c : probes) { BOTH(i, (void)X.entails(c)); } for (auto &v : vars) { BOTH(i, (void)X.at(v)); } break;
      }
      VCHECK(ctx, "C16", A[i] <= before && before <= A[i], std::string("query_changed_meaning_") + names[q],
             "after " << names[q] << " value A" << i << " = " << to_str(A[i]) << " is not <=-equal to its pre-copy " << to_str(before));
      touched.insert(i);
      check_members(i, what, "C16");
      check_generic(i, what);
      R().cls("op_query");
      break;
    }
    case 18: { // inclusion query between two values
      what = "leq";
      if (t.flag()) {
        // steer towards yes-answers: compare A_i with something derived from it
        D up = t.flag() ? (A[i] | A[j]) : A[i];
        std::vector<State> wup = S[i].W;
        wup.insert(wup.end(), S[j].W.begin(), S[j].W.end());
        if (t.flag()) {
          const var_t &x = ivar();
          up -= x;
        }
        bool r2 = A[i] <= up;
        if (r2) {
          leq_yes++;
          for (auto &w : S[i].W) {
            std::string rs = hmember(w, up, mo);
            VCHECK(ctx, "C04", rs.empty(), "leq_yes_but_witness_outside_" + rs.substr(0, 2),
                   "A" << i << " <= (derived upper value) answers yes but witness " << w.str() << " of the left (" << to_str(A[i])
                       << ") is not in the right (" << to_str(up) << ") : " << rs);
          }
          if (!A[i].is_bottom() && !up.is_top())
            R().cls("leq_yes_nontrivial");
        } else {
          leq_no++;
          R().cls("leq_no_against_own_upper_bound");
        }
      }
      bool r = A[i] <= A[j];
#ifdef VERIF_GENERIC
      bool gr = G[i] <= G[j];
      VCHECK(ctx, "C16", r == gr, "generic_wrapper_leq_differs", "A" << i << " <= A" << j << " is " << r << " but on the wrappers " << gr);
#endif
      if (r) {
        leq_yes++;
        for (auto &w : S[i].W) {
          std::string rs = hmember(w, A[j], mo);
          VCHECK(ctx, "C04", rs.empty(), "leq_yes_but_witness_outside_" + rs.substr(0, 2),
                 "A" << i << " <= A" << j << " answers yes but witness " << w.str() << " of the left (" << to_str(A[i])
                     << ") is not in the right (" << to_str(A[j]) << ") : " << rs);
        }
        if (i != j && !A[i].is_bottom() && !A[j].is_top())
          R().cls("leq_yes_nontrivial");
      } else
        leq_no++;
      ctx.log << "   (A" << i << " <= A" << j << ") = " << r << "\n";
      break;
    }
    default: { // set_to_top / set_to_bottom / make_*
      unsigned q = t.pick(8); // mostly no-ops so that values are not constantly reset
      if (q == 0) {
        what = "set_to_top";
        BOTH(i, X.set_to_top());
        VCHECK(ctx, "C04", A[i].is_top() && !A[i].is_bottom(), "set_to_top_not_top", "after set_to_top is_top()=" << A[i].is_top());
        VCHECK(ctx, "C04", A[i].make_top().is_top(), "make_top_not_top", "make_top().is_top() is false");
        S[i].W.clear();
        for (unsigned q2 = 0; q2 < 4; q2++)
          S[i].W.push_back(random_state());
        S[i].mentioned.clear();
      } else if (q == 1) {
        what = "set_to_bottom";
        BOTH(i, X.set_to_bottom());
        VCHECK(ctx, "C04", A[i].is_bottom() && !A[i].is_top(), "set_to_bottom_not_bottom", "after set_to_bottom is_bottom()=" << A[i].is_bottom());
        VCHECK(ctx, "C04", A[i].make_bottom().is_bottom(), "make_bottom_not_bottom", "make_bottom().is_bottom() is false");
        S[i].W.clear();
      } else
        break;
      S[i].snap_valid = false;
      touched.insert(i);
      check_generic(i, what);
      break;
    }
    }
    if (what.empty())
      return;
    steps_done++;
    ctx.log << steps_done << ": " << what << " i=" << i << " j=" << j << " k=" << k << "\n";
    for (unsigned x : touched) {
      check_unary_laws(x);
      if (S[x].snap_valid == false && copies > 0)
        mutations_after_copy++;
    }
    check_untouched(touched, what);
  }

  void assign_result(unsigned k, D &&r, std::vector<State> &w, unsigned i, unsigned j) {
    std::set<var_t> m = S[i].mentioned;
    m.insert(S[j].mentioned.begin(), S[j].mentioned.end());
    // (tail choice, a quarter of the results) a value that was move-assigned describes what a copy
    // taken before the move describes (C16: moves)
    if ((t.tail_u8() & 3) == 1) {
      D c(r);
      A[k] = std::move(r);
      (void)snapshot(A[k], vars, probes);
      (void)snapshot(c, vars, probes);
      std::string a = snapshot(A[k], vars, probes), b = snapshot(c, vars, probes);
      {
        // ... and so do the results of a later operation (explicit normalisation of a copy of each)
        D a2(A[k]), c2(c);
        a2.normalize();
        c2.normalize();
        a += " / normalized: " + snapshot(a2, vars, probes);
        b += " / normalized: " + snapshot(c2, vars, probes);
      }
      moves_compared++;
      VCHECK(ctx, "C16", a == b, "hist_move_assigned_value_differs_from_copy",
             "the result of a binary operation was copied, then move-assigned into A" << k << ": the moved-to value observes " << a
                                                                                      << " but the copy observes " << b);
    } else
      A[k] = std::move(r);
    dedup(w);
    S[k].W = w;
    S[k].mentioned = m;
    S[k].snap_valid = false;
  }

  // ---- transfer operations: abstract op on A[i] + concrete op on every witness ---------------
  // Synthesised witnesses (only for domains whose concretisation is exactly what the public
  // queries expose: a box, or the solution set of the exported difference/octagonal
  // constraints): a small perturbation of a witness -- one or two variables moved by a few
  // units, or made equal to another variable -- that passes the complete membership test of
  // the CURRENT value is a member of it, so it joins the witness set. This makes the witness
  // sets dense around the boundaries of the value, where transfer functions go wrong.
  void enrich(unsigned i) {
#ifdef VERIF_EXACT_GAMMA
    std::vector<State> &W = S[i].W;
    if (W.empty() || W.size() >= 12 || A[i].is_bottom())
      return;
    unsigned tries = 1 + t.pick(4);
    for (unsigned q = 0; q < tries && W.size() < 12; q++) {
      State s = W[t.pick((unsigned)W.size())];
      const var_t &x = ivar(), &y = ivar();
      switch (t.pick(4)) {
      case 0: s.num[x] = s.num[x] + z_number(t.small_int(3)); break;
      case 1: s.num[x] = s.num[y]; break;
      case 2: s.num[x] = s.num[y] + z_number(t.small_int(2)); break;
      default: s.num[x] = s.num[x] + z_number(t.small_int(2)); s.num[y] = s.num[y] + z_number(t.small_int(2)); break;
      }
      if (INT64_WEIGHTS && state_has_large_value(s))
        continue;
      if (hmember(s, A[i], mo).empty()) {
        W.push_back(s);
        R().cls("synthesised_witness");
      }
    }
    dedup(W);
#else
    (void)i;
#endif
  }

  std::string transfer(unsigned i) {
    enrich(i);
    std::vector<int> kinds = {0, 0, 1, 1, 2, 3, 4, 4, 4, 5, 6, 7, 8};
    if (!u.wides.empty())
      kinds.push_back(9);
    if (!u.bools.empty())
      for (int q = 0; q < 9; q++) // boolean domains: about a third of the transfer steps are boolean
        kinds.push_back(10);
    kinds.push_back(11);
    kinds.push_back(12);
    int kd = kinds[t.pick((unsigned)kinds.size())];
    std::vector<State> &W = S[i].W;
    std::set<var_t> &M = S[i].mentioned;
    std::vector<State> nw;
    std::string what;
    auto drop_outside = [&](const char *why) { R().trunc(why); };
    switch (kd) {
    case 0: { // assign
      const var_t &x = ivar();
      M.insert(x);
      lin_t e = linexp(3, M);
      what = "assign";
      ctx.log << "   A" << i << ": " << to_str(x) << " := " << to_str(e) << "\n";
      BOTH(i, X.assign(x, e));
      for (auto s : W) {
        s.num[x] = ev(e, s);
        nw.push_back(s);
      }
      break;
    }
    case 1: { // arithmetic apply
      const var_t &x = ivar(), &y = ivar();
      M.insert(x);
      M.insert(y);
      static const arith_operation_t ops[] = {OP_ADDITION, OP_SUBTRACTION, OP_MULTIPLICATION, OP_SDIV, OP_SREM, OP_UDIV, OP_UREM};
      static const char *on[] = {"add", "sub", "mul", "sdiv", "srem", "udiv", "urem"};
      unsigned o = t.pick(7);
      bool vz = t.pick(3) == 0;
      var_t z = ivar();
      z_number kc = cnst();
      if (vz)
        M.insert(z);
      what = std::string("apply_") + on[o] + (vz ? "" : "_k");
      ctx.log << "   A" << i << ": " << to_str(x) << " := " << to_str(y) << " " << on[o] << " " << (vz ? to_str(z) : kc.get_str()) << "\n";
      if (vz)
        BOTH(i, X.apply(ops[o], x, y, z));
      else
        BOTH(i, X.apply(ops[o], x, y, kc));
      for (auto s : W) {
        z_number a = s.num[y], b = vz ? s.num[z] : kc, r;
        if (o >= 3 && b == 0)
          continue; // blocks
        if (o >= 5 && (a < 0 || b < 0)) {
          drop_outside("unsigned op on negative operand");
          continue;
        }
        switch (o) {
        case 0: r = a + b; break;
        case 1: r = a - b; break;
        case 2: r = a * b; break;
        case 3: case 5: r = a / b; break;
        default: r = a % b; break;
        }
        s.num[x] = r;
        nw.push_back(s);
      }
      break;
    }
    case 2: { // bitwise apply
      const var_t &x = ivar(), &y = ivar();
      M.insert(x);
      M.insert(y);
      static const bitwise_operation_t ops[] = {OP_AND, OP_OR, OP_XOR, OP_SHL, OP_LSHR, OP_ASHR};
      static const char *on[] = {"and", "or", "xor", "shl", "lshr", "ashr"};
      unsigned o = t.pick(6);
      bool vz = t.pick(3) == 0;
      var_t z = ivar();
      z_number kc = o >= 3 ? z_number((int64_t)t.pick(34)) : cnst();
      if (vz)
        M.insert(z);
      what = std::string("apply_") + on[o] + (vz ? "" : "_k");
      ctx.log << "   A" << i << ": " << to_str(x) << " := " << to_str(y) << " " << on[o] << " " << (vz ? to_str(z) : kc.get_str()) << "\n";
      if (vz)
        BOTH(i, X.apply(ops[o], x, y, z));
      else
        BOTH(i, X.apply(ops[o], x, y, kc));
      for (auto s : W) {
        z_number a = s.num[y], b = vz ? s.num[z] : kc, r;
        if (o >= 3 && (b < 0 || b > 64)) {
          drop_outside("shift amount outside [0,64]");
          continue;
        }
        if (o == 4 && a < 0) {
          drop_outside("lshr of negative value");
          continue;
        }
        switch (o) {
        case 0: r = a & b; break;
        case 1: r = a | b; break;
        case 2: r = a ^ b; break;
        case 3: r = a * pow2((unsigned)(int64_t)b); break;
        default: r = a >> b; break;
        }
        s.num[x] = r;
        nw.push_back(s);
      }
      break;
    }
    case 3: { // select
      const var_t &x = ivar();
      M.insert(x);
      cst_t c = constraint(M);
      lin_t e1 = linexp(2, M), e2 = linexp(2, M);
      what = "select";
      ctx.log << "   A" << i << ": " << to_str(x) << " := select(" << to_str(c) << ", " << to_str(e1) << ", " << to_str(e2) << ")\n";
      BOTH(i, X.select(x, c, e1, e2));
      for (auto s : W) {
        s.num[x] = holds(c, s) ? ev(e1, s) : ev(e2, s);
        nw.push_back(s);
      }
      break;
    }
    case 4: { // assume 1..2 constraints
      csts_t sys;
      unsigned n = 1 + t.pick(2);
      std::vector<cst_t> cs;
      for (unsigned q = 0; q < n; q++) {
        cst_t c = (!W.empty() && t.pick(3) != 0) ? guided_constraint(W[t.pick((unsigned)W.size())], M) : constraint(M);
        cs.push_back(c);
        sys += c;
      }
      what = "assume";
      ctx.log << "   A" << i << ": assume " << to_str(sys) << "\n";
      BOTH(i, X += sys);
      for (auto &s : W) {
        bool ok = true;
        for (auto &c : cs)
          ok = ok && holds(c, s);
        if (ok)
          nw.push_back(s);
      }
      break;
    }
    case 5: { // forget one variable (operator-=) or several (forget)
      bool many = t.flag();
      std::vector<var_t> vs;
      vs.push_back(ivar());
      if (many && t.flag())
        vs.push_back(ivar());
      what = many ? "forget" : "forget_one";
      ctx.log << "   A" << i << ": forget";
      for (auto &v : vs)
        ctx.log << " " << to_str(v);
      ctx.log << "\n";
      if (many)
        BOTH(i, X.forget(vs));
      else
        BOTH(i, X -= vs[0]);
      for (auto &s : W) {
        nw.push_back(s);
        State s2 = s;
        for (auto &v : vs)
          s2.num[v] = z_number(t.small_int(20));
        nw.push_back(s2);
      }
      break;
    }
    case 6: { // project
      std::vector<var_t> keep;
      std::set<var_t> ks;
      unsigned n = 1 + t.pick(3);
      for (unsigned q = 0; q < n; q++) {
        const var_t &v = ivar();
        if (ks.insert(v).second)
          keep.push_back(v);
      }
      what = "project";
      ctx.log << "   A" << i << ": project onto";
      for (auto &v : keep)
        ctx.log << " " << to_str(v);
      ctx.log << "\n";
      BOTH(i, X.project(keep));
      for (auto &s : W) {
        nw.push_back(s);
        State s2 = s;
        for (auto &v : vars)
          if (!ks.count(v))
            s2.num[v] = v.get_type().is_bool() ? z_number((int64_t)(t.u8() & 1)) : z_number(t.small_int(20));
        nw.push_back(s2);
      }
      break;
    }
    case 7: { // rename x -> fresh (documented precondition: target does not exist in the value)
      const var_t &x = ivar();
      const var_t *target = nullptr;
      for (auto &f : u.fresh)
        if (!M.count(f)) {
          target = &f;
          break;
        }
      if (!target)
        return "";
      what = "rename";
      ctx.log << "   A" << i << ": rename " << to_str(x) << " -> " << to_str(*target) << "\n";
      std::vector<var_t> from{x}, to{*target};
      BOTH(i, X.rename(from, to));
      M.insert(*target);
      for (auto s : W) {
        s.num[*target] = s.num[x];
        nw.push_back(s);
        State s2 = s;
        s2.num[x] = z_number(t.small_int(20)); // the old name is unconstrained now
        nw.push_back(s2);
      }
      break;
    }
    case 8: { // expand x into fresh x'
      const var_t &x = ivar();
      const var_t *target = nullptr;
      for (auto &f : u.fresh)
        if (!M.count(f)) {
          target = &f;
          break;
        }
      if (!target)
        return "";
      what = "expand";
      ctx.log << "   A" << i << ": expand " << to_str(x) << " into " << to_str(*target) << "\n";
      BOTH(i, X.expand(x, *target));
      M.insert(x);
      M.insert(*target);
      for (auto s : W) {
        s.num[*target] = s.num[x];
        nw.push_back(s);
      }
      break;
    }
    case 9: { // integer casts between widths
      const var_t &n = ivar();
      const var_t &w = u.wides[t.pick((unsigned)u.wides.size())];
      M.insert(n);
      M.insert(w);
      unsigned o = t.pick(3);
      static const char *on[] = {"sext", "zext", "trunc"};
      what = std::string("cast_") + on[o];
      ctx.log << "   A" << i << ": " << on[o] << " " << (o == 2 ? to_str(w) + " to " + to_str(n) : to_str(n) + " to " + to_str(w)) << "\n";
      if (o == 0)
        BOTH(i, X.apply(OP_SEXT, w, n));
      else if (o == 1)
        BOTH(i, X.apply(OP_ZEXT, w, n));
      else
        BOTH(i, X.apply(OP_TRUNC, n, w));
      for (auto s : W) {
        if (o == 1) {
          z_number v = s.num[n];
          if (v < 0 || v >= pow2(n.get_type().get_integer_bitwidth())) {
            drop_outside("zext of value outside [0,2^w)");
            continue;
          }
        }
        if (o == 2)
          s.num[n] = s.num[w];
        else
          s.num[w] = s.num[n];
        nw.push_back(s);
      }
      break;
    }
    case 10: { // boolean operations
      unsigned o = t.pick(8);
      switch (o) {
      case 0: {
        const var_t &b = bvar();
        M.insert(b);
        cst_t c = constraint(M);
        what = "assign_bool_cst";
        ctx.log << "   A" << i << ": " << to_str(b) << " := (" << to_str(c) << ")\n";
        BOTH(i, X.assign_bool_cst(b, c));
        for (auto s : W) {
          s.num[b] = z_number((int64_t)holds(c, s));
          nw.push_back(s);
        }
        break;
      }
      case 1: {
        const var_t &b = bvar(), &c = bvar();
        bool neg = t.flag();
        M.insert(b);
        M.insert(c);
        what = "assign_bool_var";
        ctx.log << "   A" << i << ": " << to_str(b) << " := " << (neg ? "not " : "") << to_str(c) << "\n";
        BOTH(i, X.assign_bool_var(b, c, neg));
        for (auto s : W) {
          bool v = s.num[c] != 0;
          s.num[b] = z_number((int64_t)(neg ? !v : v));
          nw.push_back(s);
        }
        break;
      }
      case 2: {
        const var_t &b = bvar(), &c = bvar(), &d = bvar();
        static const bool_operation_t ops[] = {OP_BAND, OP_BOR, OP_BXOR};
        static const char *on[] = {"and", "or", "xor"};
        unsigned q = t.pick(3);
        M.insert(b);
        M.insert(c);
        M.insert(d);
        what = std::string("bool_") + on[q];
        ctx.log << "   A" << i << ": " << to_str(b) << " := " << to_str(c) << " " << on[q] << " " << to_str(d) << "\n";
        BOTH(i, X.apply_binary_bool(ops[q], b, c, d));
        for (auto s : W) {
          bool x = s.num[c] != 0, y = s.num[d] != 0;
          bool r = q == 0 ? (x && y) : (q == 1 ? (x || y) : (x != y));
          s.num[b] = z_number((int64_t)r);
          nw.push_back(s);
        }
        break;
      }
      case 3: case 4: {
        const var_t &b = bvar();
        bool neg = t.flag();
        M.insert(b);
        what = "assume_bool";
        ctx.log << "   A" << i << ": assume " << (neg ? "not " : "") << to_str(b) << "\n";
        BOTH(i, X.assume_bool(b, neg));
        for (auto &s : W) {
          bool v = s.num.at(b) != 0;
          if (neg ? !v : v)
            nw.push_back(s);
        }
        break;
      }
      case 5: {
        const var_t &b = bvar(), &c = bvar(), &d = bvar(), &e = bvar();
        M.insert(b);
        M.insert(c);
        M.insert(d);
        M.insert(e);
        what = "select_bool";
        ctx.log << "   A" << i << ": " << to_str(b) << " := ite(" << to_str(c) << ", " << to_str(d) << ", " << to_str(e) << ")\n";
        BOTH(i, X.select_bool(b, c, d, e));
        for (auto s : W) {
          s.num[b] = (s.num[c] != 0) ? s.num[d] : s.num[e];
          nw.push_back(s);
        }
        break;
      }
      case 6: { // zext bool -> int
        const var_t &b = bvar(), &x = ivar();
        M.insert(b);
        M.insert(x);
        what = "cast_zext_frombool";
        ctx.log << "   A" << i << ": zext " << to_str(b) << " to " << to_str(x) << "\n";
        BOTH(i, X.apply(OP_ZEXT, x, b));
        for (auto s : W) {
          s.num[x] = s.num[b];
          nw.push_back(s);
        }
        break;
      }
      case 7: { // forget a boolean
        const var_t &b = bvar();
        what = "forget_bool";
        ctx.log << "   A" << i << ": forget " << to_str(b) << "\n";
        BOTH(i, X -= b);
        for (auto &s : W) {
          nw.push_back(s);
          State s2 = s;
          s2.num[b] = z_number((int64_t)(1 - (int64_t)s.num.at(b)));
          nw.push_back(s2);
        }
        break;
      }
      }
      break;
    }
    case 11: { // weak assign: x may keep its value or take e
      const var_t &x = ivar();
      M.insert(x);
      lin_t e = linexp(2, M);
      what = "weak_assign";
      ctx.log << "   A" << i << ": " << to_str(x) << " weak:= " << to_str(e) << "\n";
      BOTH(i, X.weak_assign(x, e));
      for (auto &s : W) {
        nw.push_back(s);
        State s2 = s;
        s2.num[x] = ev(e, s);
        nw.push_back(s2);
      }
      break;
    }
    default: { // select on a variable condition / havoc-like forget of everything mentioned
      const var_t &x = ivar();
      what = "forget_one";
      ctx.log << "   A" << i << ": forget " << to_str(x) << "\n";
      BOTH(i, X -= x);
      for (auto &s : W) {
        nw.push_back(s);
        State s2 = s;
        s2.num[x] = cnst();
        nw.push_back(s2);
      }
      break;
    }
    }
    dedup(nw);
    W.swap(nw);
    R().cls("op_" + what);
    return what;
  }

  // ---- the history ------------------------------------------------------------------------------
  // all-pairs inclusion sweep (C04): a yes-answer between any two reachable values (over
  // whatever variable sets their histories left them with) must be honoured by every witness of
  // the left one; bottom on the left and top on the right must answer yes
  void leq_sweep() {
    if (!ctx.want("C04"))
      return;
    D top_v = A[0].make_top();
    for (unsigned i = 0; i < NVALS; i++) {
      bool ib = A[i].is_bottom();
      VCHECK(ctx, "C04", A[i] <= top_v, "leq_top_on_the_right_says_no", "A" << i << " <= top is false: " << to_str(A[i]));
      for (unsigned j = 0; j < NVALS; j++) {
        if (i == j)
          continue;
        bool r = A[i] <= A[j];
        if (ib)
          VCHECK(ctx, "C04", r, "leq_bottom_on_the_left_says_no", "A" << i << " is bottom but A" << i << " <= A" << j << " (" << to_str(A[j]) << ") is false");
        if (!r) {
          leq_no++;
          continue;
        }
        leq_yes++;
        for (auto &w : S[i].W) {
          std::string rs = hmember(w, A[j], mo_sweep);
          VCHECK(ctx, "C04", rs.empty(), "leq_yes_but_witness_outside_" + rs.substr(0, 2),
                 "A" << i << " <= A" << j << " answers yes but witness " << w.str() << " of the left (" << to_str(A[i]) << ") is not in the right ("
                     << to_str(A[j]) << ") : " << rs);
        }
        if (!ib && !A[j].is_top())
          R().cls("leq_yes_nontrivial");
      }
    }
  }

  void run_history() {
    D top;
    for (unsigned i = 0; i < NVALS; i++) {
      A.push_back(top.make_top());
#ifdef VERIF_GENERIC
      G.push_back(generic_dom_t(top.make_top()));
#endif
      S.push_back(Slot());
    }
    unsigned nw0 = 4 + t.pick(5);
    std::vector<State> w0;
    for (unsigned q = 0; q < nw0; q++)
      w0.push_back(random_state());
    for (unsigned i = 0; i < NVALS; i++)
      S[i].W = w0;
    // probes for snapshots
    std::set<var_t> dummy;
    for (unsigned q = 0; q < 8; q++)
      probes.push_back(constraint(dummy));
    // C16 runs (tail choices, three quarters of them): the history starts from values that bind
    // every integer variable and share their representation -- A0 is built by assignments of
    // constants, some of the other values are copies of it
    if (ctx.selected_prop == "C16" && (t.tail_u8() & 3) != 0) {
      std::vector<var_t> pv = u.ints;
      pv.insert(pv.end(), u.wides.begin(), u.wides.end());
      for (auto &x : pv) {
        unsigned b = t.tail_u8();
        if ((b & 7) == 7)
          continue;
        z_number c((int64_t)(b >> 3) - 8);
        BOTH(0, X.assign(x, lin_t(c)));
        for (auto &w : S[0].W)
          w.num[x] = c;
        S[0].mentioned.insert(x);
      }
      dedup(S[0].W);
      for (unsigned k = 1; k < NVALS; k++)
        if (t.tail_u8() & 1) {
          A[k] = A[0];
#ifdef VERIF_GENERIC
          G[k] = G[0];
#endif
          S[k] = S[0];
          copies++;
        }
      for (unsigned k = 0; k < NVALS; k++)
        refresh_snap(k);
      check_members(0, "prologue_assign");
      R().cls("c16_shared_prologue");
    }
    unsigned nsteps = 3 + t.pick(38);
    for (unsigned q = 0; q < nsteps && !(t.exhausted() && q >= 3); q++) {
      step();
      if (q % 8 == 7)
        leq_sweep();
    }
    leq_sweep();
    ctx.log << "steps=" << steps_done << " leq_yes=" << leq_yes << " leq_no=" << leq_no << " copies=" << copies << "\n";
    for (unsigned i = 0; i < NVALS; i++)
      ctx.log << "A" << i << " = " << to_str(A[i]) << "  |W|=" << S[i].W.size() << "\n";
  }

  // ---- widening chains (C05b) ----------------------------------------------------------------------
  // x_{i+1} = x_i widen y_i where every y_i is decoded separately: the image of
  // x_i under one of a few decoded loop bodies (what the fixpoint iterator feeds
  // to widening) or an independent "arbitrary further value" (a box around a
  // decoded state); optionally joined with x_i first; with or without thresholds;
  // with interleaved normalising queries.
  struct Body {
    std::vector<std::pair<var_t, lin_t>> asg;
    bool use_guard = false;
    cst_t guard;
  };
  void run_chain() {
    D top;
    unsigned n = (unsigned)u.ints.size();
    unsigned nthr = t.flag() ? t.pick(6) : 0;
    crab::thresholds<z_number> ts;
    for (unsigned q = 0; q < nthr; q++)
      ts.add(ikos::bound<z_number>(z_number(t.small_int(60))));
    A.push_back(top.make_top());
    S.push_back(Slot());
    for (unsigned q = 0; q < 4; q++)
      S[0].W.push_back(random_state());
#ifdef VERIF_GENERIC
    G.push_back(generic_dom_t(top.make_top()));
#endif
    // start from a bounded value most of the time (so that there is something to extrapolate)
    bool bounded_start = t.pick(4) != 3;
    if (bounded_start) {
      for (auto &v : u.ints) {
        z_number c(t.small_int(5));
        A[0].assign(v, lin_t(c));
        for (auto &w : S[0].W)
          w.num[v] = c;
      }
      dedup(S[0].W);
    }
    unsigned pre = t.pick(4);
    for (unsigned q = 0; q < pre; q++)
      transfer(0);
    unsigned K = 8 * ((n + 1) * (n + 1) * (nthr + 3) + 4); // generous structural bound on strict increases
    unsigned L = 3 * K;
    if (L > 1500)
      L = 1500;
    unsigned increases = 0, last_increase = 0, independent = 0;
    bool with_join = t.flag();
    bool with_queries = t.flag();
    if (getenv("VERIF_CHAIN_NOQ")) // triage knob: the same chain without queries / normalize() between the widenings
      with_queries = false;
    // like the fixpoint iterator's widening delay: the first `delay` steps use join, so that the
    // left operand of the first widening already carries explicit relations between variables
    unsigned delay = t.pick(4);
    std::set<var_t> dummy;
    unsigned nb = 1 + t.pick(3);
    std::vector<Body> bodies(nb);
    for (auto &bd : bodies) {
      unsigned len = 1 + t.pick(3);
      for (unsigned q = 0; q < len; q++) {
        var_t lhs = ivar();
        // mostly increments/decrements of one variable, sometimes an arbitrary expression
        unsigned form = t.pick(4);
        if (form <= 1)
          bd.asg.push_back({lhs, lin_t(lhs) + lin_t(z_number(t.small_int(4)))});
        else if (form == 2) // x := y + c : ties two variables by a difference (relational domains)
          bd.asg.push_back({lhs, lin_t(ivar()) + lin_t(z_number(t.small_int(3)))});
        else
          bd.asg.push_back({lhs, linexp(2, dummy)});
      }
      bd.use_guard = t.pick(3) == 0;
      bd.guard = constraint(dummy);
    }
    // (tail choice, one chain in eight) the ping-pong loop: `if (*) a := b + c1 else b := a + c2`, taken
    // alternately, with a delay of at least two -- two variables tied by explicit differences whose
    // bounds are pushed one per iteration (where closing the left operand of a widening re-derives
    // the bound that the previous widening dropped)
    bool pingpong = false;
    {
      unsigned pp = t.tail_u8();
      if ((pp & 7) == 3 && u.ints.size() >= 2) {
        pingpong = true;
        unsigned ia = (pp >> 3) % (unsigned)u.ints.size(), ib = (ia + 1 + ((pp >> 5) % ((unsigned)u.ints.size() - 1))) % (unsigned)u.ints.size();
        const var_t &a = u.ints[ia], &b = u.ints[ib];
        bodies.assign(2, Body());
        nb = 2;
        bodies[0].asg.push_back({a, lin_t(b) + lin_t(z_number(1 + (int64_t)((pp >> 6) & 1)))});
        bodies[1].asg.push_back({b, lin_t(a) + lin_t(z_number(1 + (int64_t)((pp >> 7) & 1)))});
        bodies[0].use_guard = bodies[1].use_guard = false;
        bodies[0].guard = bodies[1].guard = cst_t::get_true();
        if (delay < 2)
          delay = 2 + (pp >> 4) % 2;
        R().cls("chain_pingpong");
      }
    }
    ctx.log << "chain: thresholds=" << nthr << " delay=" << delay << " join_first=" << with_join << " queries=" << with_queries << " bounded_start=" << bounded_start;
    for (unsigned q = 0; q < nb; q++) {
      ctx.log << "\n  body" << q << ":";
      for (auto &b : bodies[q].asg)
        ctx.log << " " << to_str(b.first) << ":=" << to_str(b.second) << ";";
      if (bodies[q].use_guard)
        ctx.log << " guard " << to_str(bodies[q].guard);
    }
    ctx.log << "\n";
    D x(A[0]);
    std::vector<State> wx = S[0].W;
    unsigned quiet = 0;
    for (unsigned it = 0; it < L; it++) {
      D y(x);
      std::vector<State> wy;
      unsigned choice = t.pick(nb + 1);
      if (pingpong)
        choice = it % 2;
      if (choice == nb) {
        // an arbitrary further value: a box (and a difference) around a decoded state
        independent++;
        State s = random_state();
        csts_t sys;
        for (auto &v : u.ints) {
          unsigned k = t.pick(4);
          z_number slack((int64_t)t.pick(4));
          if (k == 0)
            sys += cst_t(lin_t(v) == lin_t(s.num[v]));
          else if (k == 1)
            sys += cst_t(lin_t(v) <= lin_t(s.num[v] + slack));
          else if (k == 2)
            sys += cst_t(lin_t(v) >= lin_t(s.num[v] - slack));
        }
        if (n >= 2 && t.flag()) {
          const var_t &a = ivar(), &b2 = ivar();
          sys += cst_t(lin_t(a) - lin_t(b2) <= lin_t(s.num[a] - s.num[b2] + z_number((int64_t)t.pick(3))));
        }
        y = top.make_top();
        y += sys;
        wy.push_back(s);
      } else {
        const Body &bd = bodies[choice];
        if (bd.use_guard) {
          csts_t sys;
          sys += bd.guard;
          y += sys;
        }
        for (auto &b : bd.asg)
          y.assign(b.first, b.second);
        for (auto s : wx) {
          if (bd.use_guard && !holds(bd.guard, s))
            continue;
          for (auto &b : bd.asg)
            s.num[b.first] = ev(b.second, s);
          wy.push_back(s);
        }
      }
      if (INT64_WEIGHTS && (large_magnitude(y, vars) || large_magnitude(x, vars)))
        throw Truncate{"int64_dbm_weights_large_magnitude"};
      D arg = with_join ? (x | y) : y;
      D nx = it < delay ? (x | arg) : (nthr ? x.widening_thresholds(arg, ts) : (x || arg));
      // widening describes both arguments
      std::vector<State> wn = wx;
      wn.insert(wn.end(), wy.begin(), wy.end());
      dedup(wn);
      for (auto &w : wn) {
        std::string r = hmember(w, nx, it < 6 ? mo : mo_light);
        VCHECK(ctx, "C05", r.empty(), "chain_widening_misses_argument_" + r.substr(0, 2),
               "chain step " << it << ": x || y = " << to_str(nx) << " does not contain witness " << w.str() << " of its arguments x=" << to_str(x)
                             << " y=" << to_str(arg) << " : " << r);
      }
      if (ctx.selected_prop == "C16") {
        // C16 (moves): a widening result move-assigned into an existing value describes what a copy
        // of it describes, now and after a later operation (normalisation of a copy of each)
        D c(nx), src(nx);
        D dst = (it & 1) ? D(x) : top.make_top();
        dst = std::move(src);
        D a2(dst), c2(c);
        a2.normalize();
        c2.normalize();
        std::string a = snapshot(dst, vars, probes) + " / normalized: " + snapshot(a2, vars, probes);
        std::string b = snapshot(c, vars, probes) + " / normalized: " + snapshot(c2, vars, probes);
        moves_compared++;
        VCHECK(ctx, "C16", a == b, "chain_move_assigned_value_differs_from_copy",
               "chain step " << it << ": the widening result " << to_str(nx) << " was copied, then move-assigned into an existing value: the moved-to value observes "
                             << a << " but the copy observes " << b);
      }
      if (with_queries && (it % 3) == 1) {
        // on a COPY of the iterate: closing the left operand of the next widening is the client's
        // doing, no caller in crab does it, and no DBM-like widening can stabilise under it (the
        // property speaks of x, x || y1, (x || y1) || y2, ... -- see DESIGN.md 4.2 item 11)
        D q(nx);
        for (auto &v : vars)
          (void)q[v];
        q.normalize();
      }
      bool inc = !(nx <= x);
      if (it < delay)
        inc = false; // joins are not part of the chain whose length is bounded
      if (inc) {
        increases++;
        last_increase = it;
        quiet = 0;
        if (ctx.verbose)
          ctx.log << "  step " << it << " (y" << choice << ") strict increase -> " << to_str(nx) << "\n";
      } else
        quiet++;
      x = nx;
      wx = wn;
      if (wx.size() > 6)
        wx.erase(wx.begin(), wx.end() - 6); // keep the most recent witnesses
      // the remaining choices are all 0 once the tape is exhausted (body 0 for ever): stop
      // after it has been stationary for a while; before that keep feeding further values
      if (quiet > 8 && (t.exhausted() || quiet > 40))
        break;
    }
    ctx.log << "chain: strict increases=" << increases << " last at step " << last_increase << " independent values=" << independent << " bound K=" << K << "\n";
    VCHECK(ctx, "C05", increases <= K, "chain_not_stationary",
           "widening chain still strictly increasing after " << increases << " increases (structural bound " << K << ", n=" << n << ", thresholds=" << nthr << ")");
    if (increases >= 2)
      ctx.nontrivial = true;
    if (ctx.selected_prop == "C16")
      ctx.nontrivial = increases >= 1 && moves_compared > 0;
    R().cls(increases >= 3 ? "chain_ge3_increases" : (increases == 2 ? "chain_2_increases" : "chain_lt2_increases"));
    if (increases * 2 > K)
      R().diag("chain_increases_within_factor_2_of_bound");
  }
};

} // namespace

namespace verif {
void run_case(const uint8_t *data, size_t size, CaseCtx &ctx) {
  Tape t(data, size);
  crab::CrabSanityCheckFlag = false;
  crab::CrabWarningFlag = false;
  decode_domain_params(t, VERIF_VARIANT, ctx.log);
  Universe u;
  u.vfac = std::make_shared<variable_factory_t>();
  auto &vf = *u.vfac;
  unsigned ni = 2 + t.pick(4);
  for (unsigned i = 0; i < ni; i++)
    u.ints.push_back(var_t(vf["x" + std::to_string(i)], crab::INT_TYPE, 32));
  if (DOM_CAPS & CAP_CAST)
    u.wides.push_back(var_t(vf["w0"], crab::INT_TYPE, 64));
  if (DOM_CAPS & CAP_BOOL) {
    unsigned nb = 1 + t.pick(3);
    for (unsigned i = 0; i < nb; i++)
      u.bools.push_back(var_t(vf["p" + std::to_string(i)], crab::BOOL_TYPE, 1));
  }
  for (unsigned i = 0; i < 3; i++)
    u.fresh.push_back(var_t(vf["r" + std::to_string(i)], crab::INT_TYPE, 32));
  bool chain = ctx.selected_prop == "C05" ? (t.pick(4) != 0) : (ctx.selected_prop == "C16" ? (t.pick(8) >= 5) : (t.pick(8) == 7));
  ctx.log << "domain=" << VERIF_VARIANT << (chain ? " mode=chain" : " mode=history") << " ints=" << ni << " bools=" << u.bools.size() << "\n";
  Hist<dom_t> h(t, ctx, u);
  if (chain) {
    h.run_chain();
    ctx.mixs(ctx.log.str());
    R().cls("mode_chain");
    return;
  }
  h.run_history();
  R().cls("mode_history");
  if (h.moves_compared) R().cls("history_with_move_compared_with_copy");
  ctx.mixs(ctx.log.str());
  unsigned distinct = 0;
  for (unsigned i = 0; i < NVALS; i++)
    if (!h.A[i].is_top() && !h.A[i].is_bottom())
      distinct++;
  if (ctx.selected_prop == "C04")
    ctx.nontrivial = h.leq_yes > 0 && distinct >= 2;
  else if (ctx.selected_prop == "C16")
    ctx.nontrivial = h.copies > 0 && h.mutations_after_copy >= 2 && h.observed_copy > 0;
  else if (ctx.selected_prop == "C05")
    ctx.nontrivial = false;
  else
    ctx.nontrivial = h.any_nontrivial_checked && distinct >= 2 && h.steps_done >= 3;
}
} // namespace verif
