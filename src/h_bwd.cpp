// h_bwd-<domain>: backward (necessary preconditions) and combined
// forward+backward analysis vs concrete executions.
//   C11  necessary_preconditions_fixpoint_iterator: B[b] contains every state at
//        the entry of b from which some execution goes on to violate an assertion
//        (error mode) / to leave the exit block in the decoded post-condition
//        (good mode)
//   C02  (fwd+bwd) safe/unreachable verdicts of the assertion checker run on
//        intra_forward_backward_analyzer are never wrong
//   C05  the backward / forward+backward analysis terminates (step budget)
//
// One case = one program + one of three parts selected from the tape
// (VERIF_PROP=C11 forces a C11 part, VERIF_PROP=C02 forces the C02 part):
//   part 0  C11 error mode     part 1  C02 fwd+bwd     part 2  C11 good mode
// Variants: interval sdbm soct bool_int dbm (numeric + boolean statements) and
// aa_int (adds array statements; membership of array cells is observed through
// loads).  A failure is localised to the backward transfer function that lost the
// state (classifier tag bwd_{err,good}_<statement kind> / fwdbwd_safe_but_violated_
// <statement kind>); see failures_bwd/known_tags.txt for the tags of known defects.
#include "core/report.hpp"
#include "core/tape.hpp"
#include "prog/domains.hpp"
#include "prog/gen.hpp"
#include "prog/interp.hpp"
#include "prog/member.hpp"
#include "prog/stmtkind.hpp"

#include <crab/analysis/bwd_analyzer.hpp>
#include <crab/analysis/dataflow/liveness.hpp>
#include <crab/analysis/fwd_analyzer.hpp>
#include <crab/checkers/assertion.hpp>
#include <crab/checkers/base_property.hpp>
#include <crab/checkers/checker.hpp>

#include <unordered_map>

// tags of the array_adaptive variant carry their own prefix: its recorded findings (backward
// array transfer functions) must never absorb a failure of another variant
#if defined(VERIF_VARIANT_aa_int)
#define AA_PFX "aa_"
#else
#define AA_PFX ""
#endif
using namespace verif;
using namespace vp;

namespace verif {
const char *harness_name() { return "h_bwd-" VERIF_VARIANT; }
} // namespace verif

using fwd_t = crab::analyzer::intra_fwd_analyzer<cfg_ref_t, dom_t>;
using bwd_t = crab::analyzer::necessary_preconditions_fixpoint_iterator<cfg_ref_t, dom_t>;
using fb_t = crab::analyzer::intra_forward_backward_analyzer<cfg_ref_t, dom_t>;
using checker_t = crab::checker::intra_checker<fb_t>;
using assert_checker_t = crab::checker::assert_property_checker<fb_t>;
using inv_map_t = std::unordered_map<label_t, dom_t>;
using pp_map_t = std::unordered_map<const stmt_t *, dom_t>;
using fwd_tr_t = crab::analyzer::intra_abs_transformer<block_t, dom_t>;
using bwd_tr_t = crab::analyzer::intra_necessary_preconditions_abs_transformer<block_t, dom_t, pp_map_t>;

#ifdef VERIF_INT64_WEIGHTS
static const bool INT64_WEIGHTS = true;
#else
static const bool INT64_WEIGHTS = false;
#endif

// does this abstract value carry a finite bound of large magnitude? (int64 DBM guard)
static bool large_magnitude(const dom_t &inv, const std::vector<var_t> &vars) {
  if (inv.is_bottom())
    return false;
  z_number lim = z_number(1) << z_number(40);
  for (auto &v : vars) {
    auto i = inv.at(v);
    if (i.is_bottom())
      continue;
    if (i.lb().is_finite() && (*i.lb().number() > lim || *i.lb().number() < -lim))
      return true;
    if (i.ub().is_finite() && (*i.ub().number() > lim || *i.ub().number() < -lim))
      return true;
  }
  return false;
}

// statement kind used in classifier tags (stmtkind.hpp + range stores told apart)
static std::string kind_of(stmt_t &s) {
  if (s.is_arr_write()) {
    auto &st = static_cast<crab::cfg::statement_visitor<label_t, z_number, varname_t>::arr_store_t &>(s);
    if (!st.lb_index().equal(st.ub_index()))
      return "arr_store_range";
  }
  return stmt_kind(s);
}

// gamma-membership: prog/member.hpp on the scalars; array contents (array variants
// only) are observed the way the properties observe them, through a load of each
// written cell into a fresh variable on a copy of the value.
static const Program *g_prog = nullptr;
static std::string mem(const State &s, const dom_t &A, const MemberOpts &mo) {
  std::string r = member(s, A, mo);
  if (!r.empty() || s.arr.empty() || !g_prog)
    return r;
  for (auto &kv : s.arr) {
    z_number es(0);
    for (unsigned i = 0; i < g_prog->arrs.size(); i++)
      if (g_prog->arrs[i] == kv.first)
        es = g_prog->arr_elem_size[i];
    if (es <= 0)
      continue;
    unsigned n = 0;
    for (auto &cell : kv.second) {
      if (n++ >= 8)
        break;
      if (cell.first % es != 0)
        continue;
      dom_t C(A);
      // the ghost variable of a cell of es bytes is an integer of 8*es bits
      var_t tmp((*g_prog->vfac)["__cell" + es.get_str()], crab::INT_TYPE, (unsigned)(8 * (int64_t)es));
      C.array_load(tmp, kv.first, lin_t(es), lin_t(cell.first));
      if (C.is_bottom())
        return "MA load of " + to_str(kv.first) + "[" + cell.first.get_str() + "] made the value bottom";
      auto i = C.at(tmp);
      using bound_t = ikos::bound<z_number>;
      if (i.is_bottom() || !(i.lb() <= bound_t(cell.second) && bound_t(cell.second) <= i.ub()))
        return "MA load of " + to_str(kv.first) + "[" + cell.first.get_str() + "] = " + to_str(i) + " misses " + cell.second.get_str();
    }
  }
  return "";
}

// ---- recording of one concrete execution ---------------------------------------
struct Visit {
  label_t b;
  State entry;
  std::vector<State> after; // state after statement idx (only completed statements)
  bool exited = false;      // all statements of the block were executed
};

// thrown by the recorder to stop an execution whose values explode (x := x*x in a
// loop doubles the size of the number at every step): outside the model
struct ValueTooLarge {};

struct Rec : public Observer {
  std::vector<Visit> path;
  std::map<int64_t, bool> *reached = nullptr, *violated = nullptr;
  bool record_states = true;
  // good mode
  const csts_t *post = nullptr;
  label_t exit_label;
  int good_upto = -1; // index in path of the last visit of the exit block that ended in the post-condition
  bool any_large = false;

  void block_entry(const cfg_t &, const label_t &l, const State &s) override {
    path.push_back(Visit{l, s, {}, false});
    if (INT64_WEIGHTS && state_has_large_value(s))
      any_large = true;
  }
  void after_stmt(const cfg_t &, const label_t &, unsigned, stmt_t &, const State &s) override {
    if (record_states)
      path.back().after.push_back(s);
    if (INT64_WEIGHTS && state_has_large_value(s))
      any_large = true;
    if (state_has_large_value(s, 2048))
      throw ValueTooLarge{};
  }
  void block_exit(const cfg_t &, const label_t &l, const State &s) override {
    path.back().exited = true;
    if (post && l == exit_label) {
      bool ok = true;
      for (auto &c : *post) {
        bool def;
        if (!Interp::holds_in(c, s, def) || !def)
          ok = false;
      }
      if (ok)
        good_upto = (int)path.size() - 1;
    }
  }
  void assertion(const cfg_t &, stmt_t &st, bool holds, const State &) override {
    int64_t id = st.get_debug_info().get_id();
    if (reached)
      (*reached)[id] = true;
    if (!holds && violated)
      (*violated)[id] = true;
  }
};

// ---- the C11 oracle on one recorded execution -------------------------------------
struct BwdResult {
  cfg_t *cfg = nullptr;
  std::map<label_t, dom_t> B; // reported preconditions (block entry)
  const inv_map_t *fwd = nullptr; // supplied forward invariants (nullptr = none)
  dom_t postcond;                 // value the backward run was started from
  bool good = false;
  const dom_t &pre(const label_t &l) { return B.at(l); }
};

// Which statement of block path[j] lost the state?  Replays the backward transfer
// of that block exactly as necessary_preconditions_fixpoint_iterator::analyze does
// (rebuild per-statement forward invariants, then visit the statements in reverse)
// and compares with the recorded concrete states.  Only used to give the failure a
// narrow classifier tag; it never changes the verdict.
static std::string localize(BwdResult &br, const std::vector<Visit> &path, unsigned j, bool block_has_failing_assert,
                            const MemberOpts &mo, std::string &detail) {
  const Visit &v = path[j];
  block_t &b = br.cfg->get_node(v.b);
  dom_t top;
  dom_t P = top.make_bottom();
  if (br.cfg->has_exit() && v.b == br.cfg->exit())
    P |= br.postcond;
  for (auto const &n : boost::make_iterator_range(b.next_blocks()))
    P |= br.pre(n);
  std::vector<stmt_t *> stmts;
  for (auto &s : b)
    stmts.push_back(&s);
  unsigned n = (unsigned)stmts.size();
  if (v.after.size() > n)
    return "unlocalized";
  // states: before(s) = s == 0 ? entry : after[s-1]
  auto before = [&](unsigned s) -> const State & { return s == 0 ? v.entry : v.after[s - 1]; };
  if (!block_has_failing_assert) {
    if (!v.exited || v.after.size() != n)
      return "unlocalized";
    const State &last = n == 0 ? v.entry : v.after[n - 1];
    std::string r = mem(last, P, mo);
    if (!r.empty()) {
      detail = "the state leaving the block " + last.str() + " is not in the join of the successors' preconditions " + to_str(P);
      return "join_successors";
    }
  }
  // index of the last statement that has a concrete state before it
  int last_idx = block_has_failing_assert ? (int)v.after.size() : (int)n - 1;
  dom_t invariant = top.make_top();
  if (br.fwd) {
    auto it = br.fwd->find(v.b);
    if (it != br.fwd->end())
      invariant = it->second;
  }
  fwd_tr_t F(invariant);
  pp_map_t pp;
  for (auto *s : stmts) {
    pp.insert({s, F.get_abs_value()});
    s->accept(&F);
  }
  bwd_tr_t T(P, &pp, br.good);
  for (int s = (int)n - 1; s >= 0; s--) {
    dom_t postv = T.preconditions();
    stmts[s]->accept(&T);
    if (s > last_idx)
      continue;
    dom_t prev = T.preconditions();
    std::string r = mem(before((unsigned)s), prev, mo);
    if (!r.empty()) {
      detail = "backward `" + to_str(*stmts[s]) + "` : post " + to_str(postv) + " -> pre " + to_str(prev) + " (forward invariant " +
               to_str(pp.at(stmts[s])) + ") loses the state " + before((unsigned)s).str() + " : " + r;
      return kind_of(*stmts[s]);
    }
  }
  detail = "re-applying the backward transformer to the block from the successors' preconditions keeps the state; the stored "
           "precondition differs from that image";
  return "fixpoint";
}

// C11 only speaks about executions "consistent with the supplied forward
// invariants".  Invariants of a real forward run contain every execution when the
// forward analysis is sound -- which is property C01, not this one.  Before a C11
// failure is reported the execution is therefore checked against the supplied
// invariants (block entries and, re-propagated, every statement).
static bool consistent_with_forward(BwdResult &br, const std::vector<Visit> &path, unsigned upto, const MemberOpts &mo, std::string &why) {
  if (!br.fwd)
    return true;
  dom_t top;
  for (unsigned j = 0; j <= upto && j < path.size(); j++) {
    const Visit &v = path[j];
    dom_t inv = top.make_top();
    auto it = br.fwd->find(v.b);
    if (it != br.fwd->end())
      inv = it->second;
    std::string r = mem(v.entry, inv, mo);
    if (!r.empty()) {
      why = "state " + v.entry.str() + " at the entry of " + v.b + " is outside the forward invariant " + to_str(inv) + " : " + r;
      return false;
    }
    fwd_tr_t F(inv);
    unsigned idx = 0;
    for (auto &s : br.cfg->get_node(v.b)) {
      if (idx >= v.after.size())
        break;
      s.accept(&F);
      r = mem(v.after[idx], F.get_abs_value(), mo);
      if (!r.empty()) {
        why = "state " + v.after[idx].str() + " after `" + to_str(s) + "` in " + v.b + " is outside the propagated forward invariant " + to_str(F.get_abs_value()) + " : " + r;
        return false;
      }
      idx++;
    }
  }
  return true;
}

static const char *FWD_EXCLUDES = "forward_invariant_excludes_execution";

// checks visits 0..upto of the recorded path against B; returns the number of
// distinct visited blocks whose precondition is neither top nor bottom
static unsigned check_path(CaseCtx &ctx, BwdResult &br, Rec &rec, unsigned upto, bool violation, const MemberOpts &mo,
                           const std::string &prefix, const char *prop = "C11") {
  std::set<label_t> informative;
  int bad = -1;
  std::string bad_reason;
  for (unsigned j = 0; j <= upto && j < rec.path.size(); j++) {
    const Visit &v = rec.path[j];
    const dom_t &B = br.pre(v.b);
    if (!B.is_top() && !B.is_bottom())
      informative.insert(v.b);
    std::string r = mem(v.entry, B, mo);
    if (ctx.want(prop))
      R().checks++;
    if (!r.empty()) {
      bad = (int)j;
      bad_reason = r;
    }
  }
  if (bad >= 0 && ctx.want(prop)) {
    const Visit &v = rec.path[bad];
    std::string detail;
    if (!consistent_with_forward(br, rec.path, upto, mo, detail)) {
      // not a C11 matter (the forward analysis is unsound here: C01's business)
      R().diag(FWD_EXCLUDES);
      if (ctx.verbose)
        ctx.log << "execution not consistent with the supplied forward invariants: " << detail << "\n";
      if (std::string(prop) == "C02")
        throw Fail{prop, FWD_EXCLUDES, detail};
      return 0;
    }
    std::string culprit = rec.record_states ? localize(br, rec.path, (unsigned)bad, violation && (unsigned)bad == upto, mo, detail) : "unlocalized";
    std::ostringstream os;
    os << "state " << v.entry.str() << " at the entry of block " << v.b << " (visit " << bad << " of ";
    for (unsigned j = 0; j <= upto; j++)
      os << rec.path[j].b << " ";
    os << ") goes on to " << (br.good ? "leave the exit block in the post-condition" : "violate an assertion")
       << " but is not in the reported precondition " << to_str(br.pre(v.b)) << " : " << bad_reason << "\n  " << detail;
    throw Fail{prop, prefix + culprit, os.str()};
  }
  return (unsigned)informative.size();
}

// every block must be able to reach the exit (the backward pass says nothing about
// the others): add edges, construction over rejection
static unsigned connect_to_exit(Tape &t, Program &prog) {
  cfg_t &cfg = *prog.cfg;
  unsigned added = 0;
  for (;;) {
    std::set<label_t> can;
    std::vector<label_t> work{cfg.exit()};
    can.insert(cfg.exit());
    while (!work.empty()) {
      label_t l = work.back();
      work.pop_back();
      for (auto const &p : boost::make_iterator_range(cfg.get_node(l).prev_blocks()))
        if (can.insert(p).second)
          work.push_back(p);
    }
    label_t missing;
    bool found = false;
    for (auto &l : prog.labels)
      if (!can.count(l)) {
        missing = l;
        found = true;
        break;
      }
    if (!found)
      return added;
    // target: the exit (0) or another block that already reaches it
    std::vector<label_t> targets{cfg.exit()};
    for (auto &l : prog.labels)
      if (can.count(l) && l != cfg.exit())
        targets.push_back(l);
    label_t tgt = targets[t.pick((unsigned)targets.size())];
    cfg.get_node(missing) >> cfg.get_node(tgt);
    added++;
  }
}

namespace verif {
void run_case(const uint8_t *data, size_t size, CaseCtx &ctx) {
  // Tape extension: the quick-tier tapes are often shorter than program + 8..24
  // executions need, and an exhausted tape makes all executions identical (all
  // choices 0).  The tape is therefore continued by a deterministic multiplicative
  // echo of itself (byte (i+k) mod n times an odd factor): still a pure function of
  // the tape, an all-zero tape stays all-zero (simplest case), deleting bytes still
  // simplifies the program, which is decoded first.
  std::vector<uint8_t> ext(data, data + size);
  for (unsigned k = 1; size > 0 && ext.size() < 1024; k++)
    for (size_t i = 0; i < size && ext.size() < 1024; i++)
      ext.push_back((uint8_t)(data[(i + k) % size] * (2 * k + 1)));
  Tape t(ext.data(), ext.size());
  // ---- parameters --------------------------------------------------------------
  crab::fixpoint_parameters fp;
  fp.get_widening_delay() = t.pick(6);
  fp.get_descending_iterations() = t.pick(4);
  static const unsigned thr[] = {0, 1, 5, 20};
  fp.get_max_thresholds() = thr[t.pick(4)];
  unsigned part = t.pick(3);
  if (ctx.selected_prop == "C11" && part == 1)
    part = 0;
  if (ctx.selected_prop == "C02")
    part = 1;
  crab::CrabSanityCheckFlag = false;
  crab::CrabWarningFlag = false;
  crab::domains::crab_domain_params_man::get() = crab::domains::crab_domain_params();

  // ---- program -------------------------------------------------------------------
  Program prog;
  GenOpts go;
  go.caps = DOM_CAPS; // array statements only for the array variants (aa_int, ...)
  // unsigned and bitwise operations all take the same backward path ("forget the
  // lhs") and most of their executions leave the concrete model: keep them rare
  if (t.pick(4) != 3)
    go.caps &= ~(unsigned)CAP_UNSIGNED;
  if (t.pick(3) != 2)
    go.caps &= ~(unsigned)CAP_BITWISE;
  // error mode: a violated assertion ends the execution, so assertions scattered by
  // the generator make most violating executions one block long.  Usually keep only
  // the 1-2 assertions appended below (preferably to the exit block): the error
  // states then have to be carried backwards through the whole program.
  if (part == 0 && t.pick(3) != 2)
    go.caps &= ~(unsigned)CAP_ASSERT;
  go.const_cap = VERIF_CONST_CAP;
  go.force_exit = true;
  Gen gen(t, go, prog);
  gen.build();
  cfg_t &cfg = *prog.cfg;
  g_prog = &prog;
  unsigned added_edges = connect_to_exit(t, prog);
  // both properties are about assertions: make sure there is at least one, preferably
  // late in the program (appended to a decoded block; 0 = the last block)
  if (part != 2) {
    unsigned extra = (prog.n_asserts == 0 ? 1 : 0) + (t.pick(3) == 2 ? 1 : 0);
    for (unsigned i = 0; i < extra; i++) {
      const label_t &l = t.pick(2) == 0 ? cfg.exit() : prog.labels[prog.labels.size() - 1 - t.pick((unsigned)prog.labels.size())];
      cst_t c = gen.assert_constraint();
      if (t.pick(2) == 0) { // a bound on one variable: representable by every domain, also when negated
        var_t v = gen.ivar();
        z_number k(t.small_int(8));
        c = t.flag() ? cst_t(lin_t(v) <= lin_t(k)) : cst_t(lin_t(v) >= lin_t(k));
      }
      if (!prog.bools.empty() && t.pick(3) == 2) {
        // boolean domains: the appended assertion is a bool_assert on a boolean defined from the
        // condition (the only assertion of its block more often than not)
        var_t q = gen.bvar();
        cfg.get_node(l).bool_assign(q, c);
        cfg.get_node(l).bool_assert(q, crab::cfg::debug_info("verif", 1, 1, go.first_assert_id + prog.n_asserts));
      } else
        cfg.get_node(l).assertion(c, crab::cfg::debug_info("verif", 1, 1, go.first_assert_id + prog.n_asserts));
      prog.n_asserts++;
    }
  }
  static const char *part_name[] = {"C11-error", "C02-fwd+bwd", "C11-good"};
  ctx.log << "domain=" << VERIF_VARIANT << " part=" << part_name[part] << " delay=" << fp.get_widening_delay()
          << " narrow=" << fp.get_descending_iterations() << " thresholds=" << fp.get_max_thresholds() << "\n";
  std::string cfg_text = to_str(cfg);
  ctx.log << cfg_text;
  ctx.mixs(cfg_text);
  ctx.mix(fp.get_widening_delay() * 64 + fp.get_descending_iterations() * 8 + fp.get_max_thresholds() + 1000 * part);
  type_check(cfg);
  R().cls(std::string("part_") + part_name[part]);
  R().cls(prog.structured ? "shape_structured" : "shape_unstructured");
  if (added_edges)
    R().cls("shape_edges_added_to_reach_exit");
  R().cls(prog.labels.size() >= 4 ? "blocks_4plus" : (prog.labels.size() >= 2 ? "blocks_2_3" : "blocks_1"));
  if (prog.n_loops)
    R().cls("has_loop");
  if (prog.n_asserts)
    R().cls("has_assert");

  // ---- initial value ---------------------------------------------------------------
  std::vector<var_t> scalars = prog.all_scalar_vars();
  State sigma0;
  for (auto &v : scalars)
    sigma0.num[v] = v.get_type().is_bool() ? z_number((int64_t)(t.u8() & 1)) : z_number(t.small_int(6));
  csts_t init_csts;
  unsigned ninit = t.pick(4); // 0 => init = top
  for (unsigned i = 0; i < ninit && !prog.ints.empty(); i++) {
    const var_t &x = prog.ints[t.pick((unsigned)prog.ints.size())];
    const var_t &y = prog.ints[t.pick((unsigned)prog.ints.size())];
    z_number slack((int64_t)t.pick(4));
    switch (t.pick(4)) {
    case 0: init_csts += cst_t(lin_t(x) == lin_t(sigma0.num[x])); break;
    case 1: init_csts += cst_t(lin_t(x) <= lin_t(sigma0.num[x] + slack)); break;
    case 2: init_csts += cst_t(lin_t(x) >= lin_t(sigma0.num[x] - slack)); break;
    default: init_csts += cst_t(lin_t(x) - lin_t(y) <= lin_t(sigma0.num[x] - sigma0.num[y] + slack)); break;
    }
  }
  dom_t top;
  dom_t init = top.make_top();
  init += init_csts;
  MemberOpts mo;

  auto budget_fail = [&](const char *tag, const step_budget_exceeded &e) {
    g_step_budget = ~0UL;
    VCHECK(ctx, "C05", false, tag, "analysis exceeded " << e.steps << " fixpoint/transfer events (suspected non-termination)");
    throw Truncate{"step_budget"};
  };
  auto any_large = [&](const dom_t &d) { return INT64_WEIGHTS && large_magnitude(d, scalars); };

  // start state of execution e: sigma0 or a perturbation of it (inside init if required)
  // `guide` (optional): an abstract value whose interval bounds are used as extra
  // candidate values (the bound itself and the first value outside it): boundary
  // testing of the reported precondition.  Only the choice of inputs is guided; the
  // oracle is the same for every state.
  auto start_state = [&](unsigned e, bool inside_init, const dom_t *guide) {
    State s = sigma0;
    if (e == 0)
      return s;
    for (auto &v : scalars)
      if (t.pick(3) == 0)
        s.num[v] = v.get_type().is_bool() ? z_number((int64_t)(t.u8() & 1)) : z_number(t.small_int(10));
    if (guide && !guide->is_bottom() && !guide->is_top()) {
      z_number lim = z_number(1) << z_number(INT64_WEIGHTS ? 30 : 200);
      for (auto &v : scalars) {
        if (!v.get_type().is_integer())
          continue;
        unsigned k = t.pick(8);
        if (k < 4)
          continue;
        auto itv = guide->at(v);
        if (itv.is_bottom())
          continue;
        auto bnd = (k & 1) ? itv.ub() : itv.lb();
        if (!bnd.is_finite() || *bnd.number() > lim || *bnd.number() < -lim)
          continue;
        z_number x = *bnd.number();
        if (k >= 6)
          x = (k & 1) ? x + z_number(1) : x - z_number(1);
        s.num[v] = x;
      }
    }
    if (inside_init) {
      bool ok = true;
      for (auto &c : init_csts) {
        bool def;
        if (!Interp::holds_in(c, s, def))
          ok = false;
      }
      if (!ok)
        s = sigma0;
    }
    return s;
  };

  unsigned long analysis_steps = 0;
  if (t.exhausted())
    R().cls("tape_exhausted_before_analysis");

  if (part != 1) {
    // =========================== C11 ==================================================
    bool good = part == 2;
    unsigned inv_mode = t.pick(3) ? 1 : 0; // 0: no forward invariants, 1: those of a real forward run from init
    csts_t post_csts;
    dom_t postcond = top.make_bottom();
    if (good) {
      unsigned npost = t.pick(3);
      for (unsigned i = 0; i < npost; i++)
        post_csts += gen.constraint();
      postcond = top.make_top();
      postcond += post_csts;
    }
    ctx.log << "forward invariants: " << (inv_mode ? "forward run from init " + to_str(init_csts) : std::string("none")) << "\n";
    if (good)
      ctx.log << "post-condition at the end of the exit block: " << to_str(post_csts) << "\n";
    ctx.mix(inv_mode * 2 + good);
    R().cls(inv_mode ? "c11_with_forward_invariants" : "c11_no_forward_invariants");

    fwd_t F(cfg, top.make_top(), nullptr, fp);
    bwd_t Bw(cfg, top.make_top(), good, fp);
    typename fwd_t::assumption_map_t assumptions;
    g_step_count = 0;
    g_step_budget = 400000;
    try {
      if (inv_mode) {
        F.run(cfg.entry(), init, assumptions);
        Bw.run_backward(postcond, F.get_pre_invariants());
      } else
        Bw.run_backward(postcond);
    } catch (const step_budget_exceeded &e) {
      budget_fail("bwd_analysis_step_budget", e);
    }
    analysis_steps = g_step_count;
    g_step_budget = ~0UL;

    BwdResult br;
    br.cfg = &cfg;
    br.good = good;
    br.postcond = postcond;
    br.fwd = inv_mode ? &F.get_pre_invariants() : nullptr;
    unsigned n_informative_blocks = 0;
    for (auto &l : prog.labels) {
      dom_t b = Bw[l];
      if (any_large(b) || (inv_mode && any_large(F.get_pre(l))))
        throw Truncate{"int64_dbm_weights_large_magnitude"};
      if (!b.is_top() && !b.is_bottom())
        n_informative_blocks++;
      br.B.emplace(l, std::move(b));
    }
    if (br.pre(cfg.entry()).is_bottom())
      R().cls("c11_entry_precondition_bottom");
    if (n_informative_blocks >= 2)
      R().cls("c11_two_or_more_informative_preconditions");
    if (ctx.verbose)
      for (auto &l : prog.labels)
        ctx.log << "  B[" << l << "] = " << to_str(br.pre(l)) << (inv_mode ? "   F[" + l + "] = " + to_str(F.get_pre(l)) : std::string()) << "\n";

    std::map<int64_t, bool> reached, violated;
    unsigned nexec = 8 + t.pick(17);
    unsigned events = 0, nt_events = 0;
    for (unsigned e = 0; e < nexec; e++) {
      // without supplied invariants every state at every block entry is "consistent":
      // executions may start in the middle of the program
      label_t start = cfg.entry();
      if (!inv_mode && e > 0 && t.pick(3) == 0)
        start = prog.labels[t.pick((unsigned)prog.labels.size())];
      State s = start_state(e, inv_mode != 0, &br.pre(start));
      Rec rec;
      rec.reached = &reached;
      rec.violated = &violated;
      if (good) {
        rec.post = &post_csts;
        rec.exit_label = cfg.exit();
      }
      Interp in(t);
      in.obs = &rec;
      if (INT64_WEIGHTS)
        in.big_chance = 0;
      Stop why;
      try {
        why = in.run(cfg, start, s);
      } catch (const ValueTooLarge &) {
        why = Stop::Outside;
        in.outside_reason = "value above 2^2048";
      }
      R().cls(std::string("exec_stop_") + stop_name(why));
      if (why == Stop::Outside)
        R().trunc(in.outside_reason);
      if (start != cfg.entry())
        R().cls("c11_exec_started_mid_program");
      bool event = good ? rec.good_upto >= 0 : why == Stop::AssertFailed;
      if (ctx.verbose) {
        ctx.log << "exec " << e << ": ";
        for (auto &v : rec.path)
          ctx.log << v.b << " ";
        ctx.log << "-> " << stop_name(why) << (event ? (good ? " [good exit]" : " [violation]") : "") << " start " << rec.path[0].entry.str() << "\n";
      }
      if (!event)
        continue;
      if (rec.any_large) {
        R().cls("c11_exec_skipped_large_value_int64");
        continue;
      }
      events++;
      unsigned upto = good ? (unsigned)rec.good_upto : (unsigned)rec.path.size() - 1;
      unsigned inf = check_path(ctx, br, rec, upto, !good, mo, good ? AA_PFX "bwd_good_" : AA_PFX "bwd_err_");
      R().cls(inf >= 2 ? "c11_event_through_2plus_informative_blocks" : (inf == 1 ? "c11_event_through_1_informative_block" : "c11_event_through_0_informative_blocks"));
      if (inf >= 2)
        nt_events++;
    }
    ctx.log << "executions=" << nexec << (good ? " good_exits=" : " violating=") << events << " of which through >=2 informative blocks=" << nt_events << "\n";
    if (!violated.empty())
      R().cls("program_with_violated_assertion");
    if (events)
      R().cls(good ? "c11_program_with_good_exit" : "c11_program_with_violating_execution");
    if (ctx.selected_prop == "C05")
      ctx.nontrivial = prog.n_loops > 0 && analysis_steps > 0;
    else
      ctx.nontrivial = nt_events > 0;
    return;
  }

  // =========================== C02 forward+backward =========================================
  crab::analyzer::fwd_bwd_parameters params;
  params.enable_backward() = t.pick(4) != 3;
  params.get_max_refine_iterations() = t.pick(6);
  params.get_use_refined_invariants() = t.flag();
  bool use_liveness = t.flag();
  ctx.log << "init: " << to_str(init_csts) << "\nfwd_bwd: backward=" << params.is_enabled_backward()
          << " max_refine_iterations=" << params.get_max_refine_iterations() << " use_refined_invariants=" << params.get_use_refined_invariants()
          << " liveness=" << use_liveness << "\n";
  ctx.mix(params.is_enabled_backward() * 64 + params.get_max_refine_iterations() * 4 + params.get_use_refined_invariants() * 2 + use_liveness);
  R().cls(params.is_enabled_backward() ? "c02_backward_enabled" : "c02_backward_disabled");
  if (params.get_use_refined_invariants())
    R().cls("c02_use_refined_invariants");

  crab::analyzer::live_and_dead_analysis<cfg_ref_t> live(cfg);
  if (use_liveness)
    live.exec();
  fb_t a(cfg, top.make_top());
  typename fb_t::assumption_map_t assumptions;
  g_step_count = 0;
  g_step_budget = 1500000;
  try {
    a.run(cfg.entry(), init, assumptions, use_liveness ? &live : nullptr, fp, params);
  } catch (const step_budget_exceeded &e) {
    budget_fail("fwdbwd_analysis_step_budget", e);
  }
  analysis_steps = g_step_count;
  g_step_budget = ~0UL;
  for (auto &l : prog.labels)
    if (any_large(a.get_pre(l)) || any_large(a.get_post(l)))
      throw Truncate{"int64_dbm_weights_large_magnitude"};

  // ---- checker ------------------------------------------------------------------------------
  std::map<int64_t, crab::checker::check_kind> verdict;
  std::set<int64_t> by_backward;
  if (prog.n_asserts > 0) {
    typename checker_t::prop_checker_ptr prop(new assert_checker_t(0));
    checker_t checker(a, {prop});
    checker.run();
    auto db = checker.get_all_checks();
    for (auto &kv : db.get_all_checks()) {
      if (kv.second.size() == 1)
        verdict[kv.first.get_id()] = kv.second[0];
    }
    std::set<const stmt_t *> proved;
    a.get_safe_assertions(proved);
    for (auto *s : proved)
      by_backward.insert(s->get_debug_info().get_id());
  }
  if (!by_backward.empty())
    R().cls("c02_assertion_discharged_by_backward");

  // ---- executions ----------------------------------------------------------------------------
  std::map<int64_t, bool> reached, violated;
  unsigned nexec = 8 + t.pick(17);
  // keep the first violating execution of each assertion for the localisation of a wrong verdict
  std::map<int64_t, std::vector<Visit>> witness;
  for (unsigned e = 0; e < nexec; e++) {
    State s = start_state(e, true, nullptr);
    Rec rec;
    std::map<int64_t, bool> r1, v1;
    rec.reached = &r1;
    rec.violated = &v1;
    Interp in(t);
    in.obs = &rec;
    if (INT64_WEIGHTS)
      in.big_chance = 0;
    Stop why;
    try {
      why = in.run(cfg, cfg.entry(), s);
    } catch (const ValueTooLarge &) {
      why = Stop::Outside;
      in.outside_reason = "value above 2^2048";
    }
    R().cls(std::string("exec_stop_") + stop_name(why));
    if (why == Stop::Outside)
      R().trunc(in.outside_reason);
    if (ctx.verbose) {
      ctx.log << "exec " << e << ": ";
      for (auto &v : rec.path)
        ctx.log << v.b << " ";
      ctx.log << "-> " << stop_name(why) << " start " << rec.path[0].entry.str() << "\n";
    }
    if (rec.any_large) {
      R().cls("c02_exec_skipped_large_value_int64");
      continue;
    }
    for (auto &kv : r1)
      reached[kv.first] = true;
    for (auto &kv : v1) {
      violated[kv.first] = true;
      if (!witness.count(kv.first))
        witness[kv.first] = rec.path;
    }
  }

  // on a wrong SAFE verdict: which backward transfer function is to blame?  Re-run the
  // first backward pass of the refinement loop stand-alone and apply the C11 oracle
  // to the violating execution.  Only refines the classifier tag.
  auto blame = [&](int64_t id) -> std::string {
    if (!params.is_enabled_backward())
      return "";
    try {
      fwd_t F(cfg, top.make_top(), use_liveness ? &live : nullptr, fp);
      typename fwd_t::assumption_map_t no_assumptions;
      F.run(cfg.entry(), init, no_assumptions);
      bwd_t Bw(cfg, top.make_top(), false, fp);
      Bw.run_backward(top.make_bottom(), F.get_pre_invariants());
      BwdResult br;
      br.cfg = &cfg;
      br.good = false;
      br.postcond = top.make_bottom();
      br.fwd = &F.get_pre_invariants();
      for (auto &l : prog.labels)
        br.B.emplace(l, Bw[l]);
      Rec rec;
      rec.path = witness.at(id);
      std::string why;
      if (!consistent_with_forward(br, rec.path, (unsigned)rec.path.size() - 1, mo, why)) {
        ctx.log << "blame: the first forward pass already excludes the violating execution: " << why << "\n";
        return FWD_EXCLUDES;
      }
      try {
        check_path(ctx, br, rec, (unsigned)rec.path.size() - 1, true, mo, "", "C02");
      } catch (const Fail &f) {
        ctx.log << "blame (stand-alone first backward pass): " << f.msg << "\n";
        return f.cls;
      }
    } catch (const crab_error &) {
    }
    return "";
  };

  unsigned n_claims = 0, n_reached = 0, n_violated = 0;
  bool refined = params.get_use_refined_invariants() && params.is_enabled_backward();
  for (auto &kv : verdict) {
    bool r = reached.count(kv.first) > 0, v = violated.count(kv.first) > 0;
    if (r)
      n_reached++;
    if (v)
      n_violated++;
    if (kv.second == crab::checker::check_kind::CRAB_SAFE) {
      n_claims++;
      if (v && ctx.want("C02")) {
        // tag: the backward transfer function to blame when it can be localised, else the route of the verdict
        std::string tag = by_backward.count(kv.first) ? "fwdbwd_discharged_by_backward_but_violated" : (refined ? "fwdbwd_refined_invariant_safe_but_violated" : "fwdbwd_invariant_safe_but_violated");
        std::string culprit = blame(kv.first);
        if (!culprit.empty())
          tag = "fwdbwd_safe_but_violated_" + culprit;
        VCHECK(ctx, "C02", false, tag, "assertion id=" << kv.first << " classified SAFE by the forward+backward analysis but a concrete execution violates it");
      }
      VCHECK(ctx, "C02", true, "", "");
    } else if (kv.second == crab::checker::check_kind::CRAB_UNREACH) {
      n_claims++;
      if (refined) {
        // the stored invariants are intersected with error co-reachability: bottom means
        // "cannot lead to an error", so the verdict is only held to the SAFE standard
        if (v && ctx.want("C02")) {
          std::string tag = "fwdbwd_refined_unreachable_but_violated";
          std::string culprit = blame(kv.first);
          if (!culprit.empty())
            tag = "fwdbwd_safe_but_violated_" + culprit;
          VCHECK(ctx, "C02", false, tag, "assertion id=" << kv.first << " classified UNREACHABLE (refined invariants) but a concrete execution violates it");
        }
        VCHECK(ctx, "C02", true, "", "");
      } else
        VCHECK(ctx, "C02", !r, "fwdbwd_unreachable_but_reached", "assertion id=" << kv.first << " classified UNREACHABLE but a concrete execution reaches it");
    }
  }
  ctx.log << "executions=" << nexec << " assertions=" << verdict.size() << " safe/unreach claims=" << n_claims << " reached=" << n_reached
          << " violated=" << n_violated << " discharged_by_backward=" << by_backward.size() << "\n";
  if (n_violated)
    R().cls("program_with_violated_assertion");
  if (n_claims)
    R().cls("program_with_safe_or_unreach_claim");
  if (ctx.selected_prop == "C05")
    ctx.nontrivial = prog.n_loops > 0 && analysis_steps > 0;
  else
    ctx.nontrivial = n_claims > 0 && n_reached > 0;
}
} // namespace verif
