// h_histv-<domain>: as h_histg, but the type-erased wrapper is abstract_domain<var> (the
// value wrapper that clones on copy) instead of abstract_domain_ref<var> (copy-on-write).
#define VERIF_GENERIC 1
#define VERIF_GENERIC_VALUE 1
#include "h_hist.cpp"
