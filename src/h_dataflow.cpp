// h_dataflow: property C18 -- liveness and assertion-crawler facts
// over-approximate real dependences.
//
// Liveness (live_and_dead_analysis::get(b) = live-OUT of b, dead_exit(b)):
//   run an execution to the end of block b; for every variable v NOT in
//   get(b) fork: give v another value and continue both runs with the same
//   remaining choice tape.  Block path, observable trace (conditions and
//   assertion outcomes), the way the execution ends and the function outputs
//   at the exit must be equal.
// Assertion crawler (assertion_crawler::get_results(b), facts at the ENTRY of b):
//   (i)  every assertion syntactically reachable from the entry of b (own
//        graph search; nothing is reachable through an `unreachable`
//        statement) is listed for b;
//   (ii) perturb v at the entry of b; if the perturbed run follows the same
//        block path up to an evaluation of assertion a and the values of the
//        variables of a's condition differ there, v must be in the set listed
//        for a at b (data dependence).  Path divergence (control dependence)
//        is only counted.
#include "core/report.hpp"
#include "core/tape.hpp"
#include "prog/fgen.hpp"
#include "prog/step.hpp"

#include <crab/analysis/dataflow/assertion_crawler.hpp>
#include <crab/analysis/dataflow/liveness.hpp>
#include <crab/analysis/graphs/topo_order.hpp>
#include <crab/domains/abstract_domain_params.hpp>

using namespace verif;
using namespace vp;

namespace verif {
const char *harness_name() { return "h_dataflow"; }
// triage aid: VERIF_CRABLOG=tag1,tag2 enables crab's own CRAB_LOG output
void harness_init() {
  if (const char *e = getenv("VERIF_CRABLOG")) {
    std::string cur;
    for (const char *c = e;; c++) {
      if (*c == ',' || *c == 0) {
        if (!cur.empty())
          crab::CrabEnableLog(cur);
        cur.clear();
        if (*c == 0)
          break;
      } else
        cur += *c;
    }
  }
}
} // namespace verif

using live_t = crab::analyzer::live_and_dead_analysis<cfg_ref_t>;
using varset_t = typename live_t::varset_domain_t;
using crawler_t = crab::analyzer::assertion_crawler<cfg_ref_t>;
using assert_map_t = typename crawler_t::assert_map_t;
using summary_map_t = typename crawler_t::summary_map_t;
using amd_t = typename crawler_t::assert_map_domain_t;

static bool contains(varset_t s, const var_t &v) { return s.contain(v); }

static std::string path_str(const std::vector<label_t> &p, size_t from = 0) {
  std::string s;
  for (size_t i = from; i < p.size(); i++)
    s += p[i] + " ";
  return s;
}
static std::string trace_str(const std::vector<CondEv> &tr, size_t from = 0) {
  std::string s;
  for (size_t i = from; i < tr.size(); i++)
    s += std::string(tr[i].is_assert ? "assert" : "assume") + "(" + *tr[i].text + ")=" + (tr[i].outcome ? "T" : "F") + "; ";
  return s;
}
static bool is_limit(Stop s) { return s == Stop::Outside || s == Stop::StepLimit; }

static std::string outputs_str(const std::vector<var_t> &outs, const State &s) {
  State o;
  for (auto &v : outs) {
    if (v.get_type().is_array()) {
      auto f = s.arr.find(v);
      if (f != s.arr.end())
        o.arr[v] = f->second;
    } else {
      auto f = s.num.find(v);
      if (f != s.num.end())
        o.num[v] = f->second;
    }
  }
  return o.str();
}

// gives v another value; returns false when there is nothing to perturb
static bool perturb(Tape &t, State &s, const var_t &v, std::string &how) {
  if (v.get_type().is_array()) {
    auto f = s.arr.find(v);
    if (f == s.arr.end() || f->second.empty())
      return false;
    unsigned k = t.pick((unsigned)f->second.size());
    auto it = f->second.begin();
    std::advance(it, k);
    int64_t d = t.small_int(3);
    if (d == 0)
      d = 1;
    it->second = it->second + z_number(d);
    how = to_str(v) + "[" + it->first.get_str() + "]:=" + it->second.get_str();
    return true;
  }
  auto f = s.num.find(v);
  if (f == s.num.end())
    return false;
  if (v.get_type().is_bool())
    f->second = f->second == 0 ? z_number(1) : z_number(0);
  else {
    int64_t d = t.small_int(5);
    if (d == 0)
      d = 1;
    f->second = f->second + z_number(d);
  }
  how = to_str(v) + ":=" + f->second.get_str();
  return true;
}

// Reference liveness used ONLY to name the cause of an oracle failure (narrow
// classifier tags); the oracle itself is the execution-based check.  Two switches
// reproduce the two ways crab's liveness is known to deviate:
//   crab_unreach: a block containing `unreachable` anywhere has no uses at all
//   seed: the block at whose end the function outputs are made live
static std::map<label_t, std::set<var_t>> ref_liveness(const cfg_t &cfg, const std::vector<var_t> &outputs, bool crab_unreach,
                                                       const label_t &seed) {
  std::vector<label_t> ls;
  for (auto it = cfg.label_begin(); it != cfg.label_end(); ++it)
    ls.push_back(*it);
  std::map<label_t, std::set<var_t>> in, out;
  bool change = true;
  while (change) {
    change = false;
    for (auto &l : ls) {
      const block_t &b = cfg.get_node(l);
      std::set<var_t> o;
      if (l == seed)
        o.insert(outputs.begin(), outputs.end());
      for (auto const &n : boost::make_iterator_range(b.next_blocks())) {
        auto &sn = in[n];
        o.insert(sn.begin(), sn.end());
      }
      // statements that can execute: those before the first `unreachable`
      std::vector<const stmt_t *> stmts;
      bool has_unreach = false;
      for (auto const &st : b) {
        if (st.is_unreachable()) {
          has_unreach = true;
          break;
        }
        stmts.push_back(&st);
      }
      std::set<var_t> i;
      if (has_unreach && crab_unreach) {
        // crab: no live variables at the entry of such a block
      } else {
        if (!has_unreach)
          i = o;
        for (auto it = stmts.rbegin(); it != stmts.rend(); ++it) {
          auto const &lv = (*it)->get_live();
          for (auto d = lv.defs_begin(); d != lv.defs_end(); ++d)
            i.erase(*d);
          for (auto u = lv.uses_begin(); u != lv.uses_end(); ++u)
            i.insert(*u);
        }
      }
      if (o != out[l]) {
        out[l] = o;
        change = true;
      }
      if (i != in[l]) {
        in[l] = i;
        change = true;
      }
    }
  }
  return out;
}

struct Snapshot {
  Runner r;
  Tape t;
};

namespace verif {
void run_case(const uint8_t *data, size_t size, CaseCtx &ctx) {
  Tape t(data, size);
  crab::CrabSanityCheckFlag = false;
  crab::CrabWarningFlag = false;
  crab::domains::crab_domain_params_man::get() = crab::domains::crab_domain_params();

  // ---- parameters (decoded first so that a long program cannot starve them) ------------
  bool only_data = !t.flag();
  unsigned nexec = 3 + t.pick(4);

  // ---- program ----------------------------------------------------------------------
  unsigned caps = CAP_ARITH | CAP_BITWISE | CAP_CAST | CAP_BOOL | CAP_SELECT | CAP_HAVOC | CAP_UNREACHABLE | CAP_ASSERT |
                  CAP_NONLINEAR | CAP_DISEQ | CAP_UNSTRUCTURED;
  if (t.pick(3) == 2)
    caps |= CAP_ARRAY;
  FuncProgram fp;
  build_function(t, fp, caps);
  cfg_t &cfg = *fp.prog.cfg;
  std::string text0 = full_text(cfg);
  ctx.log << text0 << "crawler only_data=" << only_data << "\n";
  ctx.mixs(text0);
  ctx.mix(only_data);
  type_check(cfg);
  const FuncShape &sh = fp.shape;
  R().cls(fp.prog.structured ? "shape_structured" : "shape_unstructured");
  if (fp.with_arrays) R().cls("with_arrays");
  if (sh.has_unreachable_block) R().cls("has_block_unreachable_from_entry");
  if (sh.has_deadend_block) R().cls("has_block_not_reaching_exit");
  if (sh.has_self_loop) R().cls("has_self_loop");
  if (sh.entry_in_cycle) R().cls("entry_in_cycle");
  if (sh.exit_has_succ) R().cls("exit_has_successors");
  if (sh.midblock_unreachable) R().cls("unreachable_stmt_mid_block");
  if (fp.prog.n_loops) R().cls("has_loop");
  if (fp.prog.n_asserts) R().cls("has_assertion");

  // ---- analyses ----------------------------------------------------------------------
  cfg_ref_t ref(cfg);
  live_t live(ref);
  live.exec();
  assert_map_t assert_map;
  summary_map_t summaries;
  crawler_t crawler(ref, assert_map, summaries, only_data);
  crawler.exec();
  // classifier input: liveness seeds the outputs at the first node of this order
  bool seed_at_exit = true;
  label_t seed_label = cfg.exit();
  {
    auto order = crab::analyzer::graph_algo::weak_rev_topo_sort(ref);
    if (!order.empty() && !(order[0] == cfg.exit())) {
      seed_at_exit = false;
      seed_label = order[0];
      R().cls("rev_order_first_node_is_not_exit");
    }
  }
  // names the cause of "v dead at the end of b according to crab, but it matters"
  auto cause_of = [&](const label_t &b, const var_t &v) -> std::string {
    auto has = [&](bool crab_unreach, const label_t &seed) { return ref_liveness(cfg, fp.outputs, crab_unreach, seed)[b].count(v) > 0; };
    if (!has(false, cfg.exit()))
      return "unknown_also_dead_in_reference";
    if (!has(true, cfg.exit()))
      return "uses_before_unreachable_stmt_ignored";
    if (!has(false, seed_label))
      return std::string("outputs_not_live_at_exit") + (sh.exit_has_succ ? "_exitsucc" : "");
    if (!has(true, seed_label))
      return "unreachable_stmt_and_output_seed";
    return "other";
  };
  std::vector<label_t> labels;
  for (auto it = cfg.label_begin(); it != cfg.label_end(); ++it)
    labels.push_back(*it);
  std::sort(labels.begin(), labels.end());
  std::map<label_t, varset_t> live_out, dead_out;
  for (auto &l : labels) {
    live_out.emplace(l, live.get(l));
    dead_out.emplace(l, live.dead_exit(l));
    // dead_exit is documented as (uses U defs of the block) minus live-out
    varset_t d = dead_out.at(l), lo = live_out.at(l);
    if (!d.is_top() && !lo.is_top())
      for (auto it = d.begin(); it != d.end(); ++it)
        VCHECK(ctx, "C18", !contains(lo, *it), "live_dead_exit_overlaps_live_out",
               "block " << l << ": " << to_str(*it) << " is in dead_exit and in the live-out set");
  }
  if (ctx.verbose) {
    for (auto &l : labels)
      ctx.log << "  live-out(" << l << ")=" << to_str(live_out.at(l)) << " dead_exit=" << to_str(dead_out.at(l))
              << " crawler=" << to_str(crawler.get_results(l)) << "\n";
  }

  // ---- crawler (i): reachable assertions are listed ---------------------------------------
  std::map<label_t, amd_t> facts;
  for (auto &l : labels)
    facts.emplace(l, crawler.get_results(l));
  auto lookup = [&](const label_t &b, const stmt_t *a, varset_t &vars, bool &top) -> bool {
    const amd_t &f = facts.at(b);
    top = f.is_top();
    if (top)
      return true;
    for (auto it = f.begin(); it != f.end(); ++it) {
      auto kv = *it;
      if (&(kv.first.get()) == a) {
        vars = kv.second;
        return true;
      }
    }
    return false;
  };
  unsigned n_reach_checks = 0;
  for (auto &b : labels) {
    std::set<label_t> seen;
    std::vector<label_t> wl{b};
    while (!wl.empty()) {
      label_t x = wl.back();
      wl.pop_back();
      if (!seen.insert(x).second)
        continue;
      bool falls_through = true;
      for (auto &s : cfg.get_node(x)) {
        if (s.is_unreachable()) {
          falls_through = false;
          break;
        }
        if (s.is_assert() || s.is_bool_assert()) {
          varset_t vs;
          bool top;
          n_reach_checks++;
          VCHECK(ctx, "C18", lookup(b, &s, vs, top), std::string("crawler_reachable_assertion_not_listed") + (x == b ? "_same_block" : ""),
                 "assertion `" << to_str(s) << "` in block " << x << " is reachable from the entry of " << b
                               << " but get_results(" << b << ") = " << to_str(facts.at(b)));
        }
      }
      if (falls_through)
        for (auto const &n : boost::make_iterator_range(cfg.get_node(x).next_blocks()))
          wl.push_back(n);
    }
  }

  // ---- executions -----------------------------------------------------------------------------
  TextCache tc;
  bool live_nt = false, crawl_nt = false;
  unsigned n_forks = 0, n_dead_perturbed = 0, n_entry_perturbed = 0, n_operand_changes = 0, n_divergences = 0;
  for (unsigned e = 0; e < nexec; e++) {
    State init = initial_state(t, fp);
    // base run with snapshots at every block entry (before its statements) and
    // at every block end (before the successor is chosen)
    Runner base(cfg, t, tc, cfg.entry(), init);
    base.max_blocks = 24;
    base.record_operands = true;
    std::vector<Snapshot> at_entry, at_end;
    for (;;) {
      if (base.finished)
        break;
      at_entry.push_back(Snapshot{base, t});
      bool cont = base.exec_cur();
      if (cont || base.reached_exit)
        at_end.push_back(Snapshot{base, t}); // block completed
      if (!cont)
        break;
      if (!base.pick_next())
        break;
    }
    R().cls(std::string("exec_stop_") + (base.reached_exit ? "exit" : stop_name(base.end)));
    if (base.end == Stop::Outside)
      R().trunc(base.outside_reason);
    if (ctx.verbose)
      ctx.log << "exec " << e << " from " << init.str() << ": [" << path_str(base.path) << "] -> "
              << (base.reached_exit ? "exit" : stop_name(base.end)) << "\n";

    // ---- liveness: perturb dead variables at the end of a completed block -----------------------
    if (!at_end.empty()) {
      // fork points: preferably one after which some variable that crab reports dead is
      // redefined and then used on the base path (the property's non-triviality rule), plus
      // 1-2 decoded ones
      std::vector<unsigned> rich;
      for (unsigned k = 0; k < at_end.size(); k++) {
        varset_t lo = live_out.at(base.path[k]);
        if (lo.is_top())
          continue;
        std::set<var_t> defined, hit;
        for (size_t j = k + 1; j < base.path.size() && hit.empty(); j++)
          for (auto &s : cfg.get_node(base.path[j])) {
            auto const &lv = s.get_live();
            for (auto u = lv.uses_begin(); u != lv.uses_end(); ++u)
              if (defined.count(*u) && !contains(lo, *u))
                hit.insert(*u);
            for (auto d = lv.defs_begin(); d != lv.defs_end(); ++d)
              defined.insert(*d);
          }
        if (!hit.empty())
          rich.push_back(k);
      }
      unsigned nf = 2 + t.pick(2);
      std::set<unsigned> done_forks;
      for (unsigned fi = 0; fi < nf; fi++) {
        unsigned k;
        if (fi == 0 && !rich.empty())
          k = rich[t.pick((unsigned)rich.size())];
        else
          k = t.pick((unsigned)at_end.size());
        if (!done_forks.insert(k).second)
          continue;
        const Snapshot &snap = at_end[k];
        const label_t &b = snap.r.path.back();
        varset_t lo = live_out.at(b), de = dead_out.at(b);
        if (lo.is_top())
          continue;
        n_forks++;
        for (auto &v : fp.vars) {
          if (contains(lo, v))
            continue;
          Tape t2 = snap.t;
          Runner pr(snap.r);
          pr.tape = &t2;
          std::string how;
          if (!perturb(t, pr.st, v, how))
            continue;
          n_dead_perturbed++;
          bool in_dead_exit = contains(de, v);
          // non-triviality: v is later redefined and then used
          bool redefined = false, used_after = false;
          pr.pre_stmt = [&](stmt_t &s, unsigned) {
            auto const &l = s.get_live();
            if (redefined)
              for (auto it = l.uses_begin(); it != l.uses_end(); ++it)
                if (*it == v)
                  used_after = true;
            for (auto it = l.defs_begin(); it != l.defs_end(); ++it)
              if (*it == v)
                redefined = true;
          };
          if (!pr.finished) {
            if (pr.pick_next())
              pr.run();
          }
          if (used_after) {
            live_nt = true;
          }
          // compare the continuation with the base run
          bool limited = is_limit(base.end) || is_limit(pr.end);
          size_t np = std::min(base.path.size(), pr.path.size());
          size_t nt = std::min(base.trace.size(), pr.trace.size());
          // first difference
          std::string what;
          size_t pd = 0;
          while (pd < np && base.path[pd] == pr.path[pd])
            pd++;
          size_t td = 0;
          while (td < nt && base.trace[td].stmt == pr.trace[td].stmt && base.trace[td].outcome == pr.trace[td].outcome)
            td++;
          bool differs = false;
          if (td < nt) {
            differs = true;
            const CondEv &ev = base.trace[td];
            const label_t &blk = base.path[ev.path_idx];
            if (pd < np && pd <= ev.path_idx) { // the paths split before this event
              what = "the block paths split after " + base.path[pd - 1] + " (" + base.path[pd] + " vs " + pr.path[pd] + ")";
            } else {
              what = std::string(ev.is_assert ? "assertion" : "assume") + " `" + *ev.text + "` in block " + blk + " evaluates to " +
                     (ev.outcome ? "true" : "false") + " vs " + (pr.trace[td].outcome ? "true" : "false");
            }
          } else if (pd < np) {
            differs = true;
            what = "the block paths split after " + base.path[pd - 1] + " (" + base.path[pd] + " vs " + pr.path[pd] + ")";
          } else if (!limited && (base.trace.size() != pr.trace.size() || base.path.size() != pr.path.size() || base.end != pr.end)) {
            differs = true;
            what = std::string("one run ends earlier (") + stop_name(base.end) + " vs " + stop_name(pr.end) + ")";
          } else if (!limited && base.reached_exit && pr.reached_exit && outputs_str(fp.outputs, base.st) != outputs_str(fp.outputs, pr.st)) {
            differs = true;
            what = "the function outputs at the exit differ: " + outputs_str(fp.outputs, base.st) + " vs " + outputs_str(fp.outputs, pr.st);
          }
          // the classifier tag names the CAUSE: which known deviation of crab's liveness (if any)
          // explains that v is reported dead, see cause_of()
          VCHECK(ctx, "C18", !differs, "live_dead_var_changes_execution_cause_" + (differs ? cause_of(b, v) : std::string()),
                 to_str(v) << " is not in the live-out set of " << b << " (" << to_str(lo) << (in_dead_exit ? "; it is in dead_exit" : "")
                           << ") but after the execution [" << path_str(snap.r.path) << "] from " << init.str() << " setting " << how << " at the end of "
                           << b << " changes the rest of the execution: " << what << "; base continues [" << path_str(base.path, snap.r.path.size())
                           << "] {" << trace_str(base.trace, snap.r.trace.size()) << "} perturbed [" << path_str(pr.path, snap.r.path.size()) << "] {"
                           << trace_str(pr.trace, snap.r.trace.size()) << "}");
        }
      }
    }

    // ---- crawler (ii): perturb a variable at the entry of a block ------------------------------------
    std::set<unsigned> done_entries;
    for (unsigned pi = 0; pi < 2 && !at_entry.empty() && fp.prog.n_asserts > 0; pi++) {
      // perturbation points: the entry of the first block (largest distance to the assertions) and a decoded one
      unsigned k = pi == 0 ? 0 : t.pick((unsigned)at_entry.size());
      if (!done_entries.insert(k).second)
        continue;
      const Snapshot &snap = at_entry[k];
      const label_t &b = snap.r.cur;
      size_t t0 = snap.r.trace.size(); // events from here on are evaluated at or after the entry of b
      // only worth it when the base run evaluates an assertion later
      bool later_assert = false;
      for (size_t i = t0; i < base.trace.size(); i++)
        if (base.trace[i].is_assert)
          later_assert = true;
      if (later_assert) {
        for (auto &v : fp.vars) {
          Tape t2 = snap.t;
          Runner pr(snap.r);
          pr.tape = &t2;
          std::string how;
          if (!perturb(t, pr.st, v, how))
            continue;
          n_entry_perturbed++;
          // v need not be dead: the perturbed run must not draw its own choices (a different
          // look-ahead would misalign the tape); it replays the path and havoc values of the base run
          pr.follow_path = &base.path;
          pr.follow_havoc = &base.havoc_seq;
          pr.run();
          size_t nt = std::min(base.trace.size(), pr.trace.size());
          for (size_t i = t0; i < nt; i++) {
            const CondEv &eb = base.trace[i], &ep = pr.trace[i];
            // same block path up to this evaluation?
            bool same = eb.stmt == ep.stmt && eb.path_idx == ep.path_idx;
            for (size_t j = snap.r.path.size(); same && j <= eb.path_idx; j++)
              if (j >= pr.path.size() || base.path[j] != pr.path[j])
                same = false;
            if (!same) {
              n_divergences++;
              break;
            }
            if (eb.is_assert && eb.operands != ep.operands) {
              n_operand_changes++;
              varset_t vs;
              bool top = false;
              bool listed = lookup(b, eb.stmt, vs, top);
              VCHECK(ctx, "C18", listed, "crawler_evaluated_assertion_not_listed",
                     "assertion `" << to_str(*eb.stmt) << "` is evaluated on an execution through " << b << " but get_results(" << b
                                   << ") = " << to_str(facts.at(b)));
              bool ok = top || contains(vs, v);
              // non-triviality: >= 2 blocks away and the dependence goes through an assignment
              bool through_assignment = false;
              for (size_t q = 0; q < eb.operands.size(); q++)
                if (eb.operands[q].second != ep.operands[q].second && !(eb.operands[q].first == v))
                  through_assignment = true;
              if (ok && through_assignment && eb.path_idx >= k + 2)
                crawl_nt = true;
              const block_t *ab = eb.stmt->get_parent();
              VCHECK(ctx, "C18", ok, std::string("crawler_data_dependence_missing") + (only_data ? "_onlydata" : "_datacontrol") +
                         (eb.array_stmts_before > snap.r.n_array_stmts ? "_after_array_stmt" : ""),
                     "setting " << how << " at the entry of " << b << " (execution [" << path_str(base.path) << "] from " << init.str()
                                << ") changes the operands of assertion `" << to_str(*eb.stmt) << "` in block " << (ab ? ab->label() : label_t("?"))
                                << " from {" << operands_str(eb.operands) << "} to {" << operands_str(ep.operands) << "} on the same block path, but "
                                << to_str(v) << " is not in the set " << to_str(vs) << " listed for it at " << b);
            }
            if (eb.outcome != ep.outcome) {
              n_divergences++; // control dependence: the runs end / split here (counted, not judged)
              break;
            }
          }
        }
      }
    }
  }
  if (n_dead_perturbed) R().cls("case_with_dead_var_perturbation");
  if (n_operand_changes) R().cls("case_with_assert_operand_change");
  if (live_nt) R().cls("liveness_nontrivial");
  if (crawl_nt) R().cls("crawler_nontrivial");
  R().cls("dead_var_perturbations", n_dead_perturbed);
  R().cls("entry_perturbations", n_entry_perturbed);
  R().cls("assert_operand_changes", n_operand_changes);
  R().cls("perturbed_run_path_divergences", n_divergences);
  ctx.log << "executions=" << nexec << " forks=" << n_forks << " dead-var perturbations=" << n_dead_perturbed
          << " entry perturbations=" << n_entry_perturbed << " assertion operand changes=" << n_operand_changes
          << " path divergences=" << n_divergences << " reachability checks=" << n_reach_checks << "\n";
  ctx.nontrivial = live_nt || crawl_nt;
}
} // namespace verif
