// C06 -- the fixpoint engine computes the least solution when nothing is
// extrapolated.
//
// Part 1 (tape byte 0, 3 cases out of 4). A client subclass of
//   ikos::interleaved_fwd_fixpoint_iterator<cfg_ref_t, StateSet>
// where StateSet is a 64-bit set over the finite state space Z_m^k (m <= 4,
// k <= 3), join = widening = union, meet = narrowing = intersection, and
// analyze() is the exact image of the set under a per-block sequence of
// finite-semantics statements interpreted by the harness (the crab blocks
// carry no statements). Digraphs are decoded as in h_wto.cpp (1..10 blocks,
// self loops, nested / irreducible loops, unreachable blocks, entry that is a
// loop head). Start block = cfg entry or any block with empty WTO nesting;
// assumption maps on 0..3 blocks; delays 0..5, descending iterations 0..3.
// Oracle: get_pre/get_post == least solution computed by naive round-robin
// iteration (harness' own adjacency lists), at every block reachable from the
// start block; bottom elsewhere.
//
// Part 2 (second sentence of the property). Structured programs with counted
// loops (bounds decoded around the delay) over the real interval domain run
// through crab::analyzer::intra_fwd_analyzer. Observation of "was widening
// ever invoked" = the CrabStats counter the interval domain bumps in
// operator|| / widening_thresholds (the build has CRAB_STATS on; the counters
// only count and only read back while crab::CrabStatsFlag is set, so the flag
// is switched on around the run and the counters are read before it is
// switched off again). Reference: the harness' own join-only iteration (recursive
// strategy over the WTO, counting per visit of a head how many times the
// stability test failed) and an independent round-robin Kleene iteration with
// join only. If at every visit of every head the join-only iteration needs at
// most widening_delay extrapolation steps: no widening call may have happened
// and pre/post must equal (mutual <=) the join-only least fixpoint.
#include "core/hooks.hpp"
#include "core/report.hpp"
#include "core/tape.hpp"
#include "prog/lang.hpp"

#include <crab/analysis/abs_transformer.hpp>
#include <crab/analysis/fwd_analyzer.hpp>
#include <crab/cfg/cfg_bgl.hpp>
#include <crab/domains/abstract_domain_params.hpp>
#include <crab/domains/intervals.hpp>
#include <crab/fixpoint/fixpoint_params.hpp>
#include <crab/fixpoint/interleaved_fixpoint_iterator.hpp>
#include <crab/fixpoint/wto.hpp>
#include <crab/support/stats.hpp>

#include <algorithm>
#include <map>
#include <memory>
#include <string>
#include <vector>

using namespace verif;
using namespace vp;

namespace verif {
const char *harness_name() { return "h_fixpo_exact"; }
} // namespace verif

static const char *P = "C06";
static const int MAXN = 10;

// ===========================================================================
// The client value type: a set of states of Z_m^k as a 64-bit mask.
// ===========================================================================
struct OpCount {
  unsigned join = 0, meet = 0, widen = 0, widen_thr = 0, narrow = 0, leq = 0;
};
static OpCount g_ops;

class StateSet {
  uint64_t m_bits = 0, m_full = 0;

public:
  StateSet(uint64_t bits, uint64_t full) : m_bits(bits & full), m_full(full) {}
  StateSet(const StateSet &) = default;
  StateSet(StateSet &&) = default;
  StateSet &operator=(const StateSet &) = default;
  StateSet &operator=(StateSet &&) = default;

  uint64_t bits() const { return m_bits; }
  uint64_t full() const { return m_full; }
  StateSet make_top() const { return StateSet(m_full, m_full); }
  StateSet make_bottom() const { return StateSet(0, m_full); }
  void set_to_top() { m_bits = m_full; }
  void set_to_bottom() { m_bits = 0; }
  bool is_bottom() const { return m_bits == 0; }
  bool is_top() const { return m_bits == m_full; }
  bool operator<=(const StateSet &o) const {
    g_ops.leq++;
    return (m_bits & ~o.m_bits) == 0;
  }
  StateSet operator|(const StateSet &o) const {
    g_ops.join++;
    return StateSet(m_bits | o.m_bits, m_full);
  }
  void operator|=(const StateSet &o) {
    g_ops.join++;
    m_bits |= o.m_bits;
  }
  StateSet operator&(const StateSet &o) const {
    g_ops.meet++;
    return StateSet(m_bits & o.m_bits, m_full);
  }
  // widening is join: the value type has finite height
  StateSet operator||(const StateSet &o) const {
    g_ops.widen++;
    return StateSet(m_bits | o.m_bits, m_full);
  }
  StateSet widening_thresholds(const StateSet &o, const crab::thresholds<z_number> &) const {
    g_ops.widen_thr++;
    return StateSet(m_bits | o.m_bits, m_full);
  }
  // narrowing is meet
  StateSet operator&&(const StateSet &o) const {
    g_ops.narrow++;
    return StateSet(m_bits & o.m_bits, m_full);
  }
  void write(crab::crab_os &o) const {
    o << "{";
    bool first = true;
    for (int i = 0; i < 64; i++)
      if ((m_bits >> i) & 1) {
        if (!first)
          o << ",";
        first = false;
        o << i;
      }
    o << "}";
  }
};
inline crab::crab_os &operator<<(crab::crab_os &o, const StateSet &s) {
  s.write(o);
  return o;
}

// ===========================================================================
// finite-semantics statements
// ===========================================================================
enum SKind { S_SKIP = 0, S_CONST, S_ADD, S_ASSUME_EQ, S_ASSUME_NE, S_ASSUME_LT, S_HAVOC, S_NKINDS };
struct FStmt {
  int kind = S_SKIP, x = 0, y = 0, c = 0;
};
struct Space {
  int m = 2, k = 1, nstates = 2;
  uint64_t full = 3;
  int pw[4] = {1, 2, 4, 8};
  int get(int st, int i) const { return (st / pw[i]) % m; }
  int set(int st, int i, int v) const { return st + (v - get(st, i)) * pw[i]; }
};
static uint64_t image1(const Space &sp, const FStmt &s, uint64_t in) {
  uint64_t out = 0;
  for (int st = 0; st < sp.nstates; st++) {
    if (!((in >> st) & 1))
      continue;
    switch (s.kind) {
    case S_CONST: out |= 1ull << sp.set(st, s.x, s.c); break;
    case S_ADD: out |= 1ull << sp.set(st, s.x, (sp.get(st, s.y) + s.c) % sp.m); break;
    case S_ASSUME_EQ:
      if (sp.get(st, s.x) == s.c)
        out |= 1ull << st;
      break;
    case S_ASSUME_NE:
      if (sp.get(st, s.x) != s.c)
        out |= 1ull << st;
      break;
    case S_ASSUME_LT:
      if (sp.get(st, s.x) < s.c)
        out |= 1ull << st;
      break;
    case S_HAVOC:
      for (int v = 0; v < sp.m; v++)
        out |= 1ull << sp.set(st, s.x, v);
      break;
    default: out |= 1ull << st; break;
    }
  }
  return out;
}
static uint64_t image(const Space &sp, const std::vector<FStmt> &ss, uint64_t in) {
  for (auto &s : ss)
    in = image1(sp, s, in);
  return in;
}
static std::string stmt_str(const Space &sp, const FStmt &s) {
  std::ostringstream o;
  switch (s.kind) {
  case S_CONST: o << "x" << s.x << ":=" << s.c; break;
  case S_ADD: o << "x" << s.x << ":=(x" << s.y << "+" << s.c << ")%" << sp.m; break;
  case S_ASSUME_EQ: o << "assume x" << s.x << "==" << s.c; break;
  case S_ASSUME_NE: o << "assume x" << s.x << "!=" << s.c; break;
  case S_ASSUME_LT: o << "assume x" << s.x << "<" << s.c; break;
  case S_HAVOC: o << "havoc x" << s.x; break;
  default: o << "skip"; break;
  }
  return o.str();
}
static std::string set_str(uint64_t b) {
  std::ostringstream o;
  o << "{";
  bool first = true;
  for (int i = 0; i < 64; i++)
    if ((b >> i) & 1) {
      o << (first ? "" : ",") << i;
      first = false;
    }
  o << "}";
  return o.str();
}

// ===========================================================================
// graph generator (same families as h_wto.cpp)
// ===========================================================================
struct GraphCase {
  int n = 1;
  int entry = 0;
  unsigned mode = 0;
  std::vector<std::pair<int, int>> edges; // insertion order, may repeat
};
struct Adj {
  int n = 0;
  std::vector<std::vector<int>> succ, pred;
  bool has(int u, int v) const { return std::find(succ[u].begin(), succ[u].end(), v) != succ[u].end(); }
};
static Adj adjacency(const GraphCase &g) {
  Adj a;
  a.n = g.n;
  a.succ.assign(g.n, {});
  a.pred.assign(g.n, {});
  for (auto &e : g.edges)
    if (!a.has(e.first, e.second)) {
      a.succ[e.first].push_back(e.second);
      a.pred[e.second].push_back(e.first);
    }
  return a;
}
static std::vector<char> reachable_from(const Adj &a, int from, bool include_self = true) {
  std::vector<char> seen(a.n, 0);
  std::vector<int> work;
  if (include_self) {
    seen[from] = 1;
    work.push_back(from);
  } else {
    for (int v : a.succ[from])
      if (!seen[v]) {
        seen[v] = 1;
        work.push_back(v);
      }
  }
  while (!work.empty()) {
    int u = work.back();
    work.pop_back();
    for (int v : a.succ[u])
      if (!seen[v]) {
        seen[v] = 1;
        work.push_back(v);
      }
  }
  return seen;
}

struct Structured {
  Tape &t;
  GraphCase &g;
  int alloc = 0;
  int fresh() {
    if (alloc < g.n)
      return alloc++;
    return (int)t.pick((unsigned)alloc);
  }
  void edge(int u, int v) { g.edges.push_back({u, v}); }
  void edge2(int u, int v1, int v2) {
    if (t.flag()) {
      edge(u, v2);
      edge(u, v1);
    } else {
      edge(u, v1);
      edge(u, v2);
    }
  }
  std::pair<int, int> region(int depth) {
    unsigned kind = (alloc + 1 >= g.n || depth > 4) ? 0 : t.pick(6);
    switch (kind) {
    case 1: {
      auto r1 = region(depth + 1), r2 = region(depth + 1);
      edge(r1.second, r2.first);
      return {r1.first, r2.second};
    }
    case 2: {
      int c = fresh();
      auto r1 = region(depth + 1), r2 = region(depth + 1);
      int j = fresh();
      edge2(c, r1.first, r2.first);
      edge(r1.second, j);
      edge(r2.second, j);
      return {c, j};
    }
    case 3:
    case 5: {
      int h = fresh();
      auto b = region(depth + 1);
      int x = fresh();
      edge2(h, b.first, x);
      edge(b.second, h);
      return {h, x};
    }
    case 4: {
      auto b = region(depth + 1);
      int c = fresh();
      edge(b.second, c);
      edge(c, b.first);
      return {b.first, c};
    }
    default: {
      int a = fresh();
      return {a, a};
    }
    }
  }
};

static GraphCase decode_graph(Tape &t) {
  GraphCase g;
  g.n = 1 + (int)t.pick(MAXN);
  g.mode = t.pick(4);
  unsigned n = (unsigned)g.n;
  bool entry_mostly_zero = false;
  switch (g.mode) {
  case 0: {
    unsigned m = t.pick(2 * n + 2);
    for (unsigned i = 0; i < m; i++) {
      int u = (int)t.pick(n), v = (int)t.pick(n);
      g.edges.push_back({u, v});
    }
    break;
  }
  case 1: {
    unsigned density = t.pick(3);
    for (unsigned u = 0; u < n; u++) {
      unsigned m1 = (t.u8() << 8) | t.u8();
      unsigned mask = m1;
      if (density == 0)
        mask = m1 & ((m1 >> 5) | (m1 << 11));
      else if (density == 2)
        mask = m1 | (m1 >> 3) | (m1 << 2);
      unsigned ord = t.u8();
      unsigned start = ord % n;
      bool down = (ord >> 7) & 1;
      for (unsigned k = 0; k < n; k++) {
        unsigned v = down ? (start + n - k) % n : (start + k) % n;
        if ((mask >> v) & 1)
          g.edges.push_back({(int)u, (int)v});
      }
    }
    break;
  }
  case 2: {
    entry_mostly_zero = true;
    Structured s{t, g};
    auto r = s.region(0);
    int last = r.second;
    while (s.alloc < g.n) {
      auto r2 = s.region(1);
      s.edge(last, r2.first);
      last = r2.second;
    }
    unsigned gotos = t.pick(4);
    for (unsigned i = 0; i < gotos; i++) {
      int u = (int)t.pick(n), v = (int)t.pick(n);
      if (t.flag())
        g.edges.insert(g.edges.begin(), {u, v});
      else
        g.edges.push_back({u, v});
    }
    break;
  }
  default: {
    entry_mostly_zero = true;
    std::vector<std::pair<int, int>> first, lastv;
    unsigned backs = t.pick(n + 1);
    for (unsigned i = 0; i < backs; i++) {
      int u = (int)t.pick(n);
      int v = (int)t.pick((unsigned)u + 1);
      (t.flag() ? first : lastv).push_back({u, v});
    }
    unsigned fwd = t.pick(4);
    for (unsigned i = 0; i < fwd; i++) {
      int u = (int)t.pick(n);
      int v = u + (int)t.pick(n - (unsigned)u);
      (t.flag() ? first : lastv).push_back({u, v});
    }
    g.edges = first;
    for (int i = 0; i + 1 < g.n; i++)
      g.edges.push_back({i, i + 1});
    g.edges.insert(g.edges.end(), lastv.begin(), lastv.end());
    break;
  }
  }
  if (t.pick(3) == 1) {
    std::vector<std::pair<int, int>> keep;
    for (auto &e : g.edges)
      if (e.first != e.second)
        keep.push_back(e);
    g.edges = keep;
  }
  if (entry_mostly_zero)
    g.entry = t.chance(64) ? (int)t.pick(n) : 0;
  else
    g.entry = (int)t.pick(n);
  return g;
}

static std::string bname(int i) { return "b" + std::to_string(i); }
static int label_idx(const std::string &s) {
  if (s.size() < 2 || s.size() > 4 || s[0] != 'b')
    return -1;
  int v = 0;
  for (size_t k = 1; k < s.size(); k++) {
    if (s[k] < '0' || s[k] > '9')
      return -1;
    v = v * 10 + (s[k] - '0');
  }
  return v;
}

// flattening of the WTO the iterator built (used for start-block admissibility,
// classification and tags only -- never for the reference solution)
struct Flatten : public ikos::wto_component_visitor<cfg_ref_t> {
  using wto_vertex_t = ikos::wto_vertex<cfg_ref_t>;
  using wto_cycle_t = ikos::wto_cycle<cfg_ref_t>;
  int n;
  std::vector<int> order, depth;
  std::vector<char> is_head, in_wto;
  int cur = 0, ncycles = 0, maxdepth = 0;
  explicit Flatten(int n_) : n(n_), depth(n_, 0), is_head(n_, 0), in_wto(n_, 0) {}
  void record(int i, bool head) {
    if (i < 0 || i >= n)
      return;
    order.push_back(i);
    in_wto[i] = 1;
    depth[i] = cur;
    if (head)
      is_head[i] = 1;
    maxdepth = std::max(maxdepth, cur + (head ? 1 : 0));
  }
  void visit(wto_vertex_t &v) override { record(label_idx(v.node()), false); }
  void visit(wto_cycle_t &c) override {
    ncycles++;
    record(label_idx(c.head()), true);
    cur++;
    for (auto it = c.begin(); it != c.end(); ++it)
      it->accept(this);
    cur--;
  }
};

// ===========================================================================
// Part 1: the client iterator
// ===========================================================================
struct P1Case {
  Space sp;
  GraphCase g;
  std::vector<std::vector<FStmt>> code;
};

class SetFixpo : public ikos::interleaved_fwd_fixpoint_iterator<cfg_ref_t, StateSet> {
  using base_t = ikos::interleaved_fwd_fixpoint_iterator<cfg_ref_t, StateSet>;
  const P1Case &m_case;

public:
  unsigned n_analyze = 0, n_proc_pre = 0, n_proc_post = 0;
  SetFixpo(cfg_ref_t cfg, StateSet fac, const crab::fixpoint_parameters &p, bool processor, const P1Case &c)
      : base_t(cfg, fac, p, processor), m_case(c) {}
  StateSet analyze(const label_t &l, StateSet &&v) override {
    n_analyze++;
    int i = label_idx(l);
    return StateSet(image(m_case.sp, m_case.code[(size_t)i], v.bits()), v.full());
  }
  void process_pre(const label_t &, StateSet) override { n_proc_pre++; }
  void process_post(const label_t &, StateSet) override { n_proc_post++; }
};

static uint64_t decode_set(Tape &t, const Space &sp) {
  // 0-bytes -> the full set (a no-op assumption); otherwise several shapes
  switch (t.pick(4)) {
  case 0: return sp.full & ~t.u64();
  case 1: { // cylinder x_i == c
    int i = (int)t.pick((unsigned)sp.k), c = (int)t.pick((unsigned)sp.m);
    uint64_t b = 0;
    for (int st = 0; st < sp.nstates; st++)
      if (sp.get(st, i) == c)
        b |= 1ull << st;
    return b;
  }
  case 2: { // cylinder x_i != c
    int i = (int)t.pick((unsigned)sp.k), c = (int)t.pick((unsigned)sp.m);
    uint64_t b = 0;
    for (int st = 0; st < sp.nstates; st++)
      if (sp.get(st, i) != c)
        b |= 1ull << st;
    return b;
  }
  default: { // sparse
    uint64_t b = t.u64() & t.u64() & sp.full;
    return b;
  }
  }
}

static void run_part1(Tape &t, CaseCtx &ctx) {
  P1Case c;
  // ---- state space -----------------------------------------------------------
  Space &sp = c.sp;
  sp.m = 2 + (int)t.pick(3);
  sp.k = 1 + (int)t.pick(3);
  sp.nstates = 1;
  for (int i = 0; i < 4; i++) {
    sp.pw[i] = sp.nstates;
    if (i < sp.k)
      sp.nstates *= sp.m;
  }
  sp.full = sp.nstates >= 64 ? ~0ull : ((1ull << sp.nstates) - 1);

  // ---- graph + code ------------------------------------------------------------
  c.g = decode_graph(t);
  GraphCase &g = c.g;
  const int n = g.n;
  c.code.assign((size_t)n, {});
  for (int b = 0; b < n; b++) {
    unsigned ns = t.pick(4);
    for (unsigned j = 0; j < ns; j++) {
      FStmt s;
      s.kind = (int)t.pick(S_NKINDS);
      s.x = (int)t.pick((unsigned)sp.k);
      s.y = (int)t.pick((unsigned)sp.k);
      s.c = (int)t.pick((unsigned)sp.m + (s.kind == S_ASSUME_LT ? 1u : 0u));
      if (s.kind == S_ADD && s.y == s.x && s.c == 0)
        s.c = 1; // x := x + 0 is a skip
      c.code[(size_t)b].push_back(s);
    }
  }
  // An edge from a block that is unreachable from the cfg entry into a loop
  // head makes the iterator call CRAB_ERROR("WTO nesting: node ... not found")
  // (the WTO only knows reachable nodes). Mostly avoided by construction; a
  // small share is kept so the rejection stays visible in rejected[].
  bool keep_unreach_edges = t.chance(24);
  {
    Adj a0 = adjacency(g);
    std::vector<char> r0 = reachable_from(a0, g.entry);
    if (!keep_unreach_edges) {
      std::vector<std::pair<int, int>> keep;
      for (auto &e : g.edges) {
        bool bad = !r0[e.first] && r0[e.second] && reachable_from(a0, e.second, false)[e.second];
        if (!bad)
          keep.push_back(e);
      }
      g.edges = keep;
    }
  }
  Adj adj = adjacency(g);
  std::vector<char> reach_entry = reachable_from(adj, g.entry);

  // ---- parameters ------------------------------------------------------------------
  crab::fixpoint_parameters fp;
  fp.get_widening_delay() = t.pick(6);
  fp.get_descending_iterations() = t.pick(4);
  fp.get_max_thresholds() = 0;
  bool processor = t.flag();

  // ---- crab cfg + iterator ---------------------------------------------------------
  cfg_t cfg(bname(g.entry));
  for (int i = 0; i < n; i++)
    cfg.insert(bname(i));
  for (auto &e : g.edges)
    cfg.get_node(bname(e.first)) >> cfg.get_node(bname(e.second));
  cfg_ref_t ref(cfg);
  StateSet fac(0, sp.full);
  SetFixpo fix(ref, fac, fp, processor, c);

  Flatten fl(n);
  fix.get_wto().accept(&fl);

  // The same iterator object is run 1..3 times (run() re-initialises its tables):
  // every run must return the least solution of ITS start block / initial value /
  // assumption map, whatever the previous runs left behind. The number of extra
  // runs comes from the tail of the tape (old tapes keep their first run).
  unsigned extra_runs = t.tail_pick(4) == 3 ? 1 + t.tail_pick(2) : 0;
  for (unsigned run_no = 0; run_no <= extra_runs; run_no++) {
  if (run_no)
    ctx.log << "---- run " << run_no + 1 << " on the same iterator object ----\n";
  // ---- start block: entry, or a block with empty WTO nesting -----------------------
  std::vector<int> admissible; // other than the entry
  for (int i = 0; i < n; i++) {
    if (i == g.entry)
      continue;
    auto nest = fix.get_wto().nesting(bname(i));
    if (nest && nest->begin() == nest->end())
      admissible.push_back(i);
  }
  int start = g.entry;
  if (!admissible.empty() && t.chance(96))
    start = admissible[t.pick((unsigned)admissible.size())];
  const bool alt = start != g.entry;
  std::vector<char> reach = reachable_from(adj, start);

  // own cycle information (reachable from the start)
  std::vector<char> on_cycle((size_t)n, 0);
  bool cycle_reachable = false;
  for (int i = 0; i < n; i++)
    if (reach[i] && reachable_from(adj, i, false)[i]) {
      on_cycle[(size_t)i] = 1;
      cycle_reachable = true;
    }

  // ---- initial value, assumptions ----------------------------------------------------
  uint64_t init = t.u64() & sp.full;
  if (init == 0)
    init = 1;
  std::map<int, uint64_t> assum;
  unsigned nass = t.pick(4);
  std::vector<int> heads;
  for (int i = 0; i < n; i++)
    if (fl.is_head[(size_t)i] && reach[i])
      heads.push_back(i);
  for (unsigned j = 0; j < nass; j++) {
    int b;
    switch (t.pick(4)) {
    case 1: b = heads.empty() ? (int)t.pick((unsigned)n) : heads[t.pick((unsigned)heads.size())]; break;
    case 2: b = start; break;
    default: b = (int)t.pick((unsigned)n); break;
    }
    assum[b] = decode_set(t, sp);
  }
  bool use_simple_api = !alt && assum.empty() && t.flag();

  bool a_head = false, a_start = false, a_other = false, a_cycle = false, a_effective = false;
  for (auto &kv : assum) {
    if (!reach[kv.first]) {
      a_other = true;
      continue;
    }
    if (fl.is_head[(size_t)kv.first])
      a_head = true;
    else if (kv.first == start)
      a_start = true;
    else
      a_other = true;
    if (on_cycle[(size_t)kv.first])
      a_cycle = true;
    if (kv.second != sp.full)
      a_effective = true;
  }
  std::string ctxtag = a_head ? "_assumption_on_loop_head" : a_start ? "_assumption_on_start" : !assum.empty() ? "_assumption_elsewhere" : "_no_assumption";
  if (alt)
    ctxtag += fl.is_head[(size_t)start] ? "_altstart_head" : "_altstart";

  // ---- pretty print + hash -------------------------------------------------------------
  ctx.log << "part1 Z_" << sp.m << "^" << sp.k << " n=" << n << " mode=" << g.mode << " entry=" << g.entry << " start=" << start
          << " delay=" << fp.get_widening_delay() << " desc=" << fp.get_descending_iterations() << " api=" << (use_simple_api ? "run(init)" : "run(entry,init,assumptions)")
          << " processor=" << processor << "\n";
  for (int b = 0; b < n; b++) {
    ctx.log << " b" << b << " ->";
    for (int v : adj.succ[b])
      ctx.log << " " << v;
    ctx.log << " :";
    for (auto &s : c.code[(size_t)b])
      ctx.log << " " << stmt_str(sp, s) << ";";
    ctx.log << "\n";
  }
  ctx.log << "init=" << set_str(init);
  for (auto &kv : assum)
    ctx.log << " assume[b" << kv.first << "]=" << set_str(kv.second);
  {
    crab::crab_string_os os;
    os << fix.get_wto();
    ctx.log << "\nwto: " << os.str() << "\n";
  }
  ctx.mix((uint64_t)n * 1000003 + (uint64_t)g.entry * 101 + (uint64_t)start * 7 + (uint64_t)sp.m * 3 + (uint64_t)sp.k);
  for (int u = 0; u < n; u++) {
    for (int v : adj.succ[u])
      ctx.mix((uint64_t)u * 16 + (uint64_t)v + 1000);
    for (auto &s : c.code[(size_t)u])
      ctx.mix(((uint64_t)s.kind << 12) | ((uint64_t)s.x << 8) | ((uint64_t)s.y << 4) | (uint64_t)s.c);
  }
  ctx.mix(init);
  for (auto &kv : assum)
    ctx.mix(kv.second * 31 + (uint64_t)kv.first);
  ctx.mix(fp.get_widening_delay() * 8 + fp.get_descending_iterations());

  // ---- run the engine -----------------------------------------------------------------------
  g_ops = OpCount();
  try {
    if (use_simple_api)
      fix.run(StateSet(init, sp.full));
    else {
      SetFixpo::assumption_map_t am;
      for (auto &kv : assum)
        am.insert({bname(kv.first), StateSet(kv.second, sp.full)});
      fix.run(bname(start), StateSet(init, sp.full), am);
    }
  } catch (const verif::crab_error &e) {
    // the CFG, start block and assumption map are valid inputs: the engine must return a solution
    VCHECK(ctx, P, false, "fixpo_run_raised_crab_error" + ctxtag, "run() raised CRAB_ERROR on a valid input: " << e.what());
    throw;
  }

  // ---- reference least solution (naive round robin) -----------------------------------------
  auto solve = [&](bool drop_head_assumptions, std::vector<uint64_t> &pre, std::vector<uint64_t> &post) {
    pre.assign((size_t)n, 0);
    post.assign((size_t)n, 0);
    unsigned rounds = 0;
    for (bool changed = true; changed;) {
      changed = false;
      rounds++;
      for (int b = 0; b < n; b++) {
        uint64_t p = (b == start) ? init : 0;
        for (int q : adj.pred[b])
          p |= post[(size_t)q];
        auto it = assum.find(b);
        if (it != assum.end() && !(drop_head_assumptions && fl.is_head[(size_t)b]))
          p &= it->second;
        uint64_t o = image(sp, c.code[(size_t)b], p);
        if (p != pre[(size_t)b] || o != post[(size_t)b]) {
          changed = true;
          pre[(size_t)b] = p;
          post[(size_t)b] = o;
        }
      }
    }
    return rounds;
  };
  std::vector<uint64_t> rpre, rpost, xpre, xpost;
  unsigned rounds = solve(false, rpre, rpost);

  std::vector<uint64_t> ipre((size_t)n), ipost((size_t)n);
  for (int b = 0; b < n; b++) {
    ipre[(size_t)b] = fix.get_pre(bname(b)).bits();
    ipost[(size_t)b] = fix.get_post(bname(b)).bits();
  }
  ctx.log << "block: impl pre/post | least pre/post\n";
  for (int b = 0; b < n; b++)
    ctx.log << " b" << b << (reach[b] ? "" : " (unreachable from start)") << ": " << set_str(ipre[(size_t)b]) << " / " << set_str(ipost[(size_t)b]) << " | "
            << set_str(rpre[(size_t)b]) << " / " << set_str(rpost[(size_t)b]) << "\n";
  ctx.log << "ops: join=" << g_ops.join << " meet=" << g_ops.meet << " widen=" << g_ops.widen << " narrow=" << g_ops.narrow << " leq=" << g_ops.leq
          << " analyze=" << fix.n_analyze << " reference_rounds=" << rounds << "\n";

  // ---- classification ---------------------------------------------------------------------------
  R().cls("part1");
  R().cls(n == 1 ? "p1_nodes_1" : n <= 4 ? "p1_nodes_2_4" : n <= 7 ? "p1_nodes_5_7" : "p1_nodes_8_10");
  R().cls("p1_mode_" + std::to_string(g.mode));
  R().cls("p1_states_" + std::string(sp.nstates <= 4 ? "le4" : sp.nstates <= 16 ? "5_16" : sp.nstates <= 32 ? "17_32" : "33_64"));
  R().cls("p1_delay_" + std::to_string(fp.get_widening_delay()));
  R().cls("p1_desc_" + std::to_string(fp.get_descending_iterations()));
  R().cls(alt ? (fl.is_head[(size_t)start] ? "p1_start_alt_loop_head" : "p1_start_alt_vertex") : (fl.is_head[(size_t)start] ? "p1_start_entry_loop_head" : "p1_start_entry_vertex"));
  R().cls(use_simple_api ? "p1_api_run_init" : "p1_api_run_entry_init_assumptions");
  R().cls("p1_assumptions_" + std::to_string(assum.size()));
  if (a_head)
    R().cls("p1_assumption_on_loop_head");
  if (a_start)
    R().cls("p1_assumption_on_start_vertex");
  if (a_other)
    R().cls("p1_assumption_elsewhere");
  if (a_cycle)
    R().cls("p1_assumption_inside_cycle");
  if (a_effective)
    R().cls("p1_assumption_not_full");
  if (cycle_reachable)
    R().cls("p1_cycle_reachable_from_start");
  if (fl.maxdepth >= 2)
    R().cls("p1_nested_depth_ge2");
  if (fl.ncycles >= 2)
    R().cls("p1_ge2_wto_cycles");
  if (g_ops.widen)
    R().cls("p1_widening_operator_reached");
  if (g_ops.narrow || g_ops.meet > assum.size() * 4)
    R().cls("p1_refine_reached");
  {
    bool unr_entry = false, unr_start = false;
    for (int b = 0; b < n; b++) {
      if (!reach_entry[b])
        unr_entry = true;
      if (!reach[b])
        unr_start = true;
    }
    if (unr_entry)
      R().cls("p1_blocks_unreachable_from_entry");
    if (unr_start)
      R().cls("p1_blocks_unreachable_from_start");
    bool irreducible = false;
    for (int u = 0; u < n; u++)
      for (int v : adj.succ[u])
        if (fl.in_wto[(size_t)u] && fl.in_wto[(size_t)v] && !fl.is_head[(size_t)v] && fl.depth[(size_t)v] > fl.depth[(size_t)u])
          irreducible = true; // edge entering a component at a non-head node
    if (irreducible)
      R().cls("p1_irreducible");
    uint64_t allreach = 0;
    for (int b = 0; b < n; b++)
      allreach |= rpre[(size_t)b];
    if (allreach != 0 && (allreach & (allreach - 1)) != 0)
      R().cls("p1_solution_has_ge2_states");
  }
  ctx.nontrivial = ctx.nontrivial || cycle_reachable;
  if (run_no)
    R().cls("p1_rerun_same_iterator");
  if (cycle_reachable && a_cycle)
    R().cls("p1_nontrivial_with_assumption_inside_cycle");

  // ---- oracle ------------------------------------------------------------------------------------
  // known finding: assumptions are not re-applied at loop heads. When its tag is
  // switched on (VERIF_KNOWN) the class is kept under test with a weaker,
  // still sound sandwich: least solution <= result <= least solution of the
  // system in which assumptions on loop heads are dropped.
  bool relaxed = false;
  auto check = [&](bool is_pre, int b, uint64_t got, uint64_t want, uint64_t relaxed_want) {
    const char *what = is_pre ? "pre" : "post";
    std::string large = std::string("fixpo_") + what + "_too_large" + ctxtag;
    std::string small = std::string("fixpo_") + what + "_too_small" + ctxtag;
    VCHECK(ctx, P, (want & ~got) == 0, small,
           "get_" << what << "(b" << b << ") = " << set_str(got) << " lacks states " << set_str(want & ~got) << " of the least solution " << set_str(want));
    // (a too large pre at a head makes posts and downstream values too large
    // as well: one root cause, one tag -- the pre tag)
    const std::string known_tag = "fixpo_pre_too_large" + ctxtag;
    if ((got & ~want) != 0 && a_head && R().is_known(known_tag)) {
      if (!relaxed) {
        relaxed = true;
        R().excl(known_tag);
        if (!R().frozen)
          R().known[std::string(P) + " " + known_tag]++;
      }
      VCHECK(ctx, P, (got & ~relaxed_want) == 0, std::string("fixpo_") + what + "_above_solution_without_head_assumptions" + ctxtag,
             "get_" << what << "(b" << b << ") = " << set_str(got) << " has states " << set_str(got & ~relaxed_want)
                    << " outside the least solution of the system without assumptions on loop heads " << set_str(relaxed_want));
      return;
    }
    VCHECK(ctx, P, (got & ~want) == 0, large,
           "get_" << what << "(b" << b << ") = " << set_str(got) << " has states " << set_str(got & ~want) << " that are not in the least solution " << set_str(want));
  };
  if (a_head)
    solve(true, xpre, xpost);
  else {
    xpre = rpre;
    xpost = rpost;
  }
  for (int b = 0; b < n; b++)
    if (reach[b])
      check(true, b, ipre[(size_t)b], rpre[(size_t)b], xpre[(size_t)b]);
  for (int b = 0; b < n; b++)
    if (reach[b])
      check(false, b, ipost[(size_t)b], rpost[(size_t)b], xpost[(size_t)b]);
  // blocks not reachable from the start: initialize_invariant_tables() sets
  // bottom for every label; blocks before the start in WTO order are skipped,
  // blocks after it only join bottom values.
  for (int b = 0; b < n; b++)
    if (!reach[b]) {
      VCHECK(ctx, P, ipre[(size_t)b] == 0, "fixpo_pre_not_bottom_at_block_unreachable_from_start" + std::string(alt ? "_altstart" : ""),
             "get_pre(b" << b << ") = " << set_str(ipre[(size_t)b]) << " but b" << b << " is not reachable from the start block b" << start);
      VCHECK(ctx, P, ipost[(size_t)b] == 0, "fixpo_post_not_bottom_at_block_unreachable_from_start" + std::string(alt ? "_altstart" : ""),
             "get_post(b" << b << ") = " << set_str(ipost[(size_t)b]) << " but b" << b << " is not reachable from the start block b" << start);
    }
  } // runs
}

// ===========================================================================
// Part 2: real interval domain, widening delay
// ===========================================================================
using dom_t = ikos::interval_domain<z_number, varname_t>;
using analyzer_t = crab::analyzer::intra_fwd_analyzer<cfg_ref_t, dom_t>;
using abs_tr_t = crab::analyzer::intra_abs_transformer<block_t, dom_t>;
using wto_t = ikos::wto<cfg_ref_t>;

struct P2Gen {
  Tape &t;
  cfg_t &cfg;
  std::vector<var_t> &vars;
  unsigned delay;
  int maxb;
  int nb = 0, nloops = 0, maxdepth = 0;
  std::vector<std::string> labels;

  std::string fresh() {
    std::string l = bname(nb++);
    cfg.insert(l);
    labels.push_back(l);
    return l;
  }
  block_t &B(const std::string &l) { return cfg.get_node(l); }
  void edge(const std::string &a, const std::string &b) { B(a) >> B(b); }
  void edge2(const std::string &u, const std::string &v1, const std::string &v2) {
    if (t.flag()) {
      edge(u, v2);
      edge(u, v1);
    } else {
      edge(u, v1);
      edge(u, v2);
    }
  }
  const var_t &var() { return vars[t.pick((unsigned)vars.size())]; }
  void stmts(const std::string &l, unsigned maxk) {
    unsigned k = t.pick(maxk + 1);
    for (unsigned i = 0; i < k; i++) {
      const var_t &x = var();
      switch (t.pick(6)) {
      case 1: B(l).add(x, x, z_number(t.small_int(2))); break;          // x := x + c
      case 2: B(l).add(x, var(), z_number(t.small_int(3))); break;      // x := y + c
      case 3: B(l).assume(cst_t(lin_t(x) <= lin_t(z_number((int64_t)t.pick(6))))); break;
      case 4: B(l).assume(cst_t(lin_t(x) >= lin_t(z_number((int64_t)t.pick(4))))); break;
      default: B(l).assign(x, lin_t(z_number((int64_t)t.pick(5)))); break; // x := c
      }
    }
  }
  int64_t bound() {
    switch (t.pick(8)) {
    case 0: return (int64_t)delay;
    case 1: return (int64_t)delay + 1;
    case 2: return delay > 0 ? (int64_t)delay - 1 : 0;
    case 3: return (int64_t)delay + 2;
    case 4: return 1;
    default: return (int64_t)t.pick(7);
    }
  }
  std::pair<std::string, std::string> region(int depth) {
    maxdepth = std::max(maxdepth, depth);
    unsigned kind = (nb + 6 > maxb || depth > 3) ? 0 : t.pick(8);
    switch (kind) {
    case 1: { // sequence
      auto r1 = region(depth), r2 = region(depth);
      edge(r1.second, r2.first);
      return {r1.first, r2.second};
    }
    case 2:
    case 3: { // c := lo; while (c < N) { body; c := c + step }
      nloops++;
      const var_t &c = var();
      int64_t N = bound();
      std::string p = fresh();
      if (t.pick(4) != 3)
        B(p).assign(c, lin_t(z_number((int64_t)t.pick(3))));
      std::string h = fresh();
      if (t.pick(4) == 3)
        stmts(h, 1);
      std::string gt = fresh();
      B(gt).assume(cst_t(lin_t(c) <= lin_t(z_number(N - 1))));
      auto body = region(depth + 1);
      std::string inc = fresh();
      B(inc).add(c, c, z_number((int64_t)(t.pick(4) == 3 ? 2 : 1)));
      std::string gf = fresh();
      B(gf).assume(cst_t(lin_t(c) >= lin_t(z_number(N))));
      edge(p, h);
      edge2(h, gt, gf);
      edge(gt, body.first);
      edge(body.second, inc);
      edge(inc, h);
      if (t.pick(4) == 1) { // break
        std::string j = fresh();
        edge(gf, j);
        edge(t.flag() ? gt : body.second, j);
        return {p, j};
      }
      return {p, gf};
    }
    case 4: { // if (*)
      std::string c = fresh();
      stmts(c, 1);
      auto r1 = region(depth + 1), r2 = region(depth + 1);
      std::string j = fresh();
      edge2(c, r1.first, r2.first);
      edge(r1.second, j);
      edge(r2.second, j);
      return {c, j};
    }
    case 5: { // c := N; while (c >= 1) { body; c := c - 1 }
      nloops++;
      const var_t &c = var();
      int64_t N = bound();
      std::string p = fresh();
      B(p).assign(c, lin_t(z_number(N)));
      std::string h = fresh();
      std::string gt = fresh();
      B(gt).assume(cst_t(lin_t(c) >= lin_t(z_number((int64_t)1))));
      auto body = region(depth + 1);
      std::string dec = fresh();
      B(dec).add(c, c, z_number((int64_t)-1));
      std::string gf = fresh();
      B(gf).assume(cst_t(lin_t(c) <= lin_t(z_number((int64_t)0))));
      edge(p, h);
      edge2(h, gt, gf);
      edge(gt, body.first);
      edge(body.second, dec);
      edge(dec, h);
      return {p, gf};
    }
    case 6: { // while (*) { body }
      nloops++;
      std::string h = fresh();
      stmts(h, 1);
      auto body = region(depth + 1);
      std::string x = fresh();
      edge2(h, body.first, x);
      edge(body.second, h);
      return {h, x};
    }
    case 7: { // c := lo; do { body; c := c + 1 } while (c < N)
      nloops++;
      const var_t &c = var();
      int64_t N = bound();
      std::string p = fresh();
      B(p).assign(c, lin_t(z_number((int64_t)t.pick(2))));
      auto body = region(depth + 1);
      std::string inc = fresh();
      B(inc).add(c, c, z_number((int64_t)1));
      std::string gt = fresh();
      B(gt).assume(cst_t(lin_t(c) <= lin_t(z_number(N - 1))));
      std::string gf = fresh();
      B(gf).assume(cst_t(lin_t(c) >= lin_t(z_number(N))));
      edge(p, body.first);
      edge(body.second, inc);
      edge2(inc, gt, gf);
      edge(gt, body.first);
      return {p, gf};
    }
    default: {
      std::string a = fresh();
      stmts(a, 2);
      return {a, a};
    }
    }
  }
};

// the harness' own join-only iteration following the recursive strategy over
// the WTO. `engine_rule`: which predecessors make up the value a head is first
// iterated with -- true: the engine's rule (nesting(pred) > nesting(head)
// excluded, which also drops predecessors sitting in a *preceding sibling*
// component), false: all predecessors outside the head's own component.
struct JoinOnlySim : public ikos::wto_component_visitor<cfg_ref_t> {
  using wto_vertex_t = ikos::wto_vertex<cfg_ref_t>;
  using wto_cycle_t = ikos::wto_cycle<cfg_ref_t>;
  cfg_t &cfg;
  wto_t &w;
  bool engine_rule;
  label_t entry;
  dom_t init, bot;
  abs_tr_t tr;
  std::map<label_t, dom_t> pre, post;
  unsigned cap, max_fail = 0, head_visits = 0;
  bool gave_up = false;

  JoinOnlySim(cfg_t &c, wto_t &w_, bool rule, dom_t init_, unsigned cap_)
      : cfg(c), w(w_), engine_rule(rule), entry(c.entry()), init(init_), bot(init_.make_bottom()), tr(init_.make_top()), cap(cap_) {}

  dom_t get(const std::map<label_t, dom_t> &m, const label_t &l) const {
    auto it = m.find(l);
    return it == m.end() ? bot : it->second;
  }
  dom_t transfer(const label_t &l, dom_t v) {
    tr.set_abs_value(std::move(v));
    for (auto &s : cfg.get_node(l))
      s.accept(&tr);
    return tr.get_abs_value();
  }
  void put(std::map<label_t, dom_t> &m, const label_t &l, const dom_t &v) {
    auto r = m.insert({l, v});
    if (!r.second)
      r.first->second = v;
  }
  bool strictly_inside(const label_t &n, const label_t &head) {
    auto nest = w.nesting(n);
    if (!nest)
      return false;
    for (auto it = nest->begin(); it != nest->end(); ++it)
      if (*it == head)
        return true;
    return false;
  }
  void visit(wto_vertex_t &v) override {
    if (gave_up)
      return;
    label_t n = v.node();
    dom_t p = (n == entry) ? init : bot;
    for (auto q : cfg.prev_nodes(n))
      p |= get(post, q);
    put(pre, n, p);
    put(post, n, transfer(n, p));
  }
  void visit(wto_cycle_t &c) override {
    if (gave_up)
      return;
    head_visits++;
    label_t h = c.head();
    auto nest_h = w.nesting(h);
    dom_t p = (h == entry) ? init : bot;
    if (h != entry)
      for (auto q : cfg.prev_nodes(h)) {
        bool use;
        if (engine_rule) {
          auto nq = w.nesting(q);
          use = nq && nest_h && !(*nq > *nest_h);
        } else
          use = !(q == h) && !strictly_inside(q, h);
        if (use)
          p |= get(post, q);
      }
    unsigned fails = 0;
    for (;;) {
      put(pre, h, p);
      put(post, h, transfer(h, p));
      for (auto it = c.begin(); it != c.end(); ++it) {
        it->accept(this);
        if (gave_up)
          return;
      }
      dom_t np = (h == entry) ? init : bot;
      for (auto q : cfg.prev_nodes(h))
        np |= get(post, q);
      if (np <= p) {
        put(pre, h, np);
        break;
      }
      fails++; // the engine calls extrapolate(h, fails, ...) here
      max_fail = std::max(max_fail, fails);
      if (fails > cap) {
        gave_up = true;
        return;
      }
      p = p | np;
    }
  }
};

static bool dom_eq(const dom_t &a, const dom_t &b) { return (a <= b) && (b <= a); }

static void run_part2(Tape &t, CaseCtx &ctx) {
  crab::CrabSanityCheckFlag = false;
  crab::CrabWarningFlag = false;
  crab::domains::crab_domain_params_man::get() = crab::domains::crab_domain_params();

  crab::fixpoint_parameters fp;
  fp.get_widening_delay() = t.pick(6);
  fp.get_descending_iterations() = t.pick(4);
  fp.get_max_thresholds() = 0;
  const unsigned delay = fp.get_widening_delay();
  bool simple_api = t.flag();

  variable_factory_t vfac;
  unsigned nv = 1 + t.pick(3);
  std::vector<var_t> vars;
  for (unsigned i = 0; i < nv; i++)
    vars.push_back(var_t(vfac["v" + std::to_string(i)], crab::INT_TYPE, 32));

  cfg_t cfg("b0");
  P2Gen gen{t, cfg, vars, delay, 8 + (int)t.pick(17)};
  {
    unsigned nreg = 1 + t.pick(3);
    auto r = gen.region(0);
    std::string last = r.second;
    for (unsigned i = 1; i < nreg; i++) {
      auto r2 = gen.region(0);
      gen.edge(last, r2.first);
      last = r2.second;
    }
    cfg.set_exit(last);
  }
  unsigned gotos = t.pick(4) == 3 ? 1 + t.pick(2) : 0;
  for (unsigned i = 0; i < gotos; i++) {
    const std::string &u = gen.labels[t.pick((unsigned)gen.labels.size())];
    const std::string &v = gen.labels[t.pick((unsigned)gen.labels.size())];
    gen.edge(u, v);
  }

  // initial value: top, or small ranges for some variables
  dom_t top;
  dom_t init = top.make_top();
  std::ostringstream init_s;
  unsigned ninit = t.pick(3);
  for (unsigned i = 0; i < ninit; i++) {
    const var_t &x = gen.var();
    int64_t lo = t.small_int(3), len = (int64_t)t.pick(4);
    init += cst_t(lin_t(x) >= lin_t(z_number(lo)));
    init += cst_t(lin_t(x) <= lin_t(z_number(lo + len)));
    init_s << " " << to_str(x) << " in [" << lo << "," << lo + len << "]";
  }

  std::string cfg_text = to_str(cfg);
  ctx.log << "part2 interval domain delay=" << delay << " desc=" << fp.get_descending_iterations() << " api=" << (simple_api ? "run(init)" : "run(entry,init,{})")
          << " init:" << (ninit ? init_s.str() : " top") << "\n"
          << cfg_text;
  ctx.mixs(cfg_text);
  ctx.mix(delay * 8 + fp.get_descending_iterations() + 77);
  ctx.mixs(init_s.str());

  // ---- the engine --------------------------------------------------------------------------
  analyzer_t a(cfg, top.make_top(), nullptr, fp);
  struct StatsOn { // counters only count while the flag is set
    StatsOn() {
      crab::CrabStats::reset();
      crab::CrabEnableStats(true);
    }
    ~StatsOn() { crab::CrabEnableStats(false); }
  };
  unsigned widen_calls, narrow_calls, extrapolations;
  {
    StatsOn on;
    if (simple_api)
      a.run(init);
    else {
      analyzer_t::assumption_map_t none;
      a.run(cfg.entry(), init, none);
    }
    // (get() returns 0 unless the flag is on)
    widen_calls = crab::CrabStats::get(top.domain_name() + ".count.widening");
    narrow_calls = crab::CrabStats::get(top.domain_name() + ".count.narrowing");
    extrapolations = crab::CrabStats::get("Fixpo.extrapolate");
  }

  {
    crab::crab_string_os os;
    os << a.get_wto();
    ctx.log << "wto: " << os.str() << "\n";
  }
  Flatten fl((int)gen.labels.size());
  a.get_wto().accept(&fl);

  // ---- the harness' own join-only iterations -------------------------------------------------
  JoinOnlySim sim_engine(cfg, a.get_wto(), true, init, delay);
  a.get_wto().accept(&sim_engine);
  JoinOnlySim sim_natural(cfg, a.get_wto(), false, init, delay);
  a.get_wto().accept(&sim_natural);
  const bool within_engine = !sim_engine.gave_up, within_natural = !sim_natural.gave_up;
  const bool within = within_engine && within_natural;

  ctx.log << "engine: widening calls=" << widen_calls << " narrowing calls=" << narrow_calls << " extrapolate calls=" << extrapolations
          << " | join-only reference: max failed stability tests per head visit=" << sim_engine.max_fail << (sim_engine.gave_up ? "+ (gave up)" : "")
          << " (natural start value: " << sim_natural.max_fail << (sim_natural.gave_up ? "+" : "") << ") head visits=" << sim_engine.head_visits << "\n";

  R().cls("part2");
  R().cls("p2_delay_" + std::to_string(delay));
  R().cls("p2_desc_" + std::to_string(fp.get_descending_iterations()));
  R().cls("p2_blocks_" + std::string(gen.nb <= 4 ? "le4" : gen.nb <= 10 ? "5_10" : gen.nb <= 20 ? "11_20" : "gt20"));
  R().cls("p2_vars_" + std::to_string(nv));
  R().cls(simple_api ? "p2_api_run_init" : "p2_api_run_entry_init_assumptions");
  if (fl.ncycles > 0)
    R().cls("p2_has_loop");
  if (fl.ncycles >= 2)
    R().cls("p2_ge2_loops");
  if (fl.maxdepth >= 2)
    R().cls("p2_nested_loops");
  if (gotos)
    R().cls("p2_with_gotos");
  if (widen_calls)
    R().cls("p2_engine_widened");
  if (narrow_calls)
    R().cls("p2_engine_narrowed");
  if (within_engine != within_natural)
    R().cls("p2_start_value_rule_changes_within_delay");
  if (fl.ncycles > 0) {
    R().cls(within ? "p2_loop_within_delay" : "p2_loop_exceeds_delay");
    if (within && sim_engine.max_fail == delay)
      R().cls("p2_loop_needs_exactly_delay_steps");
    if (within && sim_engine.max_fail == delay && delay >= 1)
      R().cls("p2_loop_needs_exactly_delay_steps_delay_ge1");
    if (within && sim_engine.max_fail >= 1)
      R().cls("p2_loop_within_delay_ge1_step");
    if (!within && widen_calls == 0)
      R().cls("p2_exceeds_delay_but_no_widening_call");
  }
  ctx.nontrivial = fl.ncycles > 0;
  if (fl.ncycles > 0 && within)
    R().cls("p2_nontrivial_oracle_applicable");

  if (!within)
    return; // the property states nothing (beyond C01/C05) for these runs

  // ---- independent join-only Kleene iteration (round robin, no WTO) ---------------------------
  std::map<label_t, dom_t> kpre, kpost;
  {
    dom_t bot = top.make_bottom();
    abs_tr_t tr(top.make_top());
    for (auto &l : gen.labels) {
      kpre.insert({l, bot});
      kpost.insert({l, bot});
    }
    unsigned rounds = 0;
    for (bool changed = true; changed;) {
      changed = false;
      if (++rounds > 400)
        throw Truncate{"p2_round_robin_reference_does_not_stabilise"};
      for (auto &l : gen.labels) {
        dom_t p = (l == cfg.entry()) ? init : bot;
        for (auto q : cfg.prev_nodes(l))
          p |= kpost.at(q);
        dom_t pc(p);
        tr.set_abs_value(std::move(pc));
        for (auto &s : cfg.get_node(l))
          s.accept(&tr);
        dom_t o = tr.get_abs_value();
        if (!dom_eq(p, kpre.at(l)) || !dom_eq(o, kpost.at(l))) {
          changed = true;
          kpre.at(l) = p;
          kpost.at(l) = o;
        }
      }
    }
  }
  // self check of the two references (harness consistency, not the property)
  for (auto &l : gen.labels)
    if (!dom_eq(sim_engine.get(sim_engine.pre, l), kpre.at(l)) || !dom_eq(sim_engine.get(sim_engine.post, l), kpost.at(l)))
      throw Truncate{"p2_selfcheck_recursive_vs_round_robin_reference_differ"};

  // ---- oracle -------------------------------------------------------------------------------------
  VCHECK(ctx, P, widen_calls == 0, "delay_widening_invoked_although_join_only_iteration_stabilises_within_delay",
         "the join-only iteration needs at most " << sim_engine.max_fail << " extrapolation steps per head visit (delay " << delay << ") but the interval widening was invoked "
                                                  << widen_calls << " times");
  for (auto &l : gen.labels) {
    dom_t gp = a.get_pre(l), gq = a.get_post(l);
    const dom_t &wp = kpre.at(l), &wq = kpost.at(l);
    VCHECK(ctx, P, wp <= gp, "delay_pre_below_join_only_fixpoint", "get_pre(" << l << ") = " << to_str(gp) << " does not contain the join-only least fixpoint " << to_str(wp));
    VCHECK(ctx, P, gp <= wp, "delay_pre_above_join_only_fixpoint",
           "get_pre(" << l << ") = " << to_str(gp) << " is larger than the join-only least fixpoint " << to_str(wp) << " (delay " << delay << ", steps needed " << sim_engine.max_fail << ")");
    VCHECK(ctx, P, wq <= gq, "delay_post_below_join_only_fixpoint", "get_post(" << l << ") = " << to_str(gq) << " does not contain the join-only least fixpoint " << to_str(wq));
    VCHECK(ctx, P, gq <= wq, "delay_post_above_join_only_fixpoint",
           "get_post(" << l << ") = " << to_str(gq) << " is larger than the join-only least fixpoint " << to_str(wq) << " (delay " << delay << ", steps needed " << sim_engine.max_fail << ")");
  }
}

namespace verif {
void run_case(const uint8_t *data, size_t size, CaseCtx &ctx) {
  Tape t(data, size);
  bool part2 = (t.u8() % 4) == 3;
  if (part2)
    run_part2(t, ctx);
  else
    run_part1(t, ctx);
}
} // namespace verif
