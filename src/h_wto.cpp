// C07 -- weak topological orderings are well formed for every graph.
//
// A directed graph (1..14 nodes, arbitrary edges, decoded successor insertion
// order, decoded entry) is built
//   (a) as a crab CFG                -> ikos::wto<cfg_ref>   (cfg_bgl.hpp)
//   (b) as the reversed view of it   -> ikos::wto<cfg_rev>   (cfg_bgl.hpp; the
//       graph type the backward analyzer instantiates the WTO with)
//   (c) as a call graph (call sites) -> ikos::wto<call_graph_ref> (cg_bgl.hpp)
// and the result is checked against a validity predicate computed from the
// harness' own adjacency lists only:
//   (1) the flattened component tree lists exactly the nodes reachable from
//       the entry, each once (a cycle head is not repeated inside its cycle);
//   (2) every edge u->v among reachable nodes has pos(u) < pos(v) or v is the
//       head of a component that contains u;
//   (3) wto.nesting(n) = heads of the components strictly enclosing n,
//       outermost first (a head is not part of its own nesting).
// Recorded only: nesting() of unreachable nodes; components without a back
// edge into their head.
#include "core/report.hpp"
#include "core/tape.hpp"

#include <crab/cfg/basic_block_traits.hpp>
#include <crab/cfg/cfg.hpp>
#include <crab/cfg/cfg_bgl.hpp>
#include <crab/cg/cg.hpp>
#include <crab/cg/cg_bgl.hpp>
#include <crab/fixpoint/wto.hpp>
#include <crab/types/varname_factory.hpp>

#include <algorithm>
#include <memory>
#include <string>
#include <vector>

using varname_t = crab::var_factory_impl::str_variable_factory::varname_t;
using cfg_t = crab::cfg::cfg<std::string, varname_t, ikos::z_number>;
using cfg_ref_t = crab::cfg::cfg_ref<cfg_t>;
using cfg_rev_t = crab::cfg::cfg_rev<cfg_ref_t>;
using bb_t = cfg_t::basic_block_t;
using var_t = cfg_t::variable_t;
using fdecl_t = cfg_t::fdecl_t;
using cg_t = crab::cg::call_graph<cfg_ref_t>;
using cg_ref_t = crab::cg::call_graph_ref<cg_t>;

namespace crab {
template <> class variable_name_traits<std::string> {
public:
  static std::string to_string(std::string varname) { return varname; }
};
template <> class basic_block_traits<bb_t> {
public:
  using bb_label_t = typename bb_t::basic_block_label_t;
  static std::string to_string(const bb_label_t &bbl) { return bbl; }
};
} // namespace crab

using namespace verif;

namespace verif {
const char *harness_name() { return "h_wto"; }
} // namespace verif

static const char *P = "C07";
static const int MAXN = 14;

// ---------------------------------------------------------------------------
// decoded case
// ---------------------------------------------------------------------------
struct GraphCase {
  int n = 1;
  int entry = 0;
  int exitn = 0; // entry of the reversed view
  unsigned mode = 0;
  std::vector<std::pair<int, int>> edges; // insertion order, may repeat
};

// adjacency lists without duplicates, in first-insertion order
struct Adj {
  int n;
  std::vector<std::vector<int>> succ;
  bool has(int u, int v) const {
    return std::find(succ[u].begin(), succ[u].end(), v) != succ[u].end();
  }
};
static Adj adjacency(const GraphCase &g, bool reversed) {
  Adj a;
  a.n = g.n;
  a.succ.assign(g.n, {});
  for (auto &e : g.edges) {
    int u = reversed ? e.second : e.first, v = reversed ? e.first : e.second;
    if (!a.has(u, v))
      a.succ[u].push_back(v);
  }
  return a;
}
static std::vector<char> reachable_from(const Adj &a, int entry) {
  std::vector<char> seen(a.n, 0);
  std::vector<int> work{entry};
  seen[entry] = 1;
  while (!work.empty()) {
    int u = work.back();
    work.pop_back();
    for (int v : a.succ[u])
      if (!seen[v]) {
        seen[v] = 1;
        work.push_back(v);
      }
  }
  return seen;
}

// ---- generators ------------------------------------------------------------
// mode 2: structured program (seq / if / while / do-while), later decorated
// with gotos. Nodes are allocated up to the budget; beyond it an existing node
// is reused (which yields an arbitrary extra edge).
struct Structured {
  Tape &t;
  GraphCase &g;
  int alloc = 0;
  int fresh() {
    if (alloc < g.n)
      return alloc++;
    return (int)t.pick((unsigned)alloc);
  }
  void edge(int u, int v) { g.edges.push_back({u, v}); }
  void edge2(int u, int v1, int v2) { // two out-edges of u, decoded order
    if (t.flag()) {
      edge(u, v2);
      edge(u, v1);
    } else {
      edge(u, v1);
      edge(u, v2);
    }
  }
  std::pair<int, int> region(int depth) {
    unsigned kind = (alloc + 1 >= g.n || depth > 4) ? 0 : t.pick(6);
    switch (kind) {
    case 1: { // sequence
      auto r1 = region(depth + 1), r2 = region(depth + 1);
      edge(r1.second, r2.first);
      return {r1.first, r2.second};
    }
    case 2: { // if-then-else
      int c = fresh();
      auto r1 = region(depth + 1), r2 = region(depth + 1);
      int j = fresh();
      edge2(c, r1.first, r2.first);
      edge(r1.second, j);
      edge(r2.second, j);
      return {c, j};
    }
    case 3:
    case 5: { // while
      int h = fresh();
      auto b = region(depth + 1);
      int x = fresh();
      edge2(h, b.first, x);
      edge(b.second, h);
      return {h, x};
    }
    case 4: { // do-while
      auto b = region(depth + 1);
      int c = fresh();
      edge(b.second, c);
      edge(c, b.first);
      return {b.first, c};
    }
    default: {
      int a = fresh();
      return {a, a};
    }
    }
  }
};

static GraphCase decode(Tape &t) {
  GraphCase g;
  g.n = 1 + (int)t.pick(MAXN);
  g.mode = t.pick(4);
  unsigned n = (unsigned)g.n;
  bool entry_mostly_zero = false;
  switch (g.mode) {
  case 0: { // plain edge list: order of the list = insertion order
    unsigned m = t.pick(2 * n + 2);
    for (unsigned i = 0; i < m; i++) {
      int u = (int)t.pick(n), v = (int)t.pick(n);
      g.edges.push_back({u, v});
    }
    break;
  }
  case 1: { // bit masks (sparse .. dense), per node a decoded successor order
    unsigned density = t.pick(3); // 0: and of two masks, 1: one mask, 2: or
    for (unsigned u = 0; u < n; u++) {
      unsigned m1 = (t.u8() << 8) | t.u8();
      unsigned mask = m1;
      if (density == 0)
        mask = m1 & ((m1 >> 5) | (m1 << 11));
      else if (density == 2)
        mask = m1 | (m1 >> 3) | (m1 << 2);
      unsigned ord = t.u8();
      unsigned start = ord % n;
      bool down = (ord >> 7) & 1;
      for (unsigned k = 0; k < n; k++) {
        unsigned v = down ? (start + n - k) % n : (start + k) % n;
        if ((mask >> v) & 1)
          g.edges.push_back({(int)u, (int)v});
      }
    }
    break;
  }
  case 2: { // structured loops + gotos
    entry_mostly_zero = true;
    Structured s{t, g};
    // chain of regions until the node budget is used
    auto r = s.region(0);
    int last = r.second;
    while (s.alloc < g.n) {
      auto r2 = s.region(1);
      s.edge(last, r2.first);
      last = r2.second;
    }
    unsigned gotos = t.pick(4);
    for (unsigned i = 0; i < gotos; i++) {
      int u = (int)t.pick(n), v = (int)t.pick(n);
      if (t.flag())
        g.edges.insert(g.edges.begin(), {u, v}); // before everything else
      else
        g.edges.push_back({u, v});
    }
    break;
  }
  default: { // chain + back edges + forward jumps (overlapping / nested cycles)
    entry_mostly_zero = true;
    std::vector<std::pair<int, int>> first, lastv;
    unsigned backs = t.pick(n + 1);
    for (unsigned i = 0; i < backs; i++) {
      int u = (int)t.pick(n);
      int v = (int)t.pick((unsigned)u + 1);
      (t.flag() ? first : lastv).push_back({u, v});
    }
    unsigned fwd = t.pick(4);
    for (unsigned i = 0; i < fwd; i++) {
      int u = (int)t.pick(n);
      int v = u + (int)t.pick(n - (unsigned)u);
      (t.flag() ? first : lastv).push_back({u, v});
    }
    g.edges = first;
    for (int i = 0; i + 1 < g.n; i++)
      g.edges.push_back({i, i + 1});
    g.edges.insert(g.edges.end(), lastv.begin(), lastv.end());
    break;
  }
  }
  if (t.pick(3) == 1) { // graphs whose cycles all have >= 2 nodes
    std::vector<std::pair<int, int>> keep;
    for (auto &e : g.edges)
      if (e.first != e.second)
        keep.push_back(e);
    g.edges = keep;
  }
  if (entry_mostly_zero)
    g.entry = t.chance(64) ? (int)t.pick(n) : 0;
  else
    g.entry = (int)t.pick(n);
  g.exitn = (int)((n - 1 - t.pick(n)) % n); // 0-byte: last node
  return g;
}

// ---------------------------------------------------------------------------
// flattening of the component tree through the visitor API
// ---------------------------------------------------------------------------
template <class G, class ToIdx>
struct Flatten : public ikos::wto_component_visitor<G> {
  using wto_vertex_t = ikos::wto_vertex<G>;
  using wto_cycle_t = ikos::wto_cycle<G>;
  ToIdx idx;
  int n;
  std::vector<int> order;               // node index per position
  std::vector<int> count;               // occurrences per node
  std::vector<std::vector<int>> strict; // heads of strictly enclosing cycles
  std::vector<char> is_head;
  std::vector<int> cur; // stack of heads currently open
  int unknown = 0;
  int head_repeated = -1; // head found again inside its own cycle
  int ncycles = 0;
  int maxdepth = 0; // max number of strictly enclosing cycles
  bool comp_in_comp = false;

  Flatten(ToIdx f, int n_) : idx(f), n(n_), count(n_, 0), strict(n_), is_head(n_, 0) {}

  void record(int i, bool head) {
    if (i < 0 || i >= n) {
      unknown++;
      return;
    }
    if (std::find(cur.begin(), cur.end(), i) != cur.end())
      head_repeated = i;
    order.push_back(i);
    count[i]++;
    strict[i] = cur;
    if (head)
      is_head[i] = 1;
    if ((int)cur.size() > maxdepth)
      maxdepth = (int)cur.size();
  }
  void visit(wto_vertex_t &v) override { record(idx(v.node()), false); }
  void visit(wto_cycle_t &c) override {
    int h = idx(c.head());
    ncycles++;
    if (!cur.empty())
      comp_in_comp = true;
    record(h, true);
    cur.push_back(h);
    for (auto it = c.begin(); it != c.end(); ++it)
      it->accept(this);
    cur.pop_back();
  }
};

static std::string lst(const std::vector<int> &v) {
  std::ostringstream os;
  os << "[";
  for (size_t i = 0; i < v.size(); i++)
    os << (i ? " " : "") << v[i];
  os << "]";
  return os.str();
}

struct Shape { // classification data taken from the primary (cfg) run
  bool has_cycle = false, depth2 = false, comp_in_comp = false, multi_back = false,
       irreducible = false, entry_is_head = false, comp_without_backedge = false;
};

// kind: "cfg", "cfg_rev", "cg". a: the harness' own adjacency for this graph.
template <class G, class ToIdx, class ToVd>
static Shape check_wto(CaseCtx &ctx, const std::string &kind, ikos::wto<G> &w, const Adj &a, int entry,
                       ToIdx idx, ToVd vd) {
  const int n = a.n;
  {
    crab::crab_string_os os;
    os << w;
    ctx.log << kind << " wto: " << os.str() << "\n";
  }
  Flatten<G, ToIdx> fl(idx, n);
  w.accept(&fl);
  std::vector<char> reach = reachable_from(a, entry);

  // (1) node multiset == reachable set
  VCHECK(ctx, P, fl.unknown == 0, kind + ":wto_lists_unknown_node", "the ordering contains a node that is not in the graph");
  VCHECK(ctx, P, fl.head_repeated < 0, kind + ":cycle_head_repeated_inside_its_cycle",
         "head " << fl.head_repeated << " occurs again inside its own component");
  for (int i = 0; i < n; i++) {
    VCHECK(ctx, P, fl.count[i] <= 1, kind + ":node_listed_more_than_once", "node " << i << " occurs " << fl.count[i] << " times");
    if (reach[i])
      VCHECK(ctx, P, fl.count[i] == 1, kind + ":reachable_node_missing", "node " << i << " is reachable from the entry but not in the ordering");
    else
      VCHECK(ctx, P, fl.count[i] == 0, kind + ":unreachable_node_listed", "node " << i << " is not reachable from the entry but is in the ordering");
  }
  std::vector<int> pos(n, -1);
  for (size_t p = 0; p < fl.order.size(); p++)
    pos[fl.order[p]] = (int)p;
  // not asserted (the property text does not state it): the entry comes first
  if (fl.order.empty() || fl.order[0] != entry)
    R().cls(kind + ":entry_is_not_first_element");

  // heads of all components containing u (own component included)
  auto comp_heads = [&](int u) {
    std::vector<int> r = fl.strict[u];
    if (fl.is_head[u])
      r.push_back(u);
    return r;
  };
  auto contains = [](const std::vector<int> &v, int x) { return std::find(v.begin(), v.end(), x) != v.end(); };

  // (2) edges
  Shape sh;
  std::vector<int> backs(n, 0);
  for (int u = 0; u < n; u++) {
    if (!reach[u])
      continue;
    std::vector<int> ch = comp_heads(u);
    for (int v : a.succ[u]) {
      bool fwd = pos[u] < pos[v];
      bool into_head = fl.is_head[v] && contains(ch, v);
      VCHECK(ctx, P, fwd || into_head, kind + ":edge_neither_forward_nor_to_enclosing_head",
             "edge " << u << "->" << v << ": pos " << pos[u] << " >= " << pos[v] << " and " << v
                     << " is not the head of a component containing " << u << " (components of " << u << ": " << lst(ch) << ")");
      if (into_head)
        backs[v]++;
      // classification: edge entering a component at a non-head node from outside
      for (int h : fl.strict[v])
        if (!contains(ch, h))
          sh.irreducible = true;
    }
  }

  // (3) nesting
  unsigned unreach_none = 0, unreach_some = 0;
  for (int i = 0; i < n; i++) {
    auto nest = w.nesting(vd(i));
    if (!reach[i]) {
      (nest ? unreach_some : unreach_none)++;
      continue;
    }
    VCHECK(ctx, P, (bool)nest, kind + ":nesting_missing_for_reachable_node", "nesting(" << i << ") is none");
    std::vector<int> got;
    for (auto it = nest->begin(), et = nest->end(); it != et; ++it)
      got.push_back(idx(*it));
    VCHECK(ctx, P, !contains(got, i), kind + ":nesting_contains_the_node_itself", "nesting(" << i << ") = " << lst(got));
    VCHECK(ctx, P, got == fl.strict[i], kind + ":nesting_differs_from_enclosing_heads",
           "nesting(" << i << ") = " << lst(got) << " but the strictly enclosing heads (outermost first) are " << lst(fl.strict[i]));
  }
  if (unreach_none)
    R().cls(kind + ":nesting_of_unreachable_node_is_none", unreach_none);
  if (unreach_some)
    R().cls(kind + ":nesting_of_unreachable_node_is_some", unreach_some);

  for (int i = 0; i < n; i++)
    if (fl.is_head[i]) {
      if (backs[i] == 0)
        sh.comp_without_backedge = true;
      if (backs[i] >= 2)
        sh.multi_back = true;
    }
  sh.has_cycle = fl.ncycles > 0;
  sh.depth2 = fl.maxdepth >= 2;
  sh.comp_in_comp = fl.comp_in_comp;
  sh.entry_is_head = fl.is_head[entry];
  if (sh.comp_without_backedge)
    R().cls(kind + ":component_without_back_edge_to_head");
  return sh;
}

// ---------------------------------------------------------------------------
static std::string bname(int i) { return "b" + std::to_string(i); }
static std::string fname(int i) { return "f" + std::to_string(i); }
static int label_idx(const std::string &s, char prefix) {
  if (s.size() < 2 || s.size() > 3 || s[0] != prefix)
    return -1;
  int v = 0;
  for (size_t k = 1; k < s.size(); k++) {
    if (s[k] < '0' || s[k] > '9')
      return -1;
    v = v * 10 + (s[k] - '0');
  }
  return v;
}

namespace verif {
void run_case(const uint8_t *data, size_t size, CaseCtx &ctx) {
  Tape t(data, size);
  GraphCase g = decode(t);
  const int n = g.n;
  Adj fwd = adjacency(g, false), bwd = adjacency(g, true);

  // call-graph vertex order (drives its successor order): stride permutation
  // followed by a few decoded transpositions
  std::vector<int> cgorder(n);
  {
    unsigned a = 1 + t.pick((unsigned)n), b = t.pick((unsigned)n);
    auto gcd = [](unsigned x, unsigned y) {
      while (y) {
        unsigned r = x % y;
        x = y;
        y = r;
      }
      return x;
    };
    while (gcd(a, (unsigned)n) != 1)
      a = a % (unsigned)n + 1;
    for (int i = 0; i < n; i++)
      cgorder[i] = (int)((a * (unsigned)i + b) % (unsigned)n);
    unsigned sw = t.pick(4);
    for (unsigned i = 0; i < sw; i++)
      std::swap(cgorder[t.pick((unsigned)n)], cgorder[t.pick((unsigned)n)]);
  }

  // ---- pretty print + hash
  ctx.log << "n=" << n << " mode=" << g.mode << " entry=" << g.entry << " rev_entry=" << g.exitn << " succ(insertion order):";
  for (int u = 0; u < n; u++) {
    ctx.log << " " << u << ":";
    for (size_t k = 0; k < fwd.succ[u].size(); k++)
      ctx.log << (k ? "," : "") << fwd.succ[u][k];
  }
  ctx.log << "\npred(insertion order):";
  for (int u = 0; u < n; u++) {
    ctx.log << " " << u << ":";
    for (size_t k = 0; k < bwd.succ[u].size(); k++)
      ctx.log << (k ? "," : "") << bwd.succ[u][k];
  }
  ctx.log << "\ncg vertex order: " << lst(cgorder) << "\n";
  ctx.mix((uint64_t)n * 131 + (uint64_t)g.entry);
  for (int u = 0; u < n; u++)
    for (int v : fwd.succ[u])
      ctx.mix((uint64_t)u * 16 + (uint64_t)v + 1000);

  // ---- (a) CFG ------------------------------------------------------------
  cfg_t cfg(bname(g.entry));
  for (int i = 0; i < n; i++)
    cfg.insert(bname(i));
  for (auto &e : g.edges)
    cfg.get_node(bname(e.first)) >> cfg.get_node(bname(e.second));
  cfg.set_exit(bname(g.exitn));
  auto bidx = [](const std::string &s) { return label_idx(s, 'b'); };
  auto bvd = [](int i) { return bname(i); };
  Shape sh;
  {
    cfg_ref_t ref(cfg);
    ikos::wto<cfg_ref_t> w(ref); // as interleaved_fwd_fixpoint_iterator does
    sh = check_wto(ctx, "cfg", w, fwd, g.entry, bidx, bvd);
    // clone() is the object the backward analyzer keeps for the same graph:
    // it must be a well-formed ordering too (equality with the original is
    // only recorded, the property does not state it)
    ikos::wto<cfg_ref_t> w2 = w.clone();
    crab::crab_string_os o1, o2;
    o1 << w;
    o2 << w2;
    if (o1.str() != o2.str())
      R().cls("cfg:clone_prints_differently");
    check_wto(ctx, "cfg_clone", w2, fwd, g.entry, bidx, bvd);
  }
  // ---- (b) reversed view (entry = the cfg's exit) ---------------------------
  {
    cfg_ref_t ref(cfg);
    cfg_rev_t rev(ref);
    ikos::wto<cfg_rev_t> w(rev);
    check_wto(ctx, "cfg_rev", w, bwd, g.exitn, bidx, bvd);
  }
  // ---- (c) call graph: one function per node, one call site per edge --------
  {
    std::vector<std::unique_ptr<cfg_t>> funs(n);
    for (int i = 0; i < n; i++) {
      funs[i].reset(new cfg_t("entry", "entry", fdecl_t(fname(i), std::vector<var_t>(), std::vector<var_t>())));
      funs[i]->insert("entry");
    }
    for (auto &e : g.edges)
      funs[e.first]->get_node("entry").callsite(fname(e.second), std::vector<var_t>(), std::vector<var_t>());
    std::vector<cfg_ref_t> refs;
    for (int k = 0; k < n; k++)
      refs.push_back(cfg_ref_t(*funs[cgorder[k]]));
    cg_t cg(refs);
    cg.type_check();
    cg_ref_t cgref(cg);
    using node_t = cg_ref_t::node_t;
    std::vector<node_t> nodes(n);
    std::vector<char> found(n, 0);
    for (auto p = cgref.nodes(); p.first != p.second; ++p.first) {
      node_t nd = *p.first;
      int i = label_idx(nd.name(), 'f');
      if (i >= 0 && i < n) {
        nodes[i] = nd;
        found[i] = 1;
      }
    }
    for (int i = 0; i < n; i++)
      if (!found[i])
        throw Truncate{"call graph lacks a node for a function"};
    auto fidx = [](const node_t &nd) { return label_idx(nd.name(), 'f'); };
    auto fvd = [&](int i) { return nodes[i]; };
    // the call graph's own edge relation must be the decoded one (otherwise the
    // WTO oracle below would be applied to a different graph)
    for (int u = 0; u < n; u++) {
      std::vector<int> got;
      for (auto p = cgref.succs(nodes[u]); p.first != p.second; ++p.first)
        got.push_back(fidx((*p.first).dest()));
      std::vector<int> want = fwd.succ[u];
      std::sort(want.begin(), want.end());
      std::vector<int> gs = got;
      std::sort(gs.begin(), gs.end());
      if (gs != want)
        throw Truncate{"call graph edges differ from call sites"};
    }
    {
      ikos::wto<cg_ref_t> w(cgref, nodes[g.entry]); // as top_down_inter_analyzer::run does
      check_wto(ctx, "cg", w, fwd, g.entry, fidx, fvd);
    }
    // one-argument form when the call graph has a unique root (call_graph::entry())
    int roots = 0, root = -1;
    for (int i = 0; i < n; i++)
      if (bwd.succ[i].empty()) {
        roots++;
        root = i;
      }
    if (roots == 1) {
      ikos::wto<cg_ref_t> w(cgref);
      check_wto(ctx, "cg_root", w, fwd, root, fidx, fvd);
      R().cls("cg_unique_root");
    }
  }

  // ---- classification --------------------------------------------------------
  std::vector<char> reach = reachable_from(fwd, g.entry);
  bool unreachable = false, self_loop = false;
  for (int i = 0; i < n; i++) {
    if (!reach[i])
      unreachable = true;
    if (reach[i] && fwd.has(i, i))
      self_loop = true;
  }
  R().cls(n == 1 ? "nodes_1" : n <= 4 ? "nodes_2_4" : n <= 8 ? "nodes_5_8" : "nodes_9_14");
  R().cls("mode_" + std::to_string(g.mode));
  if (sh.has_cycle)
    R().cls("has_cycle");
  if (sh.depth2)
    R().cls("nested_depth_ge2");
  if (sh.comp_in_comp)
    R().cls("component_inside_component");
  if (sh.multi_back)
    R().cls("head_with_ge2_back_edges");
  if (sh.irreducible)
    R().cls("irreducible");
  if (unreachable)
    R().cls("unreachable_nodes_present");
  if (self_loop)
    R().cls("self_loop");
  if (sh.entry_is_head)
    R().cls("entry_is_loop_head");
  if (sh.depth2 || sh.comp_in_comp || sh.multi_back)
    ctx.nontrivial = true;
}
} // namespace verif
