// C08 — scalar value abstractions are sound; interval arithmetic is tight.
// For every class (bound, interval<z>, interval<q>, congruence,
// interval_congruence, sign, constant, small_range, boolean_value,
// dis_interval) a pair of abstract values is decoded from the tape, an
// operation is applied and every sampled pair of concrete members with a
// DEFINED concrete result (DESIGN 2.3) must be a member of the abstract result.
// interval<z_number> + - neg * | & are additionally compared with an
// independent corner evaluation over Z u {-oo,+oo}.
// NEVER include *_impl.hpp here (ODR trap, see HARNESS_GUIDE).
//
// Classifier tags: <class>_<op>_<kind>[_<sub>] with kind in {unsound, not_tight,
// not_reflexive, bottom_not_least, top_not_greatest, wrong (bounds)} and narrow
// sub-classifiers that separate root causes: _infdivisor (divisor interval has
// an infinite bound), _negdividend / _negvalue (negative dividend / shifted
// value), _sing_by_nonsing / _nonsing_by_sing (congruence division shapes),
// _negres / _negmod (a congruence operand with a negative residue / modulus,
// which the public operators produce), _itv / _cong / _reduce (component of an
// interval_congruence that loses the value).
// Implicit preconditions adopted (weakening the oracle): shift-amount operands
// are small (|k| <= ~72; z_number shifts have "TODO: check overflow" and GMP
// aborts on huge counts); half lines are not applied to bottom; narrowing is
// only checked when the second operand is <= the first; bound division only
// with a finite non-zero divisor; -oo + +oo is never formed; a CRAB_ERROR
// raised inside an operation is counted as a diagnostic, not a violation.
#include "core/hooks.hpp"
#include "core/report.hpp"
#include "core/tape.hpp"

#include <crab/domains/boolean.hpp>
#include <crab/domains/congruence.hpp>
#include <crab/domains/constant.hpp>
#include <crab/domains/dis_interval.hpp>
#include <crab/domains/interval.hpp>
#include <crab/domains/interval_congruence.hpp>
#include <crab/domains/sign.hpp>
#include <crab/domains/small_range.hpp>
#include <crab/fixpoint/thresholds.hpp>
#include <crab/numbers/bignums.hpp>

#include <string>
#include <vector>

using namespace verif;
typedef ikos::z_number Z;
typedef ikos::q_number Q;
typedef ikos::bound<Z> zbound;
typedef ikos::interval<Z> zitv;
typedef ikos::bound<Q> qbound;
typedef ikos::interval<Q> qitv;
typedef ikos::congruence<Z> cong;
typedef crab::domains::interval_congruence<Z> icong;
typedef crab::domains::sign<Z> sgn;
typedef crab::domains::constant<Z> cst;
typedef crab::domains::small_range srange;
typedef crab::domains::boolean_value boolv;
typedef crab::domains::dis_interval<Z> disitv;

namespace verif {
const char *harness_name() { return "h_scalar"; }
} // namespace verif

static const char *P = "C08";

// ---- oracle plumbing ---------------------------------------------------------
// Like VCHECK, but a failure whose tag is listed in VERIF_KNOWN is counted and
// the case CONTINUES, so that the search goes on behind known findings.
static void known_hit(CaseCtx &ctx, const std::string &tag, const std::string &msg) {
  if (!R().frozen)
    R().known[std::string(P) + " " + tag]++;
  if ((long)ctx.log.tellp() < 1100)
    ctx.log << "KNOWN-FINDING " << tag << ": " << msg << "\n";
}
#define SCHECK(ctx, cond, tag, msgexpr)                                        \
  do {                                                                         \
    if ((ctx).want(P)) {                                                       \
      ::verif::R().checks++;                                                   \
      if (!(cond)) {                                                           \
        std::string _tag = (tag);                                              \
        std::ostringstream _os;                                                \
        _os << msgexpr;                                                        \
        if (::verif::R().is_known(_tag))                                       \
          known_hit(ctx, _tag, _os.str());                                     \
        else                                                                   \
          throw ::verif::Fail{P, _tag, _os.str()};                             \
      }                                                                        \
    }                                                                          \
  } while (0)

static std::string zs(const Z &z) { return z.get_str(); }
template <class T> static std::string show(const T &v) {
  crab::crab_string_os os;
  os << v;
  return os.str();
}
static Z pow2(unsigned k) {
  Z r(1);
  for (unsigned i = 0; i < k; i++)
    r = r * Z(2);
  return r;
}
// floor(x / p), p > 0, computed from the truncating quotient
static Z floordiv(const Z &x, const Z &p) {
  Z q = x / p;
  if (x < Z(0) && !(q * p == x))
    q = q - Z(1);
  return q;
}
static const Z &BIG40() {
  static Z v = pow2(40);
  return v;
}
static const Z &BIG70() {
  static Z v = pow2(70) + Z(1);
  return v;
}

// ---- concrete semantics (DESIGN 2.3) ----------------------------------------------
enum Op { ADD, SUB, MUL, SDIV, UDIV, SREM, UREM, AND, OR, XOR, SHL, LSHR, ASHR, NOPS };
static const char *opname[] = {"add", "sub", "mul", "sdiv", "udiv", "srem", "urem",
                               "and", "or",  "xor", "shl",  "lshr", "ashr"};
// false = no defined concrete result for this pair (outside the model)
static bool concrete(Op op, const Z &x, const Z &y, Z &out) {
  Z zero(0);
  switch (op) {
  case ADD: out = x + y; return true;
  case SUB: out = x - y; return true;
  case MUL: out = x * y; return true;
  case SDIV:
    if (y == zero) return false;
    out = x / y; // truncating
    return true;
  case SREM:
    if (y == zero) return false;
    out = x % y; // sign of dividend
    return true;
  case UDIV:
    if (x < zero || y <= zero) return false;
    out = x / y;
    return true;
  case UREM:
    if (x < zero || y <= zero) return false;
    out = x % y;
    return true;
  case AND: out = x & y; return true;
  case OR: out = x | y; return true;
  case XOR: out = x ^ y; return true;
  case SHL:
    if (y < zero || y > Z(64)) return false;
    out = x * pow2((unsigned)(int64_t)y);
    return true;
  case LSHR:
    if (x < zero || y < zero || y > Z(64)) return false;
    out = floordiv(x, pow2((unsigned)(int64_t)y));
    return true;
  case ASHR:
    if (y < zero || y > Z(64)) return false;
    out = floordiv(x, pow2((unsigned)(int64_t)y));
    return true;
  default: return false;
  }
}

// ---- value generators -----------------------------------------------------------------
static Z genz(Tape &t) {
  switch (t.pick(8)) {
  case 0: return Z(t.small_int(4));
  case 1: return Z(t.small_int(20));
  case 2: return Z(t.range(-300, 300));
  case 3: return Z(t.i64_pool());
  case 4: {
    unsigned k = (unsigned)t.range(30, 72);
    Z v = pow2(k) + Z(t.small_int(2));
    return t.flag() ? -v : v;
  }
  default: return Z(t.small_int(8));
  }
}
// shift amounts: mostly inside [0,64], sometimes just outside
static Z gen_shift(Tape &t) { return Z(t.range(0, 72) - 2 * (int64_t)t.pick(2)); }

static void pool(Tape &t, bool small, std::vector<Z> &out) {
  if (small) {
    static const int ks[] = {0, 1, 2, 3, 5, 8, 31, 32, 33, 63, 64, 65, -1};
    for (int k : ks)
      out.push_back(Z(k));
    out.push_back(Z((int64_t)t.pick(70)));
  }
  static const int vs[] = {0, 1, -1, 2, -2, 3, 7, -8};
  for (int v : vs)
    out.push_back(Z(v));
  out.push_back(BIG40());
  out.push_back(-BIG40());
  out.push_back(BIG70());
  out.push_back(-BIG70());
  out.push_back(genz(t));
  out.push_back(genz(t));
}

// filter candidates by the class's own membership test, dedupe, cap at 8
template <class C>
static std::vector<Z> members(const typename C::T &a, Tape &t, bool small) {
  std::vector<Z> cand, v;
  C::candidates(a, t, small, cand);
  for (auto &c : cand) {
    if (!C::member(a, c))
      continue;
    bool dup = false;
    for (auto &o : v)
      if (o == c)
        dup = true;
    if (!dup)
      v.push_back(c);
  }
  if (v.size() > 8) {
    std::vector<Z> w(v.begin(), v.begin() + 3);
    size_t rest = v.size() - 3, start = t.pick((unsigned)rest);
    for (size_t i = 0; i < 5; i++)
      w.push_back(v[3 + (start + i) % rest]);
    v.swap(w);
  }
  R().cls("members_sampled", v.size());
  return v;
}

// ---- extended integers: reference model for tightness ---------------------------------
struct EZ {
  int inf; // -1 = -oo, +1 = +oo, 0 = finite
  Z v;
};
static EZ ez(const zbound &b) {
  if (b.is_plus_infinity()) return EZ{1, Z(0)};
  if (b.is_minus_infinity()) return EZ{-1, Z(0)};
  return EZ{0, *b.number()};
}
static int ezcmp(const EZ &a, const EZ &b) {
  if (a.inf != b.inf) return a.inf < b.inf ? -1 : 1;
  if (a.inf) return 0;
  return a.v < b.v ? -1 : (a.v == b.v ? 0 : 1);
}
static EZ ezneg(const EZ &a) { return EZ{-a.inf, -a.v}; }
static EZ ezadd(const EZ &a, const EZ &b) { // caller: never -oo + +oo
  if (a.inf) return a;
  if (b.inf) return b;
  return EZ{0, a.v + b.v};
}
static int ezsign(const EZ &a) {
  if (a.inf) return a.inf;
  return a.v < Z(0) ? -1 : (a.v == Z(0) ? 0 : 1);
}
static EZ ezmul(const EZ &a, const EZ &b) { // 0 * oo = 0
  int sa = ezsign(a), sb = ezsign(b);
  if (sa == 0 || sb == 0) return EZ{0, Z(0)};
  if (a.inf || b.inf) return EZ{sa * sb, Z(0)};
  return EZ{0, a.v * b.v};
}
static EZ ezmin(const EZ &a, const EZ &b) { return ezcmp(a, b) <= 0 ? a : b; }
static EZ ezmax(const EZ &a, const EZ &b) { return ezcmp(a, b) >= 0 ? a : b; }
static std::string ezstr(const EZ &a) { return a.inf > 0 ? "+oo" : (a.inf < 0 ? "-oo" : zs(a.v)); }
struct IM {
  bool bot;
  EZ lo, hi;
};
static IM model(const zitv &a) {
  if (a.is_bottom()) return IM{true, EZ{0, Z(0)}, EZ{0, Z(0)}};
  return IM{false, ez(a.lb()), ez(a.ub())};
}
static std::string imstr(const IM &m) { return m.bot ? "_|_" : "[" + ezstr(m.lo) + ", " + ezstr(m.hi) + "]"; }
static bool same(const zitv &r, const IM &m) {
  if (r.is_bottom() || m.bot) return r.is_bottom() && m.bot;
  return ezcmp(ez(r.lb()), m.lo) == 0 && ezcmp(ez(r.ub()), m.hi) == 0;
}
static IM IMBOT() { return IM{true, EZ{0, Z(0)}, EZ{0, Z(0)}}; }
static IM ref_add(const IM &a, const IM &b) {
  if (a.bot || b.bot) return IMBOT();
  return IM{false, ezadd(a.lo, b.lo), ezadd(a.hi, b.hi)};
}
static IM ref_neg(const IM &a) {
  if (a.bot) return IMBOT();
  return IM{false, ezneg(a.hi), ezneg(a.lo)};
}
static IM ref_sub(const IM &a, const IM &b) { return ref_add(a, ref_neg(b)); }
static IM ref_mul(const IM &a, const IM &b) {
  if (a.bot || b.bot) return IMBOT();
  EZ c1 = ezmul(a.lo, b.lo), c2 = ezmul(a.lo, b.hi), c3 = ezmul(a.hi, b.lo), c4 = ezmul(a.hi, b.hi);
  return IM{false, ezmin(ezmin(c1, c2), ezmin(c3, c4)), ezmax(ezmax(c1, c2), ezmax(c3, c4))};
}
static IM ref_join(const IM &a, const IM &b) {
  if (a.bot) return b;
  if (b.bot) return a;
  return IM{false, ezmin(a.lo, b.lo), ezmax(a.hi, b.hi)};
}
static IM ref_meet(const IM &a, const IM &b) {
  if (a.bot || b.bot) return IMBOT();
  EZ lo = ezmax(a.lo, b.lo), hi = ezmin(a.hi, b.hi);
  if (ezcmp(lo, hi) > 0) return IMBOT();
  return IM{false, lo, hi};
}

enum LOp { JOIN, MEET, WIDEN, NARROW, LEQ, EQ, WIDEN_TS, NLOPS };
static const char *lopname[] = {"join", "meet", "widening", "narrowing", "leq", "eq", "widening_thresholds"};

static crab::thresholds<Z> gen_thresholds(Tape &t) {
  crab::thresholds<Z> ts(t.flag() ? 4 : 50);
  unsigned n = t.pick(6);
  for (unsigned i = 0; i < n; i++)
    ts.add(zbound(genz(t)));
  return ts;
}

// ==== class traits ======================================================================
// Each traits struct gives: T, name, gen(tape, small), is_top/is_bottom, member,
// candidates, str, shape, apply(op,a,b,alt,r), lattice ops, tagsfx.

// ---- interval<z_number> --------------------------------------------------------------------
static void itv_candidates(const zitv &a, Tape &t, bool small, std::vector<Z> &out) {
  if (a.is_bottom())
    return;
  EZ lo = ez(a.lb()), hi = ez(a.ub());
  if (!lo.inf) {
    out.push_back(lo.v);
    out.push_back(lo.v + Z(1));
  }
  if (!hi.inf) {
    out.push_back(hi.v);
    out.push_back(hi.v - Z(1));
  }
  if (!lo.inf && !hi.inf) {
    Z w = hi.v - lo.v;
    out.push_back(lo.v + w / Z(2));
    out.push_back(lo.v + Z::from_uint64(t.u64()) % (w + Z(1)));
  }
  if (hi.inf) {
    Z base = lo.inf ? Z(0) : lo.v;
    out.push_back(base + BIG40());
    out.push_back(base + BIG70());
    Z g = genz(t);
    out.push_back(base + (g < Z(0) ? -g : g));
  }
  if (lo.inf) {
    Z base = hi.inf ? Z(0) : hi.v;
    out.push_back(base - BIG40());
    out.push_back(base - BIG70());
    Z g = genz(t);
    out.push_back(base - (g < Z(0) ? -g : g));
  }
  pool(t, small, out);
}
static zitv gen_itv(Tape &t, bool small) {
  if (small) {
    Z k = gen_shift(t);
    switch (t.pick(8)) {
    case 5: return zitv(zbound(k), zbound(k + Z((int64_t)t.pick(4))));
    case 6: return zitv(zbound(k), zbound::plus_infinity());
    case 7: return t.flag() ? zitv::top() : zitv::bottom();
    default: return zitv(k);
    }
  }
  switch (t.pick(13)) {
  case 0: return zitv(genz(t));
  case 1: {
    Z a = genz(t);
    return zitv(zbound(a), zbound(a + Z((int64_t)t.pick(20))));
  }
  case 2: { // zero-crossing
    Z p = genz(t), q = genz(t);
    if (p < Z(0)) p = -p;
    if (q < Z(0)) q = -q;
    return zitv(zbound(-p - Z(1)), zbound(q + Z(1)));
  }
  case 3: return zitv(zbound(genz(t)), zbound::plus_infinity());
  case 4: return zitv(zbound::minus_infinity(), zbound(genz(t)));
  case 5: return zitv::top();
  case 6: return zitv::bottom();
  case 7: {
    Z a = genz(t), b = genz(t);
    return a <= b ? zitv(zbound(a), zbound(b)) : zitv(zbound(b), zbound(a));
  }
  case 8: { // non-negative [0,a] or [a,b]
    Z a = genz(t);
    if (a < Z(0)) a = -a;
    return zitv(zbound(Z((int64_t)t.pick(3))), zbound(a + Z(2)));
  }
  case 9: { // strictly negative
    Z a = genz(t);
    if (a < Z(0)) a = -a;
    return zitv(zbound(-a - Z(1)), zbound(Z(-1) - Z((int64_t)t.pick(2))));
  }
  case 10: return zitv(zbound(genz(t))); // interval(bound) constructor
  case 11: return zitv(zs(genz(t)));     // interval(string) constructor
  default: return zitv(genz(t)).upper_half_line() & zitv(genz(t)).lower_half_line();
  }
}
static std::string itv_shape(const zitv &a) {
  if (a.is_bottom()) return "bottom";
  if (a.is_top()) return "top";
  if (a.singleton()) return "singleton";
  if (a.lb().is_infinite() || a.ub().is_infinite()) return "half_infinite";
  if (a[Z(0)] && !(a.lb() == zbound(Z(0))) && !(a.ub() == zbound(Z(0)))) return "zero_crossing";
  return "finite";
}
// narrow sub-classifiers: division by an interval with an infinite bound,
// arithmetic shift of a negative value
static std::string itv_tagsfx(int op, const zitv &b, const Z *x) {
  if ((op == SDIV || op == UDIV) && !b.is_bottom() && (b.lb().is_infinite() || b.ub().is_infinite())) return "_infdivisor";
  if (op == ASHR && x && *x < Z(0)) return "_negvalue";
  if (op == SDIV && x && *x < Z(0)) return "_negdividend";
  return "";
}
struct IntervalZ {
  typedef zitv T;
  static const char *name() { return "interval_z"; }
  static T gen(Tape &t, bool small) { return gen_itv(t, small); }
  static T top() { return zitv::top(); }
  static T bottom() { return zitv::bottom(); }
  static bool is_top(const T &a) { return a.is_top(); }
  static bool is_bottom(const T &a) { return a.is_bottom(); }
  static bool member(const T &a, const Z &n) {
    if (a.is_bottom()) return false;
    zbound b(n);
    return a.lb() <= b && b <= a.ub();
  }
  static void candidates(const T &a, Tape &t, bool small, std::vector<Z> &out) { itv_candidates(a, t, small, out); }
  static std::string str(const T &a) { return show(a); }
  static std::string shape(const T &a) { return itv_shape(a); }
  static std::string tagsfx(int op, const T &, const T &b, const Z *x, const Z *, const T *, const Z *) {
    return itv_tagsfx(op, b, x);
  }
  static bool apply(Op op, const T &a, const T &b, bool alt, T &r) {
    boost::optional<Z> bs = b.singleton();
    switch (op) {
    case ADD: if (alt) { r = a; r += b; } else if (bs) r = a + *bs; else r = a + b; return true;
    case SUB: if (alt) { r = a; r -= b; } else if (bs) r = a - *bs; else r = a - b; return true;
    case MUL: if (alt) { r = a; r *= b; } else if (bs) r = *bs * a; else r = a * b; return true;
    case SDIV: if (alt) { r = a; r /= b; } else r = a / b; return true;
    case UDIV: r = a.UDiv(b); return true;
    case SREM: r = a.SRem(b); return true;
    case UREM: r = a.URem(b); return true;
    case AND: r = a.And(b); return true;
    case OR: r = a.Or(b); return true;
    case XOR: r = a.Xor(b); return true;
    case SHL: r = a.Shl(b); return true;
    case LSHR: r = a.LShr(b); return true;
    case ASHR: r = a.AShr(b); return true;
    default: return false;
    }
  }
  static const std::vector<LOp> &lops() {
    static std::vector<LOp> v = {JOIN, MEET, WIDEN, NARROW, LEQ, EQ, WIDEN_TS};
    return v;
  }
  static T join(const T &a, const T &b) { return a | b; }
  static T meet(const T &a, const T &b) { return a & b; }
  static T widen(const T &a, const T &b) { return a || b; }
  static T narrow(const T &a, const T &b) { return a && b; }
  static T widen_ts(const T &a, const T &b, Tape &t) {
    crab::thresholds<Z> ts = gen_thresholds(t);
    return a.widening_thresholds(b, ts);
  }
  static bool leq(const T &a, const T &b) { return a <= b; }
  static bool eq(const T &a, const T &b) { return a == b; }
};

// ---- congruence<z_number> ---------------------------------------------------------------------
static bool cong_member(const cong &c, const Z &n) {
  if (c.is_bottom()) return false;
  Z a = c.get_modulo(), b = c.get_remainder();
  if (a == Z(0)) return n == b;
  return (n - b) % a == Z(0);
}
static void cong_candidates(const cong &c, Tape &t, bool small, std::vector<Z> &out) {
  if (c.is_bottom()) return;
  Z a = c.get_modulo(), b = c.get_remainder();
  if (a == Z(0)) {
    out.push_back(b);
    return;
  }
  Z k0 = -(b / a); // b + a*k0 is near 0
  static const int ks[] = {0, 1, -1, 2, -2, 5};
  for (int k : ks) {
    out.push_back(b + a * Z(k));
    out.push_back(b + a * (k0 + Z(k)));
  }
  out.push_back(b + a * Z(t.small_int(40)));
  out.push_back(b + a * BIG40());
  out.push_back(b - a * BIG40());
  if (!small) out.push_back(b + a * genz(t));
  pool(t, small, out);
}
static cong gen_cong(Tape &t, bool small) {
  if (small) {
    switch (t.pick(8)) {
    case 5: return cong(Z((int64_t)t.range(1, 16))) * cong::top() + cong(Z(t.small_int(10)));
    case 6: return cong::top();
    case 7: return cong::bottom();
    default: return cong(gen_shift(t));
    }
  }
  switch (t.pick(10)) {
  case 0: return cong(genz(t));
  case 1: return cong::top();
  case 2: return cong::bottom();
  case 3: return cong(); // documented: top
  case 4: return cong(genz(t)) | cong(genz(t)); // join of singletons
  default: {
    Z a;
    switch (t.pick(5)) {
    case 0: a = Z((int64_t)t.range(2, 12)); break;
    case 1: a = pow2((unsigned)t.range(1, 40)); break;
    case 2: a = Z(t.small_int(12)); break; // includes 0, 1 and negative factors
    case 3: a = genz(t); break;
    default: a = Z((int64_t)t.range(2, 6)); break;
    }
    Z b = t.flag() ? Z(t.small_int(15)) : genz(t);
    cong m = t.flag() ? cong(a) * cong::top() : cong::top() * cong(a);
    switch (t.pick(4)) {
    case 0: return m + cong(b);
    case 1: return cong(b) + m;
    case 2: return m - cong(b);
    default: return -(m + cong(b));
    }
  }
  }
}
static bool cong_negres(const cong &c) { return !c.is_bottom() && !(c.get_modulo() == Z(0)) && c.get_remainder() < Z(0); }
static bool cong_negmod(const cong &c) { return !c.is_bottom() && c.get_modulo() < Z(0); }
struct Congruence {
  typedef cong T;
  static const char *name() { return "congruence"; }
  static T gen(Tape &t, bool small) { return gen_cong(t, small); }
  static T top() { return cong::top(); }
  static T bottom() { return cong::bottom(); }
  static bool is_top(const T &a) { return !a.is_bottom() && a.is_top(); }
  static bool is_bottom(const T &a) { return a.is_bottom(); }
  static bool member(const T &a, const Z &n) { return cong_member(a, n); }
  static void candidates(const T &a, Tape &t, bool small, std::vector<Z> &out) { cong_candidates(a, t, small, out); }
  static std::string str(const T &a) { return show(a); }
  static std::string shape(const T &a) {
    if (a.is_bottom()) return "bottom";
    if (a.is_top()) return "top";
    if (a.singleton()) return "singleton";
    if (cong_negres(a)) return "negative_residue";
    if (cong_negmod(a)) return "negative_modulus";
    return "aZ+b";
  }
  // narrow sub-classifiers: operands with a non-canonical (negative) residue or
  // modulus, and signed remainder of a negative dividend (the header comment of
  // congruence_impl.hpp documents % as a non-negative "mod")
  static std::string tagsfx(int op, const T &a, const T &b, const Z *x, const Z *, const T *, const Z *) {
    std::string s;
    if (op == SDIV || op == SREM) {
      bool sa = !a.is_bottom() && a.get_modulo() == Z(0), sb = !b.is_bottom() && b.get_modulo() == Z(0);
      s += sa ? "_sing" : "_nonsing";
      s += sb ? "_by_sing" : "_by_nonsing";
    }
    if ((op == SREM || op == SDIV) && x && *x < Z(0)) s += "_negdividend";
    if (op == ASHR && x && *x < Z(0)) s += "_negvalue";
    if (cong_negres(a) || cong_negres(b)) s += "_negres";
    else if (cong_negmod(a) || cong_negmod(b)) s += "_negmod";
    return s;
  }
  static bool apply(Op op, const T &a, const T &b, bool alt, T &r) {
    switch (op) {
    case ADD: r = a + b; return true;
    case SUB: r = a - b; return true;
    case MUL: r = a * b; return true;
    case SDIV: r = alt ? a.SDiv(b) : a / b; return true;
    case UDIV: r = a.UDiv(b); return true;
    case SREM: r = alt ? a.SRem(b) : a % b; return true;
    case UREM: r = a.URem(b); return true;
    case AND: r = a.And(b); return true;
    case OR: r = a.Or(b); return true;
    case XOR: r = a.Xor(b); return true;
    case SHL: r = a.Shl(b); return true;
    case LSHR: r = a.LShr(b); return true;
    case ASHR: r = a.AShr(b); return true;
    default: return false;
    }
  }
  static const std::vector<LOp> &lops() {
    static std::vector<LOp> v = {JOIN, MEET, WIDEN, NARROW, LEQ, EQ};
    return v;
  }
  static T join(const T &a, const T &b) { return a | b; }
  static T meet(const T &a, const T &b) { return a & b; }
  static T widen(const T &a, const T &b) { return a || b; }
  static T narrow(const T &a, const T &b) { return a && b; }
  static T widen_ts(const T &a, const T &b, Tape &) { return a || b; }
  static bool leq(const T &a, const T &b) { return a <= b; }
  static bool eq(const T &a, const T &b) { return a == b; }
};

// ---- interval_congruence<z_number> ------------------------------------------------------------------
struct IntervalCongruence {
  typedef icong T;
  static const char *name() { return "interval_congruence"; }
  static T gen(Tape &t, bool small) {
    switch (t.pick(8)) {
    case 0: return icong(small ? gen_shift(t) : genz(t));
    case 1: return icong::top();
    case 2: return icong::bottom();
    case 3: return icong(gen_itv(t, small));
    case 4: return icong(gen_cong(t, small));
    default: {
      zitv i = gen_itv(t, small);
      cong c = gen_cong(t, small);
      return icong(std::move(i), std::move(c));
    }
    }
  }
  static T top() { return icong::top(); }
  static T bottom() { return icong::bottom(); }
  static bool is_top(const T &a) {
    T c(a);
    return !c.is_bottom() && c.is_top();
  }
  static bool is_bottom(const T &a) {
    T c(a);
    return c.is_bottom();
  }
  static bool member(const T &a, const Z &n) {
    if (is_bottom(a)) return false;
    return IntervalZ::member(a.first(), n) && cong_member(a.second(), n);
  }
  static void candidates(const T &a, Tape &t, bool small, std::vector<Z> &out) {
    if (is_bottom(a)) return;
    const cong &c = a.second();
    Z m = c.get_modulo(), b = c.get_remainder();
    std::vector<Z> base;
    itv_candidates(a.first(), t, small, base);
    if (m == Z(0)) {
      out.push_back(b);
      return;
    }
    Z am = m < Z(0) ? -m : m;
    for (auto &x : base) {
      // nearest members of the congruence above and below x
      Z d = (b - x) % am;
      if (d < Z(0)) d = d + am;
      out.push_back(x + d);
      out.push_back(x + d - am);
    }
  }
  static std::string str(const T &a) { return show(a); }
  static std::string shape(const T &a) {
    if (is_bottom(a)) return "bottom";
    if (is_top(a)) return "top";
    return itv_shape(a.first()) + "+" + Congruence::shape(a.second());
  }
  // which component's own operation loses the value (recomputed on the
  // components, because reduce() propagates a wrong component to the other)
  static std::string tagsfx(int op, const T &a, const T &b, const Z *x, const Z *y, const T *, const Z *c) {
    try {
      if (c && op >= 0) {
        zitv ri = zitv::top();
        cong rc = cong::top();
        IntervalZ::apply((Op)op, a.first(), b.first(), false, ri);
        Congruence::apply((Op)op, a.second(), b.second(), false, rc);
        if (!IntervalZ::member(ri, *c)) return "_itv" + itv_tagsfx(op, b.first(), x);
        if (!cong_member(rc, *c)) return "_cong" + Congruence::tagsfx(op, a.second(), b.second(), x, y, nullptr, nullptr);
        return "_reduce";
      }
      if (c && (op == -1 - (int)JOIN || op == -1 - (int)MEET)) {
        bool j = op == -1 - (int)JOIN;
        zitv ri = j ? (a.first() | b.first()) : (a.first() & b.first());
        cong rc = j ? (a.second() | b.second()) : (a.second() & b.second());
        if (!IntervalZ::member(ri, *c)) return "_itv";
        if (!cong_member(rc, *c)) return "_cong" + Congruence::tagsfx(op, a.second(), b.second(), x, y, nullptr, nullptr);
        return "_reduce";
      }
    } catch (const verif::crab_error &) {
    }
    return "";
  }
  static bool apply(Op op, const T &a, const T &b, bool alt, T &r) {
    switch (op) {
    case ADD: r = a + b; return true;
    case SUB: r = a - b; return true;
    case MUL: r = a * b; return true;
    case SDIV: r = alt ? a.SDiv(b) : a / b; return true;
    case UDIV: r = a.UDiv(b); return true;
    case SREM: r = a.SRem(b); return true;
    case UREM: r = a.URem(b); return true;
    case AND: r = a.And(b); return true;
    case OR: r = a.Or(b); return true;
    case XOR: r = a.Xor(b); return true;
    case SHL: r = a.Shl(b); return true;
    case LSHR: r = a.LShr(b); return true;
    case ASHR: r = a.AShr(b); return true;
    default: return false;
    }
  }
  static const std::vector<LOp> &lops() {
    static std::vector<LOp> v = {JOIN, MEET};
    return v;
  }
  static T join(const T &a, const T &b) { return a | b; }
  static T meet(const T &a, const T &b) { return a & b; }
  static T widen(const T &a, const T &b) { return a | b; }
  static T narrow(const T &a, const T &b) { return a & b; }
  static T widen_ts(const T &a, const T &b, Tape &) { return a | b; }
  static bool leq(const T &, const T &) { return false; }
  static bool eq(const T &, const T &) { return false; }
};

// ---- sign<z_number> ---------------------------------------------------------------------------------
struct Sign {
  typedef sgn T;
  static const char *name() { return "sign"; }
  static T gen(Tape &t, bool small) {
    switch (t.pick(11)) {
    case 0: return sgn::mk_equal_zero();
    case 1: return sgn::mk_greater_than_zero();
    case 2: return sgn::mk_less_than_zero();
    case 3: return sgn::mk_greater_or_equal_than_zero();
    case 4: return sgn::mk_less_or_equal_than_zero();
    case 5: return sgn::mk_not_equal_zero();
    case 6: return sgn::top();
    case 7: return sgn::bottom();
    case 8: return sgn(small ? gen_shift(t) : genz(t));
    case 9: return sgn(t.flag()); // sign(bool is_bottom)
    default: return sgn::top().from_interval(gen_itv(t, small));
    }
  }
  static T top() { return sgn::top(); }
  static T bottom() { return sgn::bottom(); }
  static bool is_top(const T &a) { return a.is_top(); }
  static bool is_bottom(const T &a) { return a.is_bottom(); }
  static bool member(const T &a, const Z &n) {
    Z z(0);
    if (a.is_bottom()) return false;
    if (a.is_top()) return true;
    if (a.equal_zero()) return n == z;
    if (a.less_than_zero()) return n < z;
    if (a.greater_than_zero()) return n > z;
    if (a.less_or_equal_than_zero()) return n <= z;
    if (a.greater_or_equal_than_zero()) return n >= z;
    if (a.not_equal_zero()) return n != z;
    return false;
  }
  static void candidates(const T &, Tape &t, bool small, std::vector<Z> &out) {
    if (small) { // make sure usable shift amounts of both kinds come first
      out.push_back(Z((int64_t)t.pick(65)));
      out.push_back(Z(0));
      out.push_back(Z(1));
      out.push_back(Z(-1));
    }
    out.push_back(genz(t));
    out.push_back(genz(t));
    pool(t, small, out);
  }
  static std::string str(const T &a) { return show(a); }
  static std::string shape(const T &a) { return show(a); }
  static std::string tagsfx(int, const T &, const T &, const Z *, const Z *, const T *, const Z *) { return ""; }
  static bool apply(Op op, const T &a, const T &b, bool, T &r) {
    switch (op) {
    case ADD: r = a + b; return true;
    case SUB: r = a - b; return true;
    case MUL: r = a * b; return true;
    case SDIV: r = a / b; return true;
    case UDIV: r = a.UDiv(b); return true;
    case SREM: r = a.SRem(b); return true;
    case UREM: r = a.URem(b); return true;
    case AND: r = a.And(b); return true;
    case OR: r = a.Or(b); return true;
    case XOR: r = a.Xor(b); return true;
    case SHL: r = a.Shl(b); return true;
    case LSHR: r = a.LShr(b); return true;
    case ASHR: r = a.AShr(b); return true;
    default: return false;
    }
  }
  static const std::vector<LOp> &lops() {
    static std::vector<LOp> v = {JOIN, MEET, LEQ, EQ};
    return v;
  }
  static T join(const T &a, const T &b) { return a | b; }
  static T meet(const T &a, const T &b) { return a & b; }
  static T widen(const T &a, const T &b) { return a | b; }
  static T narrow(const T &a, const T &b) { return a & b; }
  static T widen_ts(const T &a, const T &b, Tape &) { return a | b; }
  static bool leq(const T &a, const T &b) { return a <= b; }
  static bool eq(const T &a, const T &b) { return a == b; }
};

// ---- constant<z_number> ----------------------------------------------------------------------------
struct Constant {
  typedef cst T;
  static const char *name() { return "constant"; }
  static T gen(Tape &t, bool small) {
    switch (t.pick(6)) {
    case 0: return cst::zero();
    case 1: return cst::top();
    case 2: return cst::bottom();
    default: return cst(small ? gen_shift(t) : genz(t));
    }
  }
  static T top() { return cst::top(); }
  static T bottom() { return cst::bottom(); }
  static bool is_top(const T &a) { return a.is_top(); }
  static bool is_bottom(const T &a) { return a.is_bottom(); }
  static bool member(const T &a, const Z &n) {
    if (a.is_bottom()) return false;
    if (a.is_constant()) return a.get_constant() == n;
    return a.is_top();
  }
  static void candidates(const T &a, Tape &t, bool small, std::vector<Z> &out) {
    if (a.is_bottom()) return;
    if (a.is_constant()) {
      out.push_back(a.get_constant());
      return;
    }
    if (small) out.push_back(Z((int64_t)t.pick(65)));
    out.push_back(genz(t));
    pool(t, small, out);
  }
  static std::string str(const T &a) { return show(a); }
  static std::string shape(const T &a) { return a.is_bottom() ? "bottom" : (a.is_top() ? "top" : "singleton"); }
  static std::string tagsfx(int, const T &, const T &, const Z *, const Z *, const T *, const Z *) { return ""; }
  static bool apply(Op op, const T &a, const T &b, bool, T &r) {
    switch (op) {
    case ADD: r = a.Add(b); return true;
    case SUB: r = a.Sub(b); return true;
    case MUL: r = a.Mul(b); return true;
    case SDIV: r = a.SDiv(b); return true;
    case UDIV: r = a.UDiv(b); return true;
    case SREM: r = a.SRem(b); return true;
    case UREM: r = a.URem(b); return true;
    case AND: r = a.BitwiseAnd(b); return true;
    case OR: r = a.BitwiseOr(b); return true;
    case XOR: r = a.BitwiseXor(b); return true;
    case SHL: r = a.BitwiseShl(b); return true;
    case LSHR: r = a.BitwiseLShr(b); return true;
    case ASHR: r = a.BitwiseAShr(b); return true;
    default: return false;
    }
  }
  static const std::vector<LOp> &lops() {
    static std::vector<LOp> v = {JOIN, MEET, WIDEN, NARROW, LEQ, EQ, WIDEN_TS};
    return v;
  }
  static T join(const T &a, const T &b) { return a | b; }
  static T meet(const T &a, const T &b) { return a & b; }
  static T widen(const T &a, const T &b) { return a || b; }
  static T narrow(const T &a, const T &b) { return a && b; }
  static T widen_ts(const T &a, const T &b, Tape &t) {
    crab::thresholds<Z> ts = gen_thresholds(t);
    return a.widening_thresholds(b, ts);
  }
  static bool leq(const T &a, const T &b) { return a <= b; }
  static bool eq(const T &a, const T &b) { return a == b; }
};

// ---- dis_interval<z_number> --------------------------------------------------------------------------
struct DisInterval {
  typedef disitv T;
  static const char *name() { return "dis_interval"; }
  static T gen(Tape &t, bool small) {
    switch (t.pick(8)) {
    case 0: return disitv(gen_itv(t, small));
    case 1: return disitv::top();
    case 2: return disitv::bottom();
    case 3: return disitv(); // documented: top
    case 4:
    case 5: {
      // several small disjoint intervals inside [-24,24] (3-6 disjuncts survive the joins):
      // inner disjuncts are where widening / meet / arithmetic of disjunctions can lose values
      unsigned n = 2 + t.pick(5);
      int64_t p = -24 + (int64_t)t.pick(8);
      disitv d = disitv::bottom();
      for (unsigned i = 0; i < n; i++) {
        int64_t len = (int64_t)t.pick(3);
        d = d | disitv(zitv(zbound(Z(p)), zbound(Z(p + len))));
        p += len + 2 + (int64_t)t.pick(4);
      }
      return d;
    }
    default: {
      unsigned n = 2 + t.pick(3);
      disitv d(gen_itv(t, small));
      for (unsigned i = 1; i < n; i++)
        d = d | disitv(gen_itv(t, small));
      return d;
    }
    }
  }
  static T top() { return disitv::top(); }
  static T bottom() { return disitv::bottom(); }
  static bool is_top(const T &a) { return a.is_top(); }
  static bool is_bottom(const T &a) { return a.is_bottom(); }
  static bool member(const T &a, const Z &n) {
    if (a.is_bottom()) return false;
    if (a.is_top()) return true;
    for (auto it = a.begin(); it != a.end(); ++it)
      if (IntervalZ::member(*it, n))
        return true;
    return false;
  }
  static void candidates(const T &a, Tape &t, bool small, std::vector<Z> &out) {
    if (a.is_bottom()) return;
    if (a.is_top()) {
      itv_candidates(zitv::top(), t, small, out);
      return;
    }
    // interleave so that every disjunct contributes early candidates
    std::vector<std::vector<Z>> per;
    for (auto it = a.begin(); it != a.end(); ++it) {
      per.emplace_back();
      itv_candidates(*it, t, small, per.back());
    }
    for (size_t k = 0; k < 24; k++)
      for (auto &v : per)
        if (k < v.size())
          out.push_back(v[k]);
  }
  static std::string str(const T &a) { return show(a); }
  static std::string shape(const T &a) {
    if (a.is_bottom()) return "bottom";
    if (a.is_top()) return "top";
    size_t n = a.end() - a.begin();
    if (n == 1) return "one_" + itv_shape(*a.begin());
    return "disjuncts_" + std::to_string(n);
  }
  static std::string tagsfx(int op, const T &, const T &b, const Z *x, const Z *, const T *, const Z *) {
    if (op == SDIV || op == UDIV) {
      if (b.is_top()) return "_infdivisor";
      for (auto it = b.begin(); it != b.end(); ++it)
        if (it->lb().is_infinite() || it->ub().is_infinite()) return "_infdivisor";
    }
    if (op == ASHR && x && *x < Z(0)) return "_negvalue";
    if (op == SDIV && x && *x < Z(0)) return "_negdividend";
    return "";
  }
  static bool apply(Op op, const T &a, const T &b, bool alt, T &r) {
    T aa(a);
    switch (op) {
    case ADD: if (alt) { aa += b; r = aa; } else r = a + b; return true;
    case SUB: if (alt) { aa -= b; r = aa; } else r = a - b; return true;
    case MUL: if (alt) { aa *= b; r = aa; } else r = a * b; return true;
    case SDIV: if (alt) { aa /= b; r = aa; } else r = aa / b; return true;
    case UDIV: r = a.UDiv(b); return true;
    case SREM: r = a.SRem(b); return true;
    case UREM: r = a.URem(b); return true;
    case AND: r = a.And(b); return true;
    case OR: r = a.Or(b); return true;
    case XOR: r = a.Xor(b); return true;
    case SHL: r = a.Shl(b); return true;
    case LSHR: r = a.LShr(b); return true;
    case ASHR: r = a.AShr(b); return true;
    default: return false;
    }
  }
  static const std::vector<LOp> &lops() {
    static std::vector<LOp> v = {JOIN, MEET, WIDEN, NARROW, LEQ, EQ, WIDEN_TS};
    return v;
  }
  static T join(const T &a, const T &b) { return a | b; }
  static T meet(const T &a, const T &b) { return a & b; }
  static T widen(const T &a, const T &b) { return a || b; }
  static T narrow(const T &a, const T &b) { return a && b; }
  static T widen_ts(const T &a, const T &b, Tape &t) {
    crab::thresholds<Z> ts = gen_thresholds(t);
    return a.widening_thresholds(b, ts);
  }
  static bool leq(const T &a, const T &b) { return a <= b; }
  static bool eq(const T &a, const T &b) { return a == b; }
};

// ==== generic rounds ========================================================================
template <class C> static void count_operands(const typename C::T &a, const typename C::T &b) {
  R().cls(std::string("shape:") + C::name() + ":" + C::shape(a));
  R().cls(std::string("shape:") + C::name() + ":" + C::shape(b));
}

// binary arithmetic / bitwise operation
template <class C> static void arith_round(Tape &t, CaseCtx &ctx, int forced_op = -1) {
  typedef typename C::T T;
  Op op = forced_op >= 0 ? (Op)forced_op : (Op)t.pick(NOPS);
  bool shift = op >= SHL;
  T a = C::gen(t, false);
  T b = C::gen(t, shift);
  bool alt = t.flag();
  T r = C::top();
  std::string base = std::string(C::name()) + "_" + opname[op];
  ctx.log << base << " a=" << C::str(a) << " b=" << C::str(b);
  ctx.mixs(base + C::str(a) + "#" + C::str(b));
  try {
    C::apply(op, a, b, alt, r);
  } catch (const verif::crab_error &e) {
    R().diag("crab_error:" + base);
    ctx.log << " CRAB_ERROR: " << e.what() << "\n";
    return;
  }
  ctx.log << " r=" << C::str(r) << "\n";
  std::vector<Z> xs = members<C>(a, t, false), ys = members<C>(b, t, shift);
  unsigned defined = 0;
  for (auto &x : xs)
    for (auto &y : ys) {
      Z c;
      if (!concrete(op, x, y, c)) {
        R().cls(std::string("pair_outside_model:") + opname[op]);
        continue;
      }
      defined++;
      SCHECK(ctx, C::member(r, c), base + "_unsound" + C::tagsfx(op, a, b, &x, &y, &r, &c),
             C::name() << " " << opname[op] << ": " << C::str(a) << " op " << C::str(b) << " = " << C::str(r)
                       << " does not contain " << zs(x) << " op " << zs(y) << " = " << zs(c));
    }
  R().cls("membership_checks", defined);
  R().cls(std::string("op:") + base);
  count_operands<C>(a, b);
  if (!C::is_top(a) && !C::is_bottom(a) && !C::is_top(b) && !C::is_bottom(b) && defined > 0) {
    ctx.nontrivial = true;
    R().cls(std::string("nontrivial:") + C::name());
  }
}

template <class C> static typename C::T related(Tape &t, const typename C::T &a) {
  typedef typename C::T T;
  unsigned k = t.pick(5);
  try {
    switch (k) {
    case 1: return a;
    case 2: return C::join(a, C::gen(t, false));
    case 3: return C::meet(a, C::gen(t, false));
    default: break;
    }
  } catch (const verif::crab_error &) {
  }
  return C::gen(t, false);
}

// lattice operation
template <class C> static void lattice_round(Tape &t, CaseCtx &ctx) {
  typedef typename C::T T;
  const std::vector<LOp> &ls = C::lops();
  LOp lop = ls[t.pick((unsigned)ls.size())];
  T a = C::gen(t, false);
  T b = related<C>(t, a);
  std::string base = std::string(C::name()) + "_" + lopname[lop];
  ctx.log << base << " a=" << C::str(a) << " b=" << C::str(b);
  ctx.mixs(base + C::str(a) + "#" + C::str(b));
  std::vector<Z> xs = members<C>(a, t, false), ys = members<C>(b, t, false);
  unsigned checks = 0;
  std::string sfx = C::tagsfx(-1 - (int)lop, a, b, nullptr, nullptr, nullptr, nullptr);
  try {
    switch (lop) {
    case JOIN:
    case WIDEN:
    case WIDEN_TS: {
      T r = lop == JOIN ? C::join(a, b) : (lop == WIDEN ? C::widen(a, b) : C::widen_ts(a, b, t));
      ctx.log << " r=" << C::str(r) << "\n";
      for (int side = 0; side < 2; side++)
        for (auto &x : (side ? ys : xs)) {
          checks++;
          SCHECK(ctx, C::member(r, x), base + "_unsound" + C::tagsfx(-1 - (int)lop, a, b, nullptr, nullptr, &r, &x),
                 lopname[lop] << " of " << C::str(a) << " and " << C::str(b) << " = " << C::str(r)
                              << " does not contain " << zs(x) << " (member of the " << (side ? "second" : "first")
                              << " operand)");
        }
      break;
    }
    case MEET: {
      T r = C::meet(a, b);
      ctx.log << " r=" << C::str(r) << "\n";
      for (int side = 0; side < 2; side++)
        for (auto &x : (side ? ys : xs)) {
          if (!C::member(side ? a : b, x))
            continue;
          checks++;
          SCHECK(ctx, C::member(r, x), base + "_unsound" + C::tagsfx(-1 - (int)lop, a, b, nullptr, nullptr, &r, &x),
                 "meet of " << C::str(a) << " and " << C::str(b) << " = " << C::str(r) << " does not contain " << zs(x)
                            << " which is in both operands");
        }
      break;
    }
    case NARROW: {
      // contract only when b <= a; additionally every sampled member of b must
      // be in a (guards against a wrong <= answer)
      bool pre = C::leq(b, a);
      for (auto &y : ys)
        if (!C::member(a, y))
          pre = false;
      T r = C::narrow(a, b);
      ctx.log << " r=" << C::str(r) << " pre(b<=a)=" << pre << "\n";
      if (pre)
        for (auto &y : ys) {
          checks++;
          SCHECK(ctx, C::member(r, y), base + "_unsound" + sfx,
                 "narrowing " << C::str(a) << " && " << C::str(b) << " = " << C::str(r) << " does not contain " << zs(y)
                              << " (member of the second operand, which is <= the first)");
        }
      else
        R().cls("narrowing_precondition_not_met");
      break;
    }
    case LEQ: {
      bool r = C::leq(a, b);
      ctx.log << " r=" << r << "\n";
      if (r)
        for (auto &x : xs) {
          checks++;
          SCHECK(ctx, C::member(b, x), base + "_unsound" + sfx,
                 C::str(a) << " <= " << C::str(b) << " holds but " << zs(x) << " is only in the first");
        }
      checks += 3;
      SCHECK(ctx, C::leq(a, a), base + "_not_reflexive" + sfx, C::str(a) << " <= itself is false");
      SCHECK(ctx, C::leq(C::bottom(), a), base + "_bottom_not_least", "bottom <= " << C::str(a) << " is false");
      SCHECK(ctx, C::leq(a, C::top()), base + "_top_not_greatest" + sfx, C::str(a) << " <= top is false");
      break;
    }
    case EQ: {
      bool r = C::eq(a, b);
      ctx.log << " r=" << r << "\n";
      if (r) {
        for (auto &x : xs) {
          checks++;
          SCHECK(ctx, C::member(b, x), base + "_unsound" + sfx,
                 C::str(a) << " == " << C::str(b) << " holds but " << zs(x) << " is only in the first");
        }
        for (auto &y : ys) {
          checks++;
          SCHECK(ctx, C::member(a, y), base + "_unsound" + sfx,
                 C::str(a) << " == " << C::str(b) << " holds but " << zs(y) << " is only in the second");
        }
      }
      checks++;
      SCHECK(ctx, C::eq(a, a), base + "_not_reflexive", C::str(a) << " == itself is false");
      break;
    }
    default: break;
    }
  } catch (const verif::crab_error &e) {
    // the lattice operations and the inclusion/equality tests are total: raising instead of answering is a failure
    SCHECK(ctx, false, base + "_raised_crab_error", "operands " << C::str(a) << " , " << C::str(b) << " : " << e.what());
    R().diag("crab_error:" + base);
    ctx.log << " CRAB_ERROR: " << e.what() << "\n";
    return;
  }
  R().cls("membership_checks", checks);
  R().cls(std::string("op:") + base);
  count_operands<C>(a, b);
  if (!C::is_top(a) && !C::is_bottom(a) && !C::is_top(b) && !C::is_bottom(b) && checks > 0) {
    ctx.nontrivial = true;
    R().cls(std::string("nontrivial:") + C::name());
  }
}

// ==== class specific rounds =================================================================
// interval<z>: tightness of + - neg * | & ; unary minus; half lines; trim; queries
static void interval_z_special(Tape &t, CaseCtx &ctx) {
  zitv a = gen_itv(t, false);
  zitv b = t.pick(4) == 0 ? related<IntervalZ>(t, a) : gen_itv(t, false);
  unsigned k = t.pick(10);
  static const char *names[] = {"add", "sub", "mul", "neg", "join", "meet", "half_lines", "trim", "queries", "mul"};
  std::string base = std::string("interval_z_") + names[k];
  ctx.log << base << "(special) a=" << show(a) << " b=" << show(b);
  ctx.mixs(base + "!" + show(a) + "#" + show(b));
  IM ma = model(a), mb = model(b);
  std::vector<Z> xs = members<IntervalZ>(a, t, false), ys = members<IntervalZ>(b, t, false);
  unsigned checks = 0;
  auto tight = [&](const zitv &r, const IM &ref) {
    ctx.log << " r=" << show(r) << " ref=" << imstr(ref) << "\n";
    checks++;
    SCHECK(ctx, same(r, ref), base + "_not_tight",
           names[k] << " of " << show(a) << " , " << show(b) << " = " << show(r) << " but the smallest interval is "
                    << imstr(ref));
    R().cls("tightness_checks");
  };
  switch (k) {
  case 0: tight(a + b, ref_add(ma, mb)); break;
  case 1: tight(a - b, ref_sub(ma, mb)); break;
  case 2:
  case 9: tight(a * b, ref_mul(ma, mb)); break;
  case 3: {
    zitv r = -a;
    for (auto &x : xs) {
      checks++;
      SCHECK(ctx, IntervalZ::member(r, -x), "interval_z_neg_unsound", "-" << show(a) << " = " << show(r) << " misses " << zs(-x));
    }
    tight(r, ref_neg(ma));
    break;
  }
  case 4: tight(a | b, ref_join(ma, mb)); break;
  case 5: tight(a & b, ref_meet(ma, mb)); break;
  case 6: { // lower/upper half lines: {n | n <= some member} / {n | n >= some member}
    if (a.is_bottom()) { // contract silent on bottom: not checked
      ctx.log << " (bottom: skipped)\n";
      break;
    }
    bool viaSolver = t.flag();
    zitv lo = viaSolver ? ikos::linear_interval_solver_impl::lower_half_line(a, true) : a.lower_half_line();
    zitv up = viaSolver ? ikos::linear_interval_solver_impl::upper_half_line(a, t.flag()) : a.upper_half_line();
    ctx.log << " lower=" << show(lo) << " upper=" << show(up) << "\n";
    for (auto &x : xs) {
      Z ds[] = {Z(0), Z(1), BIG40()};
      for (auto &d : ds) {
        checks += 2;
        SCHECK(ctx, IntervalZ::member(lo, x - d), "interval_z_lower_half_line_unsound",
               "lower_half_line(" << show(a) << ") = " << show(lo) << " misses " << zs(x - d));
        SCHECK(ctx, IntervalZ::member(up, x + d), "interval_z_upper_half_line_unsound",
               "upper_half_line(" << show(a) << ") = " << show(up) << " misses " << zs(x + d));
      }
    }
    break;
  }
  case 7: { // trim_interval(i, j) >= gamma(i) \ gamma(j)  (comment in linear_interval_solver.hpp)
    if (t.flag() && !xs.empty())
      b = zitv(xs[t.pick((unsigned)xs.size())]);
    zitv r = ikos::linear_interval_solver_impl::trim_interval(a, b);
    ctx.log << " j=" << show(b) << " r=" << show(r) << "\n";
    for (auto &x : xs) {
      if (IntervalZ::member(b, x))
        continue;
      checks++;
      SCHECK(ctx, IntervalZ::member(r, x), "interval_z_trim_unsound",
             "trim_interval(" << show(a) << ", " << show(b) << ") = " << show(r) << " misses " << zs(x));
    }
    break;
  }
  default: { // query methods agree with each other
    ctx.log << "\n";
    boost::optional<Z> s = a.singleton();
    for (auto &x : xs) {
      checks += 2;
      SCHECK(ctx, a[x], "interval_z_index_inconsistent", show(a) << "[" << zs(x) << "] is false but lb <= x <= ub");
      SCHECK(ctx, !s || *s == x, "interval_z_singleton_unsound",
             show(a) << ".singleton() = " << (s ? zs(*s) : "") << " but " << zs(x) << " is a member");
    }
    std::vector<Z> outside;
    pool(t, false, outside);
    for (auto &x : outside)
      if (!IntervalZ::member(a, x)) {
        checks++;
        SCHECK(ctx, !a[x], "interval_z_index_inconsistent", show(a) << "[" << zs(x) << "] is true but x is outside lb..ub");
      }
    checks += 2;
    SCHECK(ctx, a.is_top() == (!ma.bot && ma.lo.inf < 0 && ma.hi.inf > 0), "interval_z_is_top_inconsistent", show(a));
    SCHECK(ctx, !(a.is_bottom() && !xs.empty()), "interval_z_is_bottom_inconsistent", show(a));
    break;
  }
  }
  R().cls("membership_checks", checks);
  R().cls(std::string("op:") + base + "_special");
  count_operands<IntervalZ>(a, b);
  if (!a.is_top() && !a.is_bottom() && (k == 3 || k >= 6 || (!b.is_top() && !b.is_bottom()))) {
    ctx.nontrivial = true;
    R().cls("nontrivial:interval_z");
  }
}

// dis_interval<z>: unary minus, half lines, trim, approx, singleton, normalize
static void dis_interval_special(Tape &t, CaseCtx &ctx) {
  disitv a = DisInterval::gen(t, false);
  unsigned k = t.pick(6);
  static const char *names[] = {"neg", "half_lines", "trim", "approx", "singleton", "normalize"};
  std::string base = std::string("dis_interval_") + names[k];
  ctx.log << base << " a=" << show(a);
  ctx.mixs(base + show(a));
  std::vector<Z> xs = members<DisInterval>(a, t, false);
  unsigned checks = 0;
  try {
    switch (k) {
    case 0: {
      disitv r = -a;
      ctx.log << " r=" << show(r) << "\n";
      for (auto &x : xs) {
        checks++;
        SCHECK(ctx, DisInterval::member(r, -x), "dis_interval_neg_unsound", "-(" << show(a) << ") = " << show(r) << " misses " << zs(-x));
      }
      break;
    }
    case 1: {
      bool viaSolver = t.flag();
      disitv lo = viaSolver ? ikos::linear_interval_solver_impl::lower_half_line(a, true) : a.lower_half_line();
      disitv up = viaSolver ? ikos::linear_interval_solver_impl::upper_half_line(a, true) : a.upper_half_line();
      ctx.log << " lower=" << show(lo) << " upper=" << show(up) << "\n";
      for (auto &x : xs) {
        Z ds[] = {Z(0), Z(1), BIG40()};
        for (auto &d : ds) {
          checks += 2;
          SCHECK(ctx, DisInterval::member(lo, x - d), "dis_interval_lower_half_line_unsound",
                 "lower_half_line(" << show(a) << ") = " << show(lo) << " misses " << zs(x - d));
          SCHECK(ctx, DisInterval::member(up, x + d), "dis_interval_upper_half_line_unsound",
                 "upper_half_line(" << show(a) << ") = " << show(up) << " misses " << zs(x + d));
        }
      }
      break;
    }
    case 2: {
      disitv b = DisInterval::gen(t, false);
      if (t.flag() && !xs.empty())
        b = disitv(zitv(xs[t.pick((unsigned)xs.size())]));
      disitv r = ikos::linear_interval_solver_impl::trim_interval(a, b);
      ctx.log << " j=" << show(b) << " r=" << show(r) << "\n";
      for (auto &x : xs) {
        if (DisInterval::member(b, x))
          continue;
        checks++;
        SCHECK(ctx, DisInterval::member(r, x), "dis_interval_trim_unsound",
               "trim_interval(" << show(a) << ", " << show(b) << ") = " << show(r) << " misses " << zs(x));
      }
      break;
    }
    case 3: {
      zitv r = a.approx();
      ctx.log << " r=" << show(r) << "\n";
      for (auto &x : xs) {
        checks++;
        SCHECK(ctx, IntervalZ::member(r, x), "dis_interval_approx_unsound", "approx(" << show(a) << ") = " << show(r) << " misses " << zs(x));
      }
      break;
    }
    case 4: {
      boost::optional<Z> s = a.singleton();
      ctx.log << " r=" << (s ? zs(*s) : "none") << "\n";
      for (auto &x : xs) {
        checks++;
        SCHECK(ctx, !s || *s == x, "dis_interval_singleton_unsound",
               show(a) << ".singleton() = " << (s ? zs(*s) : "") << " but " << zs(x) << " is a member");
      }
      break;
    }
    default: {
      disitv r(a);
      r.normalize();
      ctx.log << " r=" << show(r) << "\n";
      for (auto &x : xs) {
        checks++;
        SCHECK(ctx, DisInterval::member(r, x), "dis_interval_normalize_unsound", "normalize(" << show(a) << ") = " << show(r) << " misses " << zs(x));
      }
      break;
    }
    }
  } catch (const verif::crab_error &e) {
    R().diag("crab_error:" + base);
    ctx.log << " CRAB_ERROR: " << e.what() << "\n";
    return;
  }
  R().cls("membership_checks", checks);
  R().cls(std::string("op:") + base);
  R().cls(std::string("shape:dis_interval:") + DisInterval::shape(a));
  if (!a.is_top() && !a.is_bottom() && checks > 0) {
    ctx.nontrivial = true;
    R().cls("nontrivial:dis_interval");
  }
}

// sign: conversions from/to intervals; interval_congruence: casts (documented: top)
static void conversions_round(Tape &t, CaseCtx &ctx) {
  unsigned k = t.pick(3);
  unsigned checks = 0;
  if (k == 0) {
    zitv i = gen_itv(t, false);
    sgn s = sgn::top().from_interval(i);
    ctx.log << "sign_from_interval i=" << show(i) << " r=" << show(s) << "\n";
    ctx.mixs("sfi" + show(i));
    for (auto &x : members<IntervalZ>(i, t, false)) {
      checks++;
      SCHECK(ctx, Sign::member(s, x), "sign_from_interval_unsound", "from_interval(" << show(i) << ") = " << show(s) << " misses " << zs(x));
    }
    R().cls("op:sign_from_interval");
    if (!i.is_top() && !i.is_bottom()) ctx.nontrivial = true;
  } else if (k == 1) {
    sgn s = Sign::gen(t, false);
    zitv i = s.to_interval();
    ctx.log << "sign_to_interval s=" << show(s) << " r=" << show(i) << "\n";
    ctx.mixs("sti" + show(s));
    for (auto &x : members<Sign>(s, t, false)) {
      checks++;
      SCHECK(ctx, IntervalZ::member(i, x), "sign_to_interval_unsound", "to_interval(" << show(s) << ") = " << show(i) << " misses " << zs(x));
    }
    R().cls("op:sign_to_interval");
    if (!s.is_top() && !s.is_bottom()) ctx.nontrivial = true;
  } else {
    icong a = IntervalCongruence::gen(t, false);
    unsigned w = 1 + t.pick(64), which = t.pick(3);
    icong r = which == 0 ? a.Trunc(w) : (which == 1 ? a.ZExt(w) : a.SExt(w));
    ctx.log << "interval_congruence_cast" << which << " a=" << show(a) << " w=" << w << " r=" << show(r) << "\n";
    ctx.mixs("icc" + show(a));
    Z m = pow2(w);
    for (auto &x : members<IntervalCongruence>(a, t, false)) {
      // z domains: casts between ints are the identity when the value fits;
      // truncation gives x mod 2^w (either representative)
      Z lo = x % m;
      if (lo < Z(0)) lo = lo + m;
      checks += 2;
      SCHECK(ctx, IntervalCongruence::member(r, which == 0 ? lo : x), "interval_congruence_cast_unsound",
             "cast of " << show(a) << " = " << show(r) << " misses " << zs(which == 0 ? lo : x));
      SCHECK(ctx, which != 0 || IntervalCongruence::member(r, lo >= pow2(w - 1) ? lo - m : lo), "interval_congruence_cast_unsound",
             "Trunc of " << show(a) << " = " << show(r) << " misses the signed representative of " << zs(x));
    }
    R().cls("op:interval_congruence_cast");
    if (!IntervalCongruence::is_top(a) && !IntervalCongruence::is_bottom(a)) ctx.nontrivial = true;
  }
  R().cls("membership_checks", checks);
}

// ==== bounds (extended numbers): exactness against an explicit model ==========================
template <class N> struct EB {
  int inf;
  N v;
};
template <class N> static std::string nstr(const N &n) { return show(n); }
template <class N> static std::string ebstr(const EB<N> &a) { return a.inf > 0 ? "+oo" : (a.inf < 0 ? "-oo" : nstr(a.v)); }
template <class N> static int ebcmp(const EB<N> &a, const EB<N> &b) {
  if (a.inf != b.inf) return a.inf < b.inf ? -1 : 1;
  if (a.inf) return 0;
  return a.v < b.v ? -1 : (a.v == b.v ? 0 : 1);
}
template <class N> static int ebsign(const EB<N> &a) {
  if (a.inf) return a.inf;
  return a.v < N(Z(0)) ? -1 : (a.v == N(Z(0)) ? 0 : 1);
}
template <class N> static bool ebsame(const ikos::bound<N> &b, const EB<N> &m) {
  if (m.inf > 0) return b.is_plus_infinity() && b.is_infinite() && !b.is_finite() && !b.number();
  if (m.inf < 0) return b.is_minus_infinity() && b.is_infinite() && !b.is_finite() && !b.number();
  return b.is_finite() && !b.is_infinite() && b.number() && *b.number() == m.v;
}
static Q genq(Tape &t) {
  switch (t.pick(4)) {
  case 0: return Q(Z(t.small_int(6)));
  case 1: return Q(Z(t.small_int(30)), Z((int64_t)(1 + t.pick(7))));
  case 2: return Q(genz(t), Z((int64_t)(1 + t.pick(12))));
  default: return Q(Z(t.small_int(3)), Z((int64_t)(1 + t.pick(3))));
  }
}
template <class N> static N gen_num(Tape &t);
template <> Z gen_num<Z>(Tape &t) { return genz(t); }
template <> Q gen_num<Q>(Tape &t) { return genq(t); }

template <class N> static void bound_round(Tape &t, CaseCtx &ctx, const char *cname) {
  typedef ikos::bound<N> B;
  auto gen = [&](EB<N> &m) -> B {
    switch (t.pick(6)) {
    case 4: m = EB<N>{1, N(Z(0))}; return t.flag() ? B::plus_infinity() : B(std::string("+oo"));
    case 5: m = EB<N>{-1, N(Z(0))}; return t.flag() ? B::minus_infinity() : B(std::string("-oo"));
    default: m = EB<N>{0, gen_num<N>(t)}; return B(m.v);
    }
  };
  EB<N> ma, mb, mc, md;
  B a = gen(ma), b = gen(mb), c = gen(mc), d = gen(md);
  std::string base = std::string(cname);
  ctx.log << base << " a=" << show(a) << " b=" << show(b) << " c=" << show(c) << " d=" << show(d) << "\n";
  ctx.mixs(base + show(a) + "#" + show(b) + "#" + show(c) + "#" + show(d));
  SCHECK(ctx, ebsame(a, ma) && ebsame(b, mb), base + "_ctor_wrong", "bound constructed from " << ebstr(ma) << " reads back " << show(a));
  N zero = N(Z(0));
  // negation
  SCHECK(ctx, ebsame(-a, EB<N>{-ma.inf, ma.inf ? zero : zero - ma.v}), base + "_neg_wrong", "-(" << show(a) << ") = " << show(-a));
  // addition / subtraction (opposite infinities undefined: CRAB_ERROR documented)
  if (!(ma.inf && mb.inf && ma.inf != mb.inf)) {
    EB<N> ref = ma.inf ? ma : (mb.inf ? mb : EB<N>{0, ma.v + mb.v});
    B r = a + b, r2 = a;
    r2 += b;
    SCHECK(ctx, ebsame(r, ref) && ebsame(r2, ref), base + "_add_wrong", show(a) << " + " << show(b) << " = " << show(r) << " expected " << ebstr(ref));
  }
  if (!(ma.inf && mb.inf && ma.inf == mb.inf)) {
    EB<N> nb{-mb.inf, mb.inf ? zero : zero - mb.v};
    EB<N> ref = ma.inf ? ma : (nb.inf ? nb : EB<N>{0, ma.v - mb.v});
    B r = a - b, r2 = a;
    r2 -= b;
    SCHECK(ctx, ebsame(r, ref) && ebsame(r2, ref), base + "_sub_wrong", show(a) << " - " << show(b) << " = " << show(r) << " expected " << ebstr(ref));
  }
  { // multiplication, 0 * oo = 0 (as coded in bound::operator*)
    int sa = ebsign(ma), sb = ebsign(mb);
    EB<N> ref = (sa == 0 || sb == 0) ? EB<N>{0, zero} : ((ma.inf || mb.inf) ? EB<N>{sa * sb, zero} : EB<N>{0, ma.v * mb.v});
    B r = a * b, r2 = a;
    r2 *= b;
    SCHECK(ctx, ebsame(r, ref) && ebsame(r2, ref), base + "_mul_wrong", show(a) << " * " << show(b) << " = " << show(r) << " expected " << ebstr(ref));
  }
  // division: only finite non-zero divisors have an undisputed meaning
  if (!mb.inf && !(mb.v == zero)) {
    EB<N> ref = ma.inf ? EB<N>{ma.inf * ebsign(mb), zero} : EB<N>{0, ma.v / mb.v};
    B r = a / b, r2 = a;
    r2 /= b;
    SCHECK(ctx, ebsame(r, ref) && ebsame(r2, ref), base + "_div_wrong", show(a) << " / " << show(b) << " = " << show(r) << " expected " << ebstr(ref));
  }
  { // order
    int cmp = ebcmp(ma, mb);
    SCHECK(ctx, (a < b) == (cmp < 0) && (a <= b) == (cmp <= 0) && (a > b) == (cmp > 0) && (a >= b) == (cmp >= 0) &&
                    (a == b) == (cmp == 0) && (a != b) == (cmp != 0),
           base + "_cmp_wrong", "comparison of " << show(a) << " and " << show(b));
  }
  { // min / max / abs
    auto mn = [](const EB<N> &x, const EB<N> &y) { return ebcmp(x, y) <= 0 ? x : y; };
    auto mx = [](const EB<N> &x, const EB<N> &y) { return ebcmp(x, y) >= 0 ? x : y; };
    SCHECK(ctx, ebsame(B::min(a, b), mn(ma, mb)) && ebsame(B::min(a, b, c), mn(ma, mn(mb, mc))) &&
                    ebsame(B::min(a, b, c, d), mn(mn(ma, mb), mn(mc, md))),
           base + "_min_wrong", "min of " << show(a) << "," << show(b) << "," << show(c) << "," << show(d));
    SCHECK(ctx, ebsame(B::max(a, b), mx(ma, mb)) && ebsame(B::max(a, b, c), mx(ma, mx(mb, mc))) &&
                    ebsame(B::max(a, b, c, d), mx(mx(ma, mb), mx(mc, md))),
           base + "_max_wrong", "max of " << show(a) << "," << show(b) << "," << show(c) << "," << show(d));
    EB<N> ab = ebsign(ma) >= 0 ? ma : EB<N>{-ma.inf, ma.inf ? zero : zero - ma.v};
    SCHECK(ctx, ebsame(a.abs(), ab), base + "_abs_wrong", "abs(" << show(a) << ") = " << show(a.abs()));
  }
  R().cls(std::string("op:") + base);
  R().cls(std::string("shape:") + base + (ma.inf ? ":infinite" : ":finite"));
  if (ma.inf || mb.inf)
    ctx.nontrivial = true;
}

// ==== interval<q_number>: soundness of arithmetic and lattice operations ======================
static bool qmember(const qitv &a, const Q &n) {
  if (a.is_bottom()) return false;
  qbound b(n);
  return a.lb() <= b && b <= a.ub();
}
static qitv gen_qitv(Tape &t) {
  switch (t.pick(9)) {
  case 0: return qitv(genq(t));
  case 1: return qitv::top();
  case 2: return qitv::bottom();
  case 3: return qitv(qbound(genq(t)), qbound::plus_infinity());
  case 4: return qitv(qbound::minus_infinity(), qbound(genq(t)));
  case 5: { // zero crossing
    Q p = genq(t), q = genq(t);
    if (p < Q(Z(0))) p = -p;
    if (q < Q(Z(0))) q = -q;
    return qitv(qbound(-p - Q(Z(1), Z(3))), qbound(q + Q(Z(1), Z(2))));
  }
  default: {
    Q a = genq(t), b = genq(t);
    return a <= b ? qitv(qbound(a), qbound(b)) : qitv(qbound(b), qbound(a));
  }
  }
}
static std::vector<Q> qmembers(const qitv &a, Tape &t) {
  std::vector<Q> cand, v;
  if (a.is_bottom()) return v;
  bool lf = a.lb().is_finite(), uf = a.ub().is_finite();
  Q big(BIG40()), third(Z(1), Z(3));
  if (lf) cand.push_back(*a.lb().number());
  if (uf) cand.push_back(*a.ub().number());
  if (lf && uf) {
    Q l = *a.lb().number(), u = *a.ub().number();
    cand.push_back((l + u) / Q(Z(2)));
    cand.push_back(l + (u - l) * Q(Z((int64_t)t.pick(8)), Z(7)));
  }
  if (!uf) {
    Q base = lf ? *a.lb().number() : Q(Z(0));
    cand.push_back(base + big);
    cand.push_back(base + third);
  }
  if (!lf) {
    Q base = uf ? *a.ub().number() : Q(Z(0));
    cand.push_back(base - big);
    cand.push_back(base - third);
  }
  cand.push_back(Q(Z(0)));
  cand.push_back(Q(Z(1)));
  cand.push_back(Q(Z(-1)));
  cand.push_back(Q(Z(1), Z(2)));
  cand.push_back(Q(Z(-1), Z(3)));
  cand.push_back(genq(t));
  for (auto &c : cand) {
    if (!qmember(a, c)) continue;
    bool dup = false;
    for (auto &o : v)
      if (o == c) dup = true;
    if (!dup && v.size() < 8) v.push_back(c);
  }
  return v;
}
static void interval_q_round(Tape &t, CaseCtx &ctx) {
  static const char *names[] = {"add", "sub", "mul", "div", "neg", "join", "meet", "widening", "narrowing",
                                "leq", "eq", "widening_thresholds", "half_lines", "trim"};
  unsigned k = t.pick(14);
  qitv a = gen_qitv(t);
  qitv b = gen_qitv(t);
  if (k >= 5 && k <= 11) {
    switch (t.pick(4)) {
    case 1: b = a; break;
    case 2: b = a | b; break;
    case 3: b = a & b; break;
    default: break;
    }
  }
  std::string base = std::string("interval_q_") + names[k];
  ctx.log << base << " a=" << show(a) << " b=" << show(b);
  ctx.mixs(base + show(a) + "#" + show(b));
  std::vector<Q> xs = qmembers(a, t), ys = qmembers(b, t);
  unsigned checks = 0;
  Q zero(Z(0));
  auto contains = [&](const qitv &r, const Q &c, const std::string &tag, const Q *x, const Q *y) {
    checks++;
    SCHECK(ctx, qmember(r, c), tag,
           names[k] << " of " << show(a) << " , " << show(b) << " = " << show(r) << " does not contain " << show(c)
                    << (x ? " from x=" + show(*x) : std::string()) << (y ? " y=" + show(*y) : std::string()));
  };
  try {
    if (k <= 3) {
      qitv r = qitv::top();
      bool alt = t.flag();
      switch (k) {
      case 0: if (alt) { r = a; r += b; } else r = a + b; break;
      case 1: if (alt) { r = a; r -= b; } else r = a - b; break;
      case 2: if (alt) { r = a; r *= b; } else r = a * b; break;
      default: if (alt) { r = a; r /= b; } else r = a / b; break;
      }
      ctx.log << " r=" << show(r) << "\n";
      for (auto &x : xs)
        for (auto &y : ys) {
          if (k == 3 && y == zero) continue;
          Q c = k == 0 ? x + y : (k == 1 ? x - y : (k == 2 ? x * y : x / y));
          contains(r, c, base + "_unsound" + ((k == 3 && (b.lb().is_infinite() || b.ub().is_infinite())) ? "_infdivisor" : ""), &x, &y);
        }
    } else if (k == 4) {
      qitv r = -a;
      ctx.log << " r=" << show(r) << "\n";
      for (auto &x : xs) contains(r, -x, base + "_unsound", &x, nullptr);
    } else if (k == 5 || k == 7 || k == 11) {
      qitv r = qitv::top();
      if (k == 5) r = a | b;
      else if (k == 7) r = a || b;
      else {
        crab::thresholds<Q> ts(t.flag() ? 4 : 50);
        unsigned n = t.pick(5);
        for (unsigned i = 0; i < n; i++) ts.add(qbound(genq(t)));
        r = a.widening_thresholds(b, ts);
      }
      ctx.log << " r=" << show(r) << "\n";
      for (auto &x : xs) contains(r, x, base + "_unsound", &x, nullptr);
      for (auto &y : ys) contains(r, y, base + "_unsound", nullptr, &y);
    } else if (k == 6) {
      qitv r = a & b;
      ctx.log << " r=" << show(r) << "\n";
      for (auto &x : xs) if (qmember(b, x)) contains(r, x, base + "_unsound", &x, nullptr);
      for (auto &y : ys) if (qmember(a, y)) contains(r, y, base + "_unsound", nullptr, &y);
    } else if (k == 8) {
      bool pre = b <= a;
      for (auto &y : ys) if (!qmember(a, y)) pre = false;
      qitv r = a && b;
      ctx.log << " r=" << show(r) << " pre=" << pre << "\n";
      if (pre) for (auto &y : ys) contains(r, y, base + "_unsound", nullptr, &y);
    } else if (k == 9) {
      bool r = a <= b;
      ctx.log << " r=" << r << "\n";
      if (r) for (auto &x : xs) contains(b, x, base + "_unsound", &x, nullptr);
      checks += 3;
      SCHECK(ctx, a <= a, base + "_not_reflexive", show(a));
      SCHECK(ctx, qitv::bottom() <= a, base + "_bottom_not_least", show(a));
      SCHECK(ctx, a <= qitv::top(), base + "_top_not_greatest", show(a));
    } else if (k == 10) {
      bool r = a == b;
      ctx.log << " r=" << r << "\n";
      if (r) {
        for (auto &x : xs) contains(b, x, base + "_unsound", &x, nullptr);
        for (auto &y : ys) contains(a, y, base + "_unsound", nullptr, &y);
      }
      checks++;
      SCHECK(ctx, a == a, base + "_not_reflexive", show(a));
    } else if (k == 12) {
      if (!a.is_bottom()) {
        qitv lo = t.flag() ? a.lower_half_line() : ikos::linear_interval_solver_impl::lower_half_line(a, true);
        qitv up = t.flag() ? a.upper_half_line() : ikos::linear_interval_solver_impl::upper_half_line(a, true);
        ctx.log << " lower=" << show(lo) << " upper=" << show(up) << "\n";
        for (auto &x : xs) {
          contains(lo, x, "interval_q_lower_half_line_unsound", &x, nullptr);
          contains(lo, x - Q(Z(7), Z(3)), "interval_q_lower_half_line_unsound", &x, nullptr);
          contains(up, x, "interval_q_upper_half_line_unsound", &x, nullptr);
          contains(up, x + Q(Z(7), Z(3)), "interval_q_upper_half_line_unsound", &x, nullptr);
        }
      } else
        ctx.log << "\n";
    } else {
      qitv r = ikos::linear_interval_solver_impl::trim_interval(a, b);
      ctx.log << " r=" << show(r) << "\n";
      for (auto &x : xs) if (!qmember(b, x)) contains(r, x, base + "_unsound", &x, nullptr);
    }
  } catch (const verif::crab_error &e) {
    R().diag("crab_error:" + base);
    ctx.log << " CRAB_ERROR: " << e.what() << "\n";
    return;
  }
  R().cls("membership_checks", checks);
  R().cls(std::string("op:") + base);
  auto shape = [](const qitv &i) -> std::string {
    if (i.is_bottom()) return "bottom";
    if (i.is_top()) return "top";
    if (i.singleton()) return "singleton";
    if (i.lb().is_infinite() || i.ub().is_infinite()) return "half_infinite";
    return "finite";
  };
  R().cls("shape:interval_q:" + shape(a));
  R().cls("shape:interval_q:" + shape(b));
  bool unary = (k == 4 || k == 12);
  if (!a.is_top() && !a.is_bottom() && (unary || (!b.is_top() && !b.is_bottom())) && checks > 0) {
    ctx.nontrivial = true;
    R().cls("nontrivial:interval_q");
  }
}

// ==== small_range: abstract counter of a set of variables =======================================
// concrete values = finite sets of variables (header comment of small_range.hpp):
//  0 : {} ; 1(V) : {V} ; [0,1](V) : {} or {V} ; [1,+oo] : non-empty ; [0,+oo] : any
namespace {
struct VarId {
  ikos::index_t i;
  ikos::index_t index() const { return i; }
};
struct SRDecoded {
  int kind; // 0 bottom, 1 zero, 2 one(V), 3 zeroOrOne(V), 4 zeroOrMore, 5 oneOrMore, -1 unknown
  uint64_t var;
};
} // namespace
static SRDecoded sr_decode(const srange &a) {
  std::string s = show(a);
  SRDecoded d{-1, 0};
  if (s == "_|_") d.kind = 0;
  else if (s == "[0,0]") d.kind = 1;
  else if (s == "[0,+oo]") d.kind = 4;
  else if (s == "[1,+oo]") d.kind = 5;
  else if (s.compare(0, 6, "[1,1](") == 0) { d.kind = 2; d.var = std::stoull(s.substr(6)); }
  else if (s.compare(0, 6, "[0,1](") == 0) { d.kind = 3; d.var = std::stoull(s.substr(6)); }
  return d;
}
// S = set of variable indices
static bool sr_member(const srange &a, const std::vector<uint64_t> &S) {
  SRDecoded d = sr_decode(a);
  switch (d.kind) {
  case 1: return S.empty();
  case 2: return S.size() == 1 && S[0] == d.var;
  case 3: return S.empty() || (S.size() == 1 && S[0] == d.var);
  case 4: return true;
  case 5: return !S.empty();
  default: return false;
  }
}
static void small_range_round(Tape &t, CaseCtx &ctx) {
  uint64_t basev = t.pick(3) == 0 ? 0 : (t.flag() ? 100 : ((uint64_t)1 << 33));
  auto var = [&](unsigned k) { return VarId{basev + 1 + k}; };
  std::function<srange(unsigned)> gen = [&](unsigned depth) -> srange {
    switch (t.pick(depth ? 9 : 7)) {
    case 0: return srange::top();
    case 1: return srange::zero();
    case 2: { srange z = srange::zero(); z.increment(var(t.pick(3))); return z; }
    case 3: { srange z = srange::zero(); z.increment(var(t.pick(3))); return srange::zero() | z; }
    case 4: return srange::oneOrMore();
    case 5: return srange::bottom();
    case 6: return srange();
    case 7: { srange x = gen(depth - 1); srange y = gen(depth - 1); return x | y; }
    default: { srange x = gen(depth - 1); srange y = gen(depth - 1); return x & y; }
    }
  };
  srange a = gen(2), b = gen(2);
  unsigned k = t.pick(7);
  static const char *names[] = {"join", "meet", "widening", "narrowing", "leq", "eq", "increment"};
  std::string base = std::string("small_range_") + names[k];
  ctx.log << base << " a=" << show(a) << " b=" << show(b);
  ctx.mixs(base + show(a) + "#" + show(b));
  SRDecoded da = sr_decode(a);
  SCHECK(ctx, da.kind >= 0, "small_range_undecodable", show(a));
  SCHECK(ctx, a.is_bottom() == (da.kind == 0) && a.is_top() == (da.kind == 4) && a.is_zero() == (da.kind == 1) &&
                  a.is_one() == (da.kind == 2),
         "small_range_query_inconsistent", show(a));
  // all subsets of the 3 variables
  std::vector<std::vector<uint64_t>> sets;
  for (unsigned m = 0; m < 8; m++) {
    std::vector<uint64_t> S;
    for (unsigned i = 0; i < 3; i++)
      if (m & (1u << i)) S.push_back(var(i).i);
    sets.push_back(S);
  }
  auto sstr = [](const std::vector<uint64_t> &S) {
    std::string s = "{";
    for (auto v : S) s += std::to_string(v) + " ";
    return s + "}";
  };
  unsigned checks = 0;
  try {
    if (k == 0 || k == 2) {
      srange r = k == 0 ? (a | b) : (a || b);
      if (k == 0 && t.flag()) { r = a; r |= b; }
      ctx.log << " r=" << show(r) << "\n";
      for (auto &S : sets)
        if (sr_member(a, S) || sr_member(b, S)) {
          checks++;
          SCHECK(ctx, sr_member(r, S), base + "_unsound", show(a) << " , " << show(b) << " -> " << show(r) << " misses " << sstr(S));
        }
    } else if (k == 1 || k == 3) {
      bool pre = k == 1 || (b <= a);
      if (k == 3)
        for (auto &S : sets)
          if (sr_member(b, S) && !sr_member(a, S)) pre = false;
      srange r = k == 1 ? (a & b) : (a && b);
      ctx.log << " r=" << show(r) << "\n";
      if (pre)
        for (auto &S : sets)
          if (sr_member(a, S) && sr_member(b, S)) {
            checks++;
            SCHECK(ctx, sr_member(r, S), base + "_unsound", show(a) << " , " << show(b) << " -> " << show(r) << " misses " << sstr(S));
          }
    } else if (k == 4) {
      bool r = a <= b;
      ctx.log << " r=" << r << "\n";
      if (r)
        for (auto &S : sets)
          if (sr_member(a, S)) {
            checks++;
            SCHECK(ctx, sr_member(b, S), base + "_unsound", show(a) << " <= " << show(b) << " but " << sstr(S) << " only in the first");
          }
      checks += 3;
      SCHECK(ctx, a <= a, base + "_not_reflexive", show(a));
      SCHECK(ctx, srange::bottom() <= a, base + "_bottom_not_least", show(a));
      SCHECK(ctx, a <= srange::top(), base + "_top_not_greatest", show(a));
    } else if (k == 5) {
      bool r = a == b;
      ctx.log << " r=" << r << "\n";
      if (r)
        for (auto &S : sets) {
          checks++;
          SCHECK(ctx, sr_member(a, S) == sr_member(b, S), base + "_unsound", show(a) << " == " << show(b) << " differ on " << sstr(S));
        }
      checks++;
      SCHECK(ctx, a == a, base + "_not_reflexive", show(a));
    } else {
      VarId v = var(t.pick(3));
      srange r(a);
      srange ret = r.increment(v);
      ctx.log << " v=" << v.i << " r=" << show(r) << "\n";
      for (auto &S : sets)
        if (sr_member(a, S)) {
          std::vector<uint64_t> S2(S);
          bool has = false;
          for (auto x : S2) if (x == v.i) has = true;
          if (!has) S2.push_back(v.i);
          checks++;
          SCHECK(ctx, sr_member(r, S2) && sr_member(ret, S2), base + "_unsound",
                 "increment(" << v.i << ") of " << show(a) << " = " << show(r) << " misses " << sstr(S2));
        }
    }
  } catch (const verif::crab_error &e) {
    R().diag("crab_error:" + base);
    ctx.log << " CRAB_ERROR: " << e.what() << "\n";
    return;
  }
  R().cls("membership_checks", checks);
  R().cls(std::string("op:") + base);
  R().cls("shape:small_range:kind" + std::to_string(da.kind));
  if (!a.is_top() && !a.is_bottom() && (k == 6 || (!b.is_top() && !b.is_bottom())) && checks > 0) {
    ctx.nontrivial = true;
    R().cls("nontrivial:small_range");
  }
}

// ==== boolean_value ======================================================================================
static bool bv_member(const boolv &a, bool v) {
  if (a.is_bottom()) return false;
  if (a.is_top()) return true;
  return v ? a.is_true() : a.is_false();
}
static void boolean_round(Tape &t, CaseCtx &ctx) {
  auto gen = [&]() -> boolv {
    switch (t.pick(5)) {
    case 0: return boolv::get_false();
    case 1: return boolv::get_true();
    case 2: return boolv::top();
    case 3: return boolv::bottom();
    default: return boolv();
    }
  };
  boolv a = gen(), b = gen();
  unsigned k = t.pick(10);
  static const char *names[] = {"and", "or", "xor", "negate", "join", "meet", "widening", "narrowing", "leq", "eq"};
  std::string base = std::string("boolean_") + names[k];
  ctx.log << base << " a=" << show(a) << " b=" << show(b);
  ctx.mixs(base + show(a) + "#" + show(b));
  unsigned checks = 0;
  auto need = [&](const boolv &r, bool v, const char *why) {
    checks++;
    SCHECK(ctx, bv_member(r, v), base + "_unsound", names[k] << " of " << show(a) << " , " << show(b) << " = " << show(r) << " misses " << v << " " << why);
  };
  if (k <= 2) {
    boolv r = k == 0 ? a.And(b) : (k == 1 ? a.Or(b) : a.Xor(b));
    ctx.log << " r=" << show(r) << "\n";
    for (int x = 0; x < 2; x++)
      for (int y = 0; y < 2; y++)
        if (bv_member(a, x) && bv_member(b, y))
          need(r, k == 0 ? (x && y) : (k == 1 ? (x || y) : (x != y)), "");
  } else if (k == 3) {
    boolv r = a.Negate();
    ctx.log << " r=" << show(r) << "\n";
    for (int x = 0; x < 2; x++)
      if (bv_member(a, x)) need(r, !x, "");
  } else if (k == 4 || k == 6) {
    boolv r = k == 4 ? (a | b) : (a || b);
    if (k == 4 && t.flag()) { r = a; r |= b; }
    ctx.log << " r=" << show(r) << "\n";
    for (int x = 0; x < 2; x++)
      if (bv_member(a, x) || bv_member(b, x)) need(r, x, "(member of an operand)");
  } else if (k == 5 || k == 7) {
    bool pre = k == 5 || (b <= a);
    for (int x = 0; x < 2; x++)
      if (bv_member(b, x) && !bv_member(a, x) && k == 7) pre = false;
    boolv r = k == 5 ? (a & b) : (a && b);
    ctx.log << " r=" << show(r) << "\n";
    if (pre)
      for (int x = 0; x < 2; x++)
        if (bv_member(a, x) && bv_member(b, x)) need(r, x, "(member of both)");
  } else if (k == 8) {
    bool r = a <= b;
    ctx.log << " r=" << r << "\n";
    if (r)
      for (int x = 0; x < 2; x++)
        if (bv_member(a, x)) need(b, x, "(a<=b)");
    checks += 3;
    SCHECK(ctx, a <= a, base + "_not_reflexive", show(a));
    SCHECK(ctx, boolv::bottom() <= a, base + "_bottom_not_least", show(a));
    SCHECK(ctx, a <= boolv::top(), base + "_top_not_greatest", show(a));
  } else {
    bool r = a == b;
    ctx.log << " r=" << r << "\n";
    if (r)
      for (int x = 0; x < 2; x++) {
        checks++;
        SCHECK(ctx, bv_member(a, x) == bv_member(b, x), base + "_unsound", show(a) << " == " << show(b));
      }
    checks++;
    SCHECK(ctx, a == a, base + "_not_reflexive", show(a));
  }
  R().cls("membership_checks", checks);
  R().cls(std::string("op:") + base);
  if (!a.is_top() && !a.is_bottom() && (k == 3 || (!b.is_top() && !b.is_bottom())) && checks > 0) {
    ctx.nontrivial = true;
    R().cls("nontrivial:boolean");
  }
}

// ==== entry point ==========================================================================================
template <class C> static void class_round(Tape &t, CaseCtx &ctx) {
  R().cls(std::string("cls:") + C::name());
  if (t.pick(3) == 2)
    lattice_round<C>(t, ctx);
  else
    arith_round<C>(t, ctx);
}

namespace verif {
void run_case(const uint8_t *data, size_t size, CaseCtx &ctx) {
  Tape t(data, size);
  unsigned rounds = 1 + t.pick(3);
  for (unsigned i = 0; i < rounds; i++) {
    switch (t.pick(20)) {
    case 0: case 1: case 2: class_round<IntervalZ>(t, ctx); break;
    case 3: case 4: R().cls("cls:interval_z"); interval_z_special(t, ctx); break;
    case 5: case 6: case 7: class_round<Congruence>(t, ctx); break;
    case 8: case 9: class_round<IntervalCongruence>(t, ctx); break;
    case 10: case 11: class_round<Sign>(t, ctx); break;
    case 12: class_round<Constant>(t, ctx); break;
    case 13: case 14: class_round<DisInterval>(t, ctx); break;
    case 15: R().cls("cls:dis_interval"); dis_interval_special(t, ctx); break;
    case 16: R().cls("cls:interval_q"); interval_q_round(t, ctx); break;
    case 17:
      if (t.flag()) { R().cls("cls:bound_q"); bound_round<Q>(t, ctx, "bound_q"); }
      else { R().cls("cls:bound_z"); bound_round<Z>(t, ctx, "bound_z"); }
      break;
    case 18:
      if (t.flag()) { R().cls("cls:small_range"); small_range_round(t, ctx); }
      else { R().cls("cls:boolean"); boolean_round(t, ctx); }
      break;
    default: R().cls("cls:conversions"); conversions_round(t, ctx); break;
    }
  }
}
} // namespace verif
