// C12 -- intervals, zones and octagons are exact on their own constraint
// language; liftings never report looser bounds than their base domain.
//
// Part A (model based). A value is modelled by the exact set S of integer
// points of the box [-B,B]^n it describes plus a set of "free" variables
// (never constrained / forgotten: unbounded, the model is S x Z for them; S is
// then a cylinder along that coordinate). Operations: assume (filter), meet
// (intersection), forget (project + free), join (best abstraction of the union
// in the domain's language, by brute force), copy. After every step:
//   is_bottom() <=> S empty; entails(c) <=> all points of S satisfy c for the
//   constraints c of the language; at(v) = exact [min,max]; operator<= agrees
//   with inclusion of the models.
// Part B (differential). Straight-line numerical histories on a base domain and
// on its boolean / array / region / product liftings: lifted.at(v) <= base.at(v).
//
// Variants (compile-time split, see Makefile): none = everything;
//   -itv, -sdbm, -dbm, -soct, -lift = only that family.
#include "core/report.hpp"
#include "core/tape.hpp"

#if !defined(VERIF_VARIANT_itv) && !defined(VERIF_VARIANT_sdbm) && !defined(VERIF_VARIANT_dbm) &&                      \
    !defined(VERIF_VARIANT_soct) && !defined(VERIF_VARIANT_lift) && !defined(VERIF_VARIANT_exact)
#define C12_ALL 1
#endif
#if defined(C12_ALL) || defined(VERIF_VARIANT_exact)
#define C12_ITV 1
#define C12_SDBM 1
#define C12_DBM 1
#define C12_SOCT 1
#endif
#if defined(C12_ALL) || defined(VERIF_VARIANT_lift)
#define C12_LIFT 1
#endif
#if defined(VERIF_VARIANT_itv)
#define C12_ITV 1
#endif
#if defined(VERIF_VARIANT_sdbm)
#define C12_SDBM 1
#endif
#if defined(VERIF_VARIANT_dbm)
#define C12_DBM 1
#endif
#if defined(VERIF_VARIANT_soct)
#define C12_SOCT 1
#endif

#include <crab/domains/abstract_domain_params.hpp>
#include <cassert>
#include <csetjmp>
#include <csignal>
#include <cmath>
#include <cstdlib>
#include <cstring>
#include <crab/domains/graphs/graph_config.hpp>
#include <crab/domains/intervals.hpp>
#include <crab/types/linear_constraints.hpp>
#include <crab/types/variable.hpp>
#include <crab/types/varname_factory.hpp>
#if defined(C12_SDBM) || defined(C12_LIFT)
#include <crab/domains/split_dbm.hpp>
#endif
#if defined(C12_DBM)
#include <crab/domains/sparse_dbm.hpp>
#endif
#if defined(C12_SOCT)
#include <crab/domains/split_oct.hpp>
#endif
#if defined(C12_LIFT)
#include <crab/domains/array_adaptive.hpp>
#include <crab/domains/array_smashing.hpp>
#include <crab/domains/combined_domains.hpp>
#include <crab/domains/flat_boolean_domain.hpp>
#include <crab/domains/region_domain.hpp>
#endif

#include <array>
#include <bitset>
#include <functional>
#include <memory>
#include <set>
#include <string>
#include <vector>

namespace crab {
template <> class variable_name_traits<std::string> {
public:
  static std::string to_string(std::string varname) { return varname; }
};
} // namespace crab

using namespace verif;
using ikos::z_number;
namespace cd = crab::domains;

namespace verif {
const char *harness_name() { return "h_exact"; }
} // namespace verif

static const char *P = "C12";
static std::string g_where; // "<mode>_<op>" of the crab operation in progress

// VERIF_KNOWN entries may contain '*' (any substring). A failing tag that
// matches such a pattern is reported under the pattern so that the core
// recognises it as a known finding.
static bool glob(const char *pat, const char *str) {
  if (!*pat)
    return !*str;
  if (*pat == '*') {
    for (const char *q = str;; q++) {
      if (glob(pat + 1, q))
        return true;
      if (!*q)
        return false;
    }
  }
  return *pat == *str && glob(pat + 1, str + 1);
}
static std::string known_alias(const std::string &tag) {
  for (auto &k : R().active_known)
    if (k.find('*') != std::string::npos && glob(k.c_str(), tag.c_str()))
      return k;
  return tag;
}
#define CHECK12(ctx, cond, cls, msgexpr)                                                                               \
  do {                                                                                                                 \
    if ((ctx).want(P)) {                                                                                               \
      ::verif::R().checks++;                                                                                           \
      if (!(cond)) {                                                                                                   \
        std::ostringstream _os;                                                                                        \
        _os << "[" << (cls) << "] " << msgexpr;                                                                        \
        throw ::verif::Fail{P, known_alias(cls), _os.str()};                                                           \
      }                                                                                                                \
    }                                                                                                                  \
  } while (0)

using vfac_t = crab::var_factory_impl::variable_factory<std::string>;
using varname_t = vfac_t::varname_t;
using var_t = crab::variable<z_number, varname_t>;
using lin_t = ikos::linear_expression<z_number, varname_t>;
using cst_t = ikos::linear_constraint<z_number, varname_t>;
using csts_t = ikos::linear_constraint_system<z_number, varname_t>;
using itv_t = ikos::interval<z_number>;
using bound_t = ikos::bound<z_number>;

template <class T> static std::string to_str(const T &x) {
  crab::crab_string_os os;
  os << x;
  return os.str();
}

// ---------------------------------------------------------------------------
// type-erased abstract value (one wrapper for every crab domain used here)
// ---------------------------------------------------------------------------
struct Abs {
  virtual ~Abs() {}
  virtual std::unique_ptr<Abs> clone() const = 0;  // copy constructor
  virtual void assign_from(const Abs &o) = 0;      // operator=
  virtual void add(const csts_t &c) = 0;           // operator+=
  virtual std::unique_ptr<Abs> join(const Abs &o) const = 0;
  virtual void join_in(const Abs &o) = 0;
  virtual std::unique_ptr<Abs> meet(const Abs &o) const = 0;
  virtual void meet_in(const Abs &o) = 0;
  virtual bool leq(const Abs &o) const = 0;
  virtual void forget1(const var_t &v) = 0;
  virtual void forgetv(const std::vector<var_t> &v) = 0;
  virtual void project(const std::vector<var_t> &v) = 0;
  virtual void normalize() = 0;
  virtual void minimize() = 0;
  virtual bool is_bottom() const = 0;
  virtual bool is_top() const = 0;
  virtual bool entails(const cst_t &c) const = 0;
  virtual itv_t at(const var_t &v) const = 0;
  virtual itv_t at_mut(const var_t &v) = 0; // operator[] (may normalize)
  virtual void assign(const var_t &x, const lin_t &e) = 0;
  virtual void apply(cd::arith_operation_t op, const var_t &x, const var_t &y, const var_t &z) = 0;
  virtual void applyk(cd::arith_operation_t op, const var_t &x, const var_t &y, const z_number &k) = 0;
  virtual std::string str() const = 0;
};

template <class D> struct AbsT final : Abs {
  D d;
  AbsT() : d() {}
  explicit AbsT(const D &x) : d(x) {}
  static const D &of(const Abs &o) { return static_cast<const AbsT<D> &>(o).d; }
  std::unique_ptr<Abs> clone() const override { return std::unique_ptr<Abs>(new AbsT<D>(d)); }
  void assign_from(const Abs &o) override { d = of(o); }
  void add(const csts_t &c) override { d += c; }
  std::unique_ptr<Abs> join(const Abs &o) const override { return std::unique_ptr<Abs>(new AbsT<D>(d | of(o))); }
  void join_in(const Abs &o) override { d |= of(o); }
  std::unique_ptr<Abs> meet(const Abs &o) const override { return std::unique_ptr<Abs>(new AbsT<D>(d & of(o))); }
  void meet_in(const Abs &o) override { d &= of(o); }
  bool leq(const Abs &o) const override { return d <= of(o); }
  void forget1(const var_t &v) override { d -= v; }
  void forgetv(const std::vector<var_t> &v) override { d.forget(v); }
  void project(const std::vector<var_t> &v) override { d.project(v); }
  void normalize() override { d.normalize(); }
  void minimize() override { d.minimize(); }
  bool is_bottom() const override { return d.is_bottom(); }
  bool is_top() const override { return d.is_top(); }
  bool entails(const cst_t &c) const override { return d.entails(c); }
  itv_t at(const var_t &v) const override { return d.at(v); }
  itv_t at_mut(const var_t &v) override { return d[v]; }
  void assign(const var_t &x, const lin_t &e) override { d.assign(x, e); }
  void apply(cd::arith_operation_t op, const var_t &x, const var_t &y, const var_t &z) override {
    d.apply(op, x, y, z);
  }
  void applyk(cd::arith_operation_t op, const var_t &x, const var_t &y, const z_number &k) override {
    d.apply(op, x, y, k);
  }
  std::string str() const override { return to_str(d); }
};
typedef std::unique_ptr<Abs> abs_p;

// ---------------------------------------------------------------------------
// domain roster
// ---------------------------------------------------------------------------
namespace G = crab::domains::DBM_impl;
using itv_dom_t = ikos::interval_domain<z_number, varname_t>;

enum Lang { L_ITV = 0, L_ZONE = 1, L_OCT = 2 };
struct ModeDesc {
  const char *name;
  Lang lang;
  abs_p (*make)();
};
template <class D> static abs_p make_top() { return abs_p(new AbsT<D>()); }

static const ModeDesc MODES[] = {
#if defined(C12_ITV)
    {"itv", L_ITV, &make_top<itv_dom_t>},
#endif
#if defined(C12_SDBM)
    {"sdbm_as_i64", L_ZONE, &make_top<cd::split_dbm_domain<z_number, varname_t, G::DefaultParams<z_number, G::adapt_ss>>>},
    {"sdbm_ss_i64", L_ZONE, &make_top<cd::split_dbm_domain<z_number, varname_t, G::DefaultParams<z_number, G::ss>>>},
    {"sdbm_pt_i64", L_ZONE, &make_top<cd::split_dbm_domain<z_number, varname_t, G::DefaultParams<z_number, G::pt>>>},
    {"sdbm_ht_i64", L_ZONE, &make_top<cd::split_dbm_domain<z_number, varname_t, G::DefaultParams<z_number, G::ht>>>},
    {"sdbm_as_safe", L_ZONE,
     &make_top<cd::split_dbm_domain<z_number, varname_t, G::SafeInt64DefaultParams<z_number, G::adapt_ss>>>},
    {"sdbm_ss_z", L_ZONE, &make_top<cd::split_dbm_domain<z_number, varname_t, G::BigNumDefaultParams<z_number, G::ss>>>},
#endif
#if defined(C12_DBM)
    {"dbm_as_i64", L_ZONE, &make_top<cd::sparse_dbm_domain<z_number, varname_t, G::DefaultParams<z_number, G::adapt_ss>>>},
    {"dbm_pt_safe", L_ZONE,
     &make_top<cd::sparse_dbm_domain<z_number, varname_t, G::SafeInt64DefaultParams<z_number, G::pt>>>},
    {"dbm_ss_z", L_ZONE, &make_top<cd::sparse_dbm_domain<z_number, varname_t, G::BigNumDefaultParams<z_number, G::ss>>>},
#endif
#if defined(C12_SOCT)
    {"soct_as_i64", L_OCT, &make_top<cd::split_oct_domain<z_number, varname_t, G::DefaultParams<z_number, G::adapt_ss>>>},
    {"soct_ss_i64", L_OCT, &make_top<cd::split_oct_domain<z_number, varname_t, G::DefaultParams<z_number, G::ss>>>},
    {"soct_pt_i64", L_OCT, &make_top<cd::split_oct_domain<z_number, varname_t, G::DefaultParams<z_number, G::pt>>>},
    {"soct_ht_i64", L_OCT, &make_top<cd::split_oct_domain<z_number, varname_t, G::DefaultParams<z_number, G::ht>>>},
#if defined(C12_TRY_SOCT_SAFE)
    {"soct_as_safe", L_OCT,
     &make_top<cd::split_oct_domain<z_number, varname_t, G::SafeInt64DefaultParams<z_number, G::adapt_ss>>>},
#endif
#endif
    {nullptr, L_ITV, nullptr} // sentinel
};
static const unsigned NMODES = sizeof(MODES) / sizeof(MODES[0]) - 1;

// ---------------------------------------------------------------------------
// the model
// ---------------------------------------------------------------------------
static const int MAXV = 4;
static const int MAXPTS = 6561; // 9^4
typedef std::bitset<MAXPTS> pts_t;

struct Shape {
  int8_t a[MAXV]; // unit coefficients
  int nv;         // number of variables (1 or 2)
  int v0, v1;     // the variables (v1 = -1 when nv == 1)
};

struct Geo {
  int n, B, W, N;
  int stride[MAXV];
  std::vector<std::array<int8_t, MAXV>> co; // coordinates of every point
  std::vector<Shape> sh;                    // constraint shapes of the language
  std::vector<int> negof;                   // index of the opposite shape (-e)
  std::vector<std::vector<int8_t>> lhs;     // value of every shape on every point
  pts_t all;

  Geo(int n_, int B_, Lang lang) : n(n_), B(B_), W(2 * B_ + 1) {
    N = 1;
    for (int i = 0; i < n; i++) {
      stride[i] = N;
      N *= W;
    }
    co.resize(N);
    for (int p = 0; p < N; p++) {
      int r = p;
      for (int i = 0; i < MAXV; i++)
        co[p][i] = 0;
      for (int i = 0; i < n; i++) {
        co[p][i] = (int8_t)(r % W - B);
        r /= W;
      }
      all.set(p);
    }
    auto push = [&](int i, int si, int j, int sj) {
      Shape s;
      for (int k = 0; k < MAXV; k++)
        s.a[k] = 0;
      s.a[i] = (int8_t)si;
      s.nv = 1;
      s.v0 = i;
      s.v1 = -1;
      if (j >= 0) {
        s.a[j] = (int8_t)sj;
        s.nv = 2;
        s.v1 = j;
      }
      sh.push_back(s);
    };
    for (int i = 0; i < n; i++) {
      push(i, 1, -1, 0);
      push(i, -1, -1, 0);
    }
    if (lang == L_ZONE) {
      for (int i = 0; i < n; i++)
        for (int j = 0; j < n; j++)
          if (i != j)
            push(i, 1, j, -1);
    } else if (lang == L_OCT) {
      for (int i = 0; i < n; i++)
        for (int j = i + 1; j < n; j++) {
          push(i, 1, j, -1);
          push(i, -1, j, 1);
          push(i, 1, j, 1);
          push(i, -1, j, -1);
        }
    }
    lhs.resize(sh.size());
    negof.assign(sh.size(), -1);
    for (size_t s = 0; s < sh.size(); s++) {
      lhs[s].resize(N);
      for (int p = 0; p < N; p++) {
        int v = 0;
        for (int i = 0; i < n; i++)
          v += sh[s].a[i] * co[p][i];
        lhs[s][p] = (int8_t)v;
      }
      for (size_t s2 = 0; s2 < sh.size(); s2++) {
        bool opp = true;
        for (int i = 0; i < MAXV; i++)
          if (sh[s].a[i] != -sh[s2].a[i])
            opp = false;
        if (opp)
          negof[s] = (int)s2;
      }
    }
  }
  pts_t cyl(const pts_t &S, int v) const { // cylinder of S along coordinate v
    pts_t r;
    for (size_t p = S._Find_first(); p < (size_t)N; p = S._Find_next(p)) {
      if (r.test(p))
        continue;
      size_t base = p - (size_t)(co[p][v] + B) * stride[v];
      for (int j = 0; j < W; j++)
        r.set(base + (size_t)j * stride[v]);
    }
    return r;
  }
  void filter(pts_t &S, int s, int k) const { // keep the points with shape s <= k
    for (size_t p = S._Find_first(); p < (size_t)N; p = S._Find_next(p))
      if (lhs[s][p] > k)
        S.reset(p);
  }
  int tight(const pts_t &S, int s) const { // max of shape s over S (S not empty)
    int m = -1000;
    for (size_t p = S._Find_first(); p < (size_t)N; p = S._Find_next(p))
      if (lhs[s][p] > m)
        m = lhs[s][p];
    return m;
  }
};

struct Model {
  pts_t S;
  bool fr[MAXV];
  int ncst = 0;                       // decoded (non-box) constraints in the history
  unsigned varmask = 0;               // variables constrained in the history
  std::set<std::pair<int, int>> added; // (shape, k) syntactically added in the history
  bool empty() const { return S.none(); }
};

static bool shape_free(const Shape &s, const bool *fr) { return fr[s.v0] || (s.nv == 2 && fr[s.v1]); }

static void merge_hist(Model &r, const Model &a, const Model &b) {
  r.ncst = a.ncst + b.ncst;
  r.varmask = a.varmask | b.varmask;
  r.added = a.added;
  r.added.insert(b.added.begin(), b.added.end());
}

static Model model_join(const Geo &g, const Model &a, const Model &b) {
  Model r;
  if (a.empty()) {
    r = b;
    merge_hist(r, a, b);
    return r;
  }
  if (b.empty()) {
    r = a;
    merge_hist(r, a, b);
    return r;
  }
  pts_t ua = a.S, ub = b.S;
  for (int v = 0; v < g.n; v++) {
    r.fr[v] = a.fr[v] || b.fr[v];
    if (r.fr[v] && !a.fr[v])
      ua = g.cyl(ua, v);
    if (r.fr[v] && !b.fr[v])
      ub = g.cyl(ub, v);
  }
  for (int v = g.n; v < MAXV; v++)
    r.fr[v] = true;
  pts_t U = ua | ub;
  r.S = g.all;
  for (size_t s = 0; s < g.sh.size(); s++) {
    if (shape_free(g.sh[s], r.fr))
      continue;
    g.filter(r.S, (int)s, g.tight(U, (int)s));
  }
  merge_hist(r, a, b);
  return r;
}
static Model model_meet(const Geo &g, const Model &a, const Model &b) {
  Model r;
  for (int v = 0; v < MAXV; v++)
    r.fr[v] = a.fr[v] && b.fr[v];
  r.S = a.S & b.S;
  merge_hist(r, a, b);
  return r;
}
static void model_forget(const Geo &g, Model &m, int v) {
  if (!m.fr[v])
    m.S = g.cyl(m.S, v);
  m.fr[v] = true;
}
// gamma(a) subseteq gamma(b)
static bool model_incl(const Geo &g, const Model &a, const Model &b) {
  if (a.empty())
    return true;
  if (b.empty())
    return false;
  for (int v = 0; v < g.n; v++)
    if (a.fr[v] && !b.fr[v])
      return false;
  return (a.S & ~b.S).none();
}

// ---------------------------------------------------------------------------
// rational octagon closure (classifier only): what can be derived from the
// tight operands of a step WITHOUT propagating integer tightening. Entries are
// stored multiplied by 2 so that the strengthening step stays integral.
// node 2i = +x_i, node 2i+1 = -x_i ; m[p][q] bounds v_p - v_q.
// ---------------------------------------------------------------------------
struct RatOct {
  static constexpr long INF = 1L << 40;
  int n = 0;
  long m[2 * MAXV][2 * MAXV];
  bool feasible = true;
  void init(int n_) {
    n = n_;
    for (int p = 0; p < 2 * MAXV; p++)
      for (int q = 0; q < 2 * MAXV; q++)
        m[p][q] = (p == q) ? 0 : INF;
  }
  static void pq(const Shape &s, int &p, int &q) {
    int i = s.v0;
    p = s.a[i] > 0 ? 2 * i : 2 * i + 1;
    if (s.nv == 1)
      q = p ^ 1;
    else {
      int j = s.v1;
      q = s.a[j] > 0 ? 2 * j + 1 : 2 * j;
    }
  }
  void upd(int p, int q, long c) {
    if (c < m[p][q])
      m[p][q] = c;
  }
  void add(const Shape &s, int k) {
    int p, q;
    pq(s, p, q);
    if (s.nv == 1)
      upd(p, q, 2L * (2L * k));
    else {
      upd(p, q, 2L * k);
      upd(q ^ 1, p ^ 1, 2L * k);
    }
  }
  void add_model(const Geo &g, const Model &mo) {
    for (size_t s = 0; s < g.sh.size(); s++)
      if (!shape_free(g.sh[s], mo.fr))
        add(g.sh[s], g.tight(mo.S, (int)s));
  }
  void close() {
    int d = 2 * n;
    for (int r = 0; r < d; r++)
      for (int p = 0; p < d; p++)
        for (int q = 0; q < d; q++)
          if (m[p][r] < INF && m[r][q] < INF && m[p][r] + m[r][q] < m[p][q])
            m[p][q] = m[p][r] + m[r][q];
    for (int p = 0; p < d; p++)
      if (m[p][p] < 0)
        feasible = false;
    if (!feasible)
      return;
    for (int p = 0; p < d; p++)
      for (int q = 0; q < d; q++)
        if (m[p][p ^ 1] < INF && m[q ^ 1][q] < INF) {
          long c = (m[p][p ^ 1] + m[q ^ 1][q]) / 2; // both even (scaled by 2): exact
          if (c < m[p][q])
            m[p][q] = c;
        }
  }
  static long fdiv(long a, long b) { // floor, b > 0
    long q = a / b;
    if ((a % b) != 0 && a < 0)
      q -= 1;
    return q;
  }
  // integer bound derivable for the shape by rational reasoning + final floor
  long bound(const Shape &s) const {
    int p, q;
    pq(s, p, q);
    if (m[p][q] >= INF)
      return INF;
    return s.nv == 1 ? fdiv(m[p][q], 4) : fdiv(m[p][q], 2);
  }
};

// ---------------------------------------------------------------------------
// helpers
// ---------------------------------------------------------------------------
static void reset_params(Tape &t, CaseCtx &ctx) {
  cd::crab_domain_params &pm = cd::crab_domain_params_man::get();
  pm = cd::crab_domain_params(); // all defaults
  // 0-byte = default; bit i set = flip parameter i
  unsigned zb = t.pick(16), ob = t.pick(16);
  cd::zones_domain_params zp(!(zb & 1), !(zb & 2), !(zb & 4), (zb & 8) != 0);
  cd::oct_domain_params op(!(ob & 1), !(ob & 2), !(ob & 4), (ob & 8) != 0);
  pm.update_params(zp);
  pm.update_params(op);
  ctx.log << "params zones{dijkstra=" << !(zb & 1) << " restab=" << !(zb & 2) << " special=" << !(zb & 4)
          << " inline=" << ((zb & 8) != 0) << "} oct{dijkstra=" << !(ob & 1) << " restab=" << !(ob & 2)
          << " special=" << !(ob & 4) << " inline=" << ((ob & 8) != 0) << "}\n";
  if (zb & 8)
    R().cls("param_zones_close_bounds_inline");
  if (!(zb & 1))
    R().cls("param_zones_no_chrome_dijkstra");
}

static std::vector<var_t> make_vars(Tape &t, vfac_t &vfac, int n) {
  // creation order decides the variable indices (= order in patricia trees / vertex maps)
  static const int perms[6][4] = {{0, 1, 2, 3}, {3, 2, 1, 0}, {1, 0, 3, 2}, {2, 0, 3, 1}, {0, 2, 1, 3}, {3, 0, 1, 2}};
  unsigned pi = t.pick(6);
  static const char *names[] = {"x0", "x1", "x2", "x3"};
  for (int i = 0; i < MAXV; i++)
    (void)vfac[names[perms[pi][i]]];
  std::vector<var_t> vars;
  for (int i = 0; i < MAXV; i++)
    vars.push_back(var_t(vfac[names[i]], crab::INT_TYPE, 32));
  (void)n;
  return vars;
}

// Translation of the model: crab variable X_v = x_v + OFF[v] where x_v is the
// model coordinate in [-B,B]. The three languages are translation invariant,
// so the same finite model covers arbitrary (large) constants.
static int64_t OFF[MAXV] = {0, 0, 0, 0};
static int64_t shape_off(const Shape &s) {
  int64_t o = 0;
  for (int i = 0; i < MAXV; i++)
    o += (int64_t)s.a[i] * OFF[i];
  return o;
}
static lin_t shape_expr(const Shape &s, const std::vector<var_t> &x) {
  lin_t e{z_number(0)};
  for (int i = 0; i < MAXV; i++) {
    if (s.a[i] > 0)
      e = e + x[i];
    else if (s.a[i] < 0)
      e = e - x[i];
  }
  return e;
}
// e <= k in one of several syntactic forms (all equivalent over the integers)
static cst_t mk_leq(const Shape &s, const std::vector<var_t> &x, int k0, unsigned form) {
  lin_t e = shape_expr(s, x);
  int64_t k = (int64_t)k0 + shape_off(s);
  switch (form) {
  case 1:
    return e < z_number(k + 1);
  case 2:
    return (-e) >= z_number(-k);
  case 3:
    return (-e) > z_number(-k - 1);
  case 4: { // move the second variable to the right-hand side
    if (s.nv == 2) {
      lin_t l{z_number(0)}, r{z_number(k)};
      l = s.a[s.v0] > 0 ? l + x[s.v0] : l - x[s.v0];
      r = s.a[s.v1] > 0 ? r - x[s.v1] : r + x[s.v1];
      return l <= r;
    }
    return e <= z_number(k);
  }
  default:
    return e <= z_number(k);
  }
}
static cst_t mk_eq(const Shape &s, const std::vector<var_t> &x, int k) {
  return shape_expr(s, x) == z_number((int64_t)k + shape_off(s));
}

static std::string shape_str(const Shape &s) {
  std::string r;
  for (int i = 0; i < MAXV; i++)
    if (s.a[i]) {
      r += s.a[i] > 0 ? (r.empty() ? "" : "+") : "-";
      r += "x" + std::to_string(i);
    }
  return r;
}
static std::string model_str(const Geo &g, const Model &m) {
  std::ostringstream o;
  o << "|S|=" << m.S.count() << " free={";
  for (int v = 0; v < g.n; v++)
    if (m.fr[v])
      o << "x" << v << " ";
  o << "}";
  if (!m.empty()) {
    o << " tight:";
    for (size_t s = 0; s < g.sh.size(); s++)
      if (!shape_free(g.sh[s], m.fr))
        o << " " << shape_str(g.sh[s]) << "<=" << g.tight(m.S, (int)s);
  }
  return o.str();
}

// ---------------------------------------------------------------------------
// Part A
// ---------------------------------------------------------------------------
static bool strict_leq() {
  static int v = -1;
  if (v < 0) {
    const char *e = getenv("C12_STRICT_LEQ");
    v = (e && *e == '1') ? 1 : 0;
  }
  return v == 1;
}
static void run_exact(Tape &t, CaseCtx &ctx, const ModeDesc &md) {
  const Lang lang = md.lang;
  // the parameter close_bounds_inline changes the closure algorithm of
  // split_dbm: it is part of the mode (tag) so that findings stay narrow
  const bool cbi = cd::crab_domain_params_man::get().zones_close_bounds_inline() &&
                   std::string(md.name).compare(0, 5, "sdbm_") == 0;
  std::string mode = std::string(md.name) + (cbi ? "_cbi" : "");
  // likewise the closure algorithm used by meet (chrome_dijkstra off = Johnson)
  if ((lang == L_ZONE && !cd::crab_domain_params_man::get().zones_chrome_dijkstra()) ||
      (lang == L_OCT && !cd::crab_domain_params_man::get().oct_chrome_dijkstra()))
    mode += "_nodij";
  int n = 2 + (int)t.pick(3);
  int B = 1 + (int)t.pick(4);
  // (tail choices) relational emphasis, for half of the cases of a relational language: four
  // variables, two-variable shapes preferred in assume, more meets -- closure after a meet is
  // where long alternating paths through both operands matter
  const unsigned remph = t.tail_u8();
  const bool rel_mode = lang != L_ITV && (remph & 1);
  if (rel_mode) {
    if (remph & 2)
      n = MAXV;
    if (remph & 4)
      B = 3 + (int)((remph >> 3) & 1);
    R().cls("relational_emphasis");
  }
  Geo g(n, B, lang);
  static const uint64_t starts[] = {1, 2, 7, 64, 255, 1000, 65535, 1u << 20};
  vfac_t vfac((ikos::index_t)starts[t.pick(8)]);
  std::vector<var_t> x = make_vars(t, vfac, n);
  {
    static const int64_t pool[] = {0,
                                   (1L << 24) + 1,
                                   -((1L << 24) + 3),
                                   (1L << 26) + 3,
                                   (1L << 31) - 1,
                                   -(1L << 31),
                                   (1L << 33) + 5,
                                   (1L << 40) + 1,
                                   -((1L << 25) + 1),
                                   1000,
                                   -7,
                                   (1L << 27) + 7};
    unsigned scheme = t.pick(8);
    int64_t same = pool[t.pick(12)];
    for (int v = 0; v < MAXV; v++) {
      if (scheme <= 4)
        OFF[v] = 0;
      else if (scheme == 5)
        OFF[v] = t.small_int(10);
      else if (scheme == 6)
        OFF[v] = pool[t.pick(12)];
      else
        OFF[v] = same;
    }
    R().cls(scheme <= 4 ? "offsets_zero" : scheme == 5 ? "offsets_small" : "offsets_large");
    // constants beyond 2^23 are part of the mode name (tags stay narrow)
    for (int v = 0; v < n; v++)
      if (OFF[v] >= (1L << 23) || OFF[v] <= -(1L << 23)) {
        mode += "_bigk";
        break;
      }
  }
  ctx.log << "exact mode=" << mode << " n=" << n << " B=" << B << " offsets=[" << OFF[0] << "," << OFF[1] << "," << OFF[2]
          << "," << OFF[3] << "] (crab variable X_v = x_v + offset_v, constants below are the real ones)\n";
  R().cls("mode_" + mode);

  const bool is_sparse_dbm = std::string(md.name).compare(0, 4, "dbm_") == 0;
  bool has_selfloop = false;
  const int NV = 4;
  std::vector<abs_p> V;
  std::vector<Model> M(NV);
  for (int i = 0; i < NV; i++) {
    V.push_back(md.make());
    M[i].S = g.all;
    for (int v = 0; v < MAXV; v++)
      M[i].fr[v] = true;
  }
  unsigned n_assume = 0, n_join = 0, n_meet = 0, n_forget = 0, n_copy = 0, ent_yes = 0, ent_no = 0;
  bool any_closure_needed = false;
  unsigned ent_budget = 1500; // bound on the number of full-range entailment queries per case

  // the oracle, applied to value i after operation `op`; ref (octagons only) =
  // rational closure of the step from its tight operands, for classification
  auto check = [&](int i, const char *op, const RatOct *ref) {
    const Model &m = M[i];
    Abs &d = *V[i];
    const std::string pre = mode + "_" + op + "_";
    auto T = [&](bool tightening, const char *rel) {
      return tightening ? pre + rel + "_tightening" : pre + rel;
    };
    bool emp = m.empty();
    bool isb = d.is_bottom();
    CHECK12(ctx, !(isb && !emp), pre + "bottom_unsound",
           "is_bottom() although " << m.S.count() << " integer points satisfy the value; " << model_str(g, m));
    CHECK12(ctx, !(emp && !isb), T(ref && ref->feasible, "bottom_missed"),
           "unsatisfiable over the integers but is_bottom()=false; value=" << d.str());
    if (emp) {
      // bottom entails everything
      CHECK12(ctx, d.entails(mk_leq(g.sh[0], x, -B - 3, 0)), pre + "bottom_entails", "bottom does not entail");
      return;
    }
    // at(v)
    bool use_mut = t.chance(40);
    for (int v = 0; v < n; v++) {
      itv_t iv = use_mut ? d.at_mut(x[v]) : d.at(x[v]);
      if (m.fr[v]) {
        CHECK12(ctx, iv.is_top(), pre + "at_unsound_free_var",
               "x" << v << " is unconstrained but at() = " << to_str(iv));
        continue;
      }
      int hi = g.tight(m.S, 2 * v), lo = -g.tight(m.S, 2 * v + 1);
      itv_t ex{bound_t(z_number(lo + OFF[v])), bound_t(z_number(hi + OFF[v]))};
      CHECK12(ctx, ex <= iv, pre + "at_unsound",
             "at(x" << v << ")=" << to_str(iv) << " does not contain exact " << to_str(ex) << "; " << model_str(g, m));
      bool tg = ref && (ref->bound(g.sh[2 * v]) > hi || ref->bound(g.sh[2 * v + 1]) > -lo);
      CHECK12(ctx, iv <= ex, T(tg, "at_loose"),
             "at(x" << v << ")=" << to_str(iv) << " exact=" << to_str(ex) << "; value=" << d.str());
    }
    // entails
    bool full = t.chance(96);
    for (size_t s = 0; s < g.sh.size(); s++) {
      const Shape &sp = g.sh[s];
      if (shape_free(sp, m.fr)) {
        if (t.chance(64)) {
          bool r = d.entails(mk_leq(sp, x, 2 * B + 1, t.pick(5)));
          CHECK12(ctx, !r, pre + "entails_unsound_free_var",
                 "entails(" << shape_str(sp) << "<=" << 2 * B + 1 << ") although a variable of it is unconstrained; value="
                            << d.str());
        }
        continue;
      }
      int ks = g.tight(m.S, (int)s);
      if (!m.added.count({(int)s, ks}))
        any_closure_needed = true;
      bool tg = ref && ref->bound(sp) > ks;
      int klo = ks - 1, khi = ks;
      if (full && ent_budget > 0) {
        klo = -2 * B - 1;
        khi = 2 * B + 1;
      }
      unsigned form = t.pick(5);
      for (int k = klo; k <= khi; k++) {
        if (ent_budget > 0)
          ent_budget--;
        bool r = d.entails(mk_leq(sp, x, k, form));
        bool exp = k >= ks;
        (r ? ent_yes : ent_no)++;
        CHECK12(ctx, !(r && !exp), pre + "entails_unsound",
               "entails(" << to_str(mk_leq(sp, x, k, form)) << ")=true but a point of the value has " << shape_str(sp)
                          << "=" << ks << "; " << model_str(g, m) << " value=" << d.str());
        CHECK12(ctx, !(!r && exp), T(tg, "entails_incomplete"),
               "entails(" << to_str(mk_leq(sp, x, k, form)) << ")=false but every integer point has " << shape_str(sp)
                          << "<=" << ks << "; value=" << d.str());
      }
      // equalities e == k (both e and -e are shapes of the language)
      int ns = g.negof[s];
      if (ns > (int)s) {
        int kn = g.tight(m.S, ns); // -e <= kn
        bool is_const = (kn == -ks);
        bool tge = ref && (ref->bound(sp) > ks || ref->bound(g.sh[ns]) > kn);
        bool r = d.entails(mk_eq(sp, x, ks));
        CHECK12(ctx, !(r && !is_const), pre + "entails_eq_unsound",
               "entails(" << shape_str(sp) << "==" << ks << ")=true but the expression ranges over [" << -kn << "," << ks
                          << "]; value=" << d.str());
        CHECK12(ctx, !(!r && is_const), T(tge, "entails_eq_incomplete"),
               "entails(" << shape_str(sp) << "==" << ks << ")=false but it holds on every integer point; value="
                          << d.str());
      }
    }
    // operator<= against the other values. Demanded: never "yes" when a point
    // of A is outside B. The converse (completeness of the inclusion test) is
    // not stated by C12 (only join-above / join-least are, checked at the join
    // step): it is counted as a diagnostic unless C12_STRICT_LEQ=1.
    for (int j = 0; j < NV; j++) {
      if (j == i)
        continue;
      for (int dir = 0; dir < 2; dir++) {
        int a = dir ? j : i, b = dir ? i : j;
        bool r = V[a]->leq(*V[b]);
        bool exp = model_incl(g, M[a], M[b]);
        CHECK12(ctx, !(r && !exp), pre + "leq_unsound",
               "A<=B is true but an integer point of A is not in B\n A=" << V[a]->str() << " " << model_str(g, M[a])
                                                                          << "\n B=" << V[b]->str() << " "
                                                                          << model_str(g, M[b]));
        if (!r && exp) {
          R().diag(mode + "_leq_incomplete");
          if (ctx.verbose)
            ctx.log << "     DIAGNOSTIC leq_incomplete: v" << a << " <= v" << b << " is false although included\n";
          CHECK12(ctx, !strict_leq(), pre + "leq_incomplete",
                 "A<=B is false although gamma(A) is included in gamma(B)\n A="
                     << V[a]->str() << " " << model_str(g, M[a]) << "\n B=" << V[b]->str() << " " << model_str(g, M[b]));
        }
      }
    }
  };

  static const int target_tbl[8] = {0, 1, 0, 2, 0, 1, 0, 3};
  unsigned nsteps = 1 + t.pick(16);
  for (unsigned step = 0; step < nsteps; step++) {
    int i = target_tbl[t.pick(8)];
    unsigned op = t.pick(12);
    if (rel_mode && step >= 2 && (op == 10 || op == 11) && (t.tail_u8() & 1))
      op = 7; // meet instead of copy / normalize
    RatOct ref;
    const RatOct *refp = nullptr;
    const char *opname = "assume";
    g_where = mode + (op <= 5 ? "_assume" : op == 6 ? "_join" : op == 7 ? "_meet" : op <= 9 ? "_forget" : op == 10 ? "_copy" : "_normalize");
    if (op <= 5) {
      // ---- assume -------------------------------------------------------
      n_assume++;
      unsigned ncs = 1 + t.pick(3);
      struct C {
        int s, k;
        unsigned form;
      };
      std::vector<C> cs;
      unsigned need_box = 0;
      for (unsigned c = 0; c < ncs; c++) {
        C cc;
        cc.s = (int)t.pick((unsigned)g.sh.size());
        if (rel_mode && g.sh[cc.s].nv == 1 && (t.tail_u8() & 3) != 0) {
          // a two-variable shape instead (same first variable when there is one)
          std::vector<int> two;
          for (int q = 0; q < (int)g.sh.size(); q++)
            if (g.sh[q].nv == 2)
              two.push_back(q);
          if (!two.empty())
            cc.s = two[t.tail_u8() % two.size()];
        }
        cc.k = (int)t.small_int((unsigned)(2 * B));
        cc.form = t.pick(8); // 0..4 inequality forms, 5 equality, 6,7 plain
        cs.push_back(cc);
        const Shape &sp = g.sh[cc.s];
        for (int v = 0; v < n; v++)
          if (sp.a[v] && M[i].fr[v])
            need_box |= 1u << v;
      }
      const bool use_ref = (lang == L_OCT && !M[i].empty());
      if (use_ref) {
        ref.init(n);
        ref.add_model(g, M[i]);
      }
      std::vector<cst_t> seq;
      std::vector<cst_t> box;
      for (int v = 0; v < n; v++)
        if (need_box & (1u << v)) {
          unsigned bf = t.pick(4);
          box.push_back(mk_leq(g.sh[2 * v + 1], x, B, bf)); // -x <= B
          box.push_back(mk_leq(g.sh[2 * v], x, B, bf));     //  x <= B
          M[i].fr[v] = false; // S is a cylinder over the whole box range of x_v: unchanged
          M[i].added.insert({2 * v, B});
          M[i].added.insert({2 * v + 1, B});
          if (use_ref) {
            ref.add(g.sh[2 * v], B);
            ref.add(g.sh[2 * v + 1], B);
          }
        }
      bool box_first = !t.flag();
      if (box_first)
        seq = box;
      for (auto &cc : cs) {
        const Shape &sp = g.sh[cc.s];
        if (cc.form == 5) {
          seq.push_back(mk_eq(sp, x, cc.k));
          g.filter(M[i].S, cc.s, cc.k);
          g.filter(M[i].S, g.negof[cc.s], -cc.k);
          M[i].added.insert({cc.s, cc.k});
          M[i].added.insert({g.negof[cc.s], -cc.k});
          if (use_ref) {
            ref.add(sp, cc.k);
            ref.add(g.sh[g.negof[cc.s]], -cc.k);
          }
        } else {
          seq.push_back(mk_leq(sp, x, cc.k, cc.form));
          g.filter(M[i].S, cc.s, cc.k);
          M[i].added.insert({cc.s, cc.k});
          if (use_ref)
            ref.add(sp, cc.k);
        }
        M[i].ncst++;
        for (int v = 0; v < n; v++)
          if (sp.a[v])
            M[i].varmask |= 1u << v;
      }
      if (!box_first)
        seq.insert(seq.end(), box.begin(), box.end());
      if (use_ref) {
        ref.close();
        refp = &ref;
      }
      bool one_by_one = t.flag();
      ctx.log << step << ": v" << i << " += {";
      for (auto &c : seq)
        ctx.log << to_str(c) << "; ";
      ctx.log << "}" << (one_by_one ? " one-by-one" : "") << "\n";
      if (one_by_one) {
        for (auto &c : seq) {
          csts_t sys;
          sys += c;
          V[i]->add(sys);
        }
      } else {
        csts_t sys;
        for (auto &c : seq)
          sys += c;
        V[i]->add(sys);
      }
    } else if (op == 6 || op == 7) {
      // ---- join / meet ---------------------------------------------------
      bool is_join = (op == 6);
      opname = is_join ? "join" : "meet";
      (is_join ? n_join : n_meet)++;
      int a = (int)t.pick(NV), b = (int)t.pick(NV);
      bool inplace = t.flag();
      ctx.log << step << ": v" << i << " = v" << a << (is_join ? " | " : " & ") << "v" << b
              << (inplace ? " (in place)" : "") << "\n";
      Model mr = is_join ? model_join(g, M[a], M[b]) : model_meet(g, M[a], M[b]);
      if (!is_join && lang == L_OCT && !M[a].empty() && !M[b].empty()) {
        ref.init(n);
        ref.add_model(g, M[a]);
        ref.add_model(g, M[b]);
        ref.close();
        refp = &ref;
      }
      abs_p r;
      if (inplace) {
        r = V[a]->clone();
        if (is_join)
          r->join_in(*V[b]);
        else
          r->meet_in(*V[b]);
      } else
        r = is_join ? V[a]->join(*V[b]) : V[a]->meet(*V[b]);
      if (is_join) {
        // the join is above both operands
        CHECK12(ctx, V[a]->leq(*r) && V[b]->leq(*r), mode + "_join_not_above_operand",
               "A <= A|B or B <= A|B is false\n A=" << V[a]->str() << "\n B=" << V[b]->str() << "\n A|B=" << r->str());
      } else {
        CHECK12(ctx, r->leq(*V[a]) && r->leq(*V[b]), mode + "_meet_not_below_operand",
               "A&B <= A or A&B <= B is false\n A=" << V[a]->str() << "\n B=" << V[b]->str() << "\n A&B=" << r->str());
      }
      if (is_join) {
        // ... and the least one: whatever value U of the pool the domain itself
        // places above both operands is above the join
        // (stated through the domain's own inclusion test, whose COMPLETENESS C12 does not
        // demand -- leastness itself is decided by the entailment/bounds oracle on the result --
        // so a 'no' here is a diagnostic unless C12_STRICT_LEQ=1)
        for (int u = 0; u < NV; u++)
          if (V[a]->leq(*V[u]) && V[b]->leq(*V[u])) {
            if (!strict_leq() && !r->leq(*V[u])) {
              R().diag(mode + "_join_not_least_by_own_leq");
              continue;
            }
            CHECK12(ctx, r->leq(*V[u]), mode + "_join_not_least",
                   "A<=U and B<=U but not A|B<=U\n A=" << V[a]->str() << "\n B=" << V[b]->str() << "\n U=" << V[u]->str()
                                                      << "\n A|B=" << r->str());
          }
      } else {
        for (int u = 0; u < NV; u++)
          if (V[u]->leq(*V[a]) && V[u]->leq(*V[b])) {
            if (!strict_leq() && !V[u]->leq(*r)) {
              R().diag(mode + "_meet_not_greatest_by_own_leq");
              continue;
            }
            CHECK12(ctx, V[u]->leq(*r), mode + "_meet_not_greatest",
                   "L<=A and L<=B but not L<=A&B\n A=" << V[a]->str() << "\n B=" << V[b]->str() << "\n L=" << V[u]->str()
                                                      << "\n A&B=" << r->str());
          }
      }
      V[i]->assign_from(*r);
      M[i] = mr;
    } else if (op == 8 || op == 9) {
      // ---- forget ----------------------------------------------------------
      opname = "forget";
      n_forget++;
      int v = (int)t.pick((unsigned)n);
      unsigned how = t.pick(4);
      if (how == 2) {
        int v2 = (int)t.pick((unsigned)n);
        ctx.log << step << ": v" << i << ".forget({x" << v << ",x" << v2 << "})\n";
        V[i]->forgetv({x[v], x[v2]});
        model_forget(g, M[i], v);
        model_forget(g, M[i], v2);
      } else if (how == 3) {
        std::vector<var_t> keep;
        for (int w = 0; w < n; w++)
          if (w != v)
            keep.push_back(x[w]);
        ctx.log << step << ": v" << i << ".project(all but x" << v << ")\n";
        V[i]->project(keep);
        model_forget(g, M[i], v);
      } else {
        ctx.log << step << ": v" << i << " -= x" << v << "\n";
        V[i]->forget1(x[v]);
        model_forget(g, M[i], v);
      }
    } else if (op == 10) {
      // ---- copy ------------------------------------------------------------
      opname = "copy";
      n_copy++;
      int a = (int)t.pick(NV);
      bool via_ctor = t.flag();
      ctx.log << step << ": v" << i << " = v" << a << (via_ctor ? " (copy-construct)" : "") << "\n";
      if (via_ctor)
        V[i] = V[a]->clone();
      else
        V[i]->assign_from(*V[a]);
      M[i] = M[a];
    } else {
      // ---- normalize / minimize: identity on the meaning --------------------
      opname = "normalize";
      bool mini = t.flag();
      ctx.log << step << ": v" << i << (mini ? ".minimize()" : ".normalize()") << "\n";
      if (mini)
        V[i]->minimize();
      else
        V[i]->normalize();
    }
    if (is_sparse_dbm && !has_selfloop) {
      // classifier only: sparse_dbm values that carry a redundant self-loop edge
      // (x-x<=k, printed by write()) are the root of several distinct symptoms
      std::string sv = V[i]->str();
      for (size_t q = 0; q + 6 < sv.size() && !has_selfloop; q++)
        if (sv[q] == 'x' && sv[q + 2] == '-' && sv[q + 3] == 'x' && sv[q + 1] == sv[q + 4] && sv[q + 5] == '<')
          has_selfloop = true;
      if (has_selfloop) {
        mode += "_selfloop";
        R().cls("dbm_selfloop_edge_seen");
      }
    }
    if (ctx.verbose)
      ctx.log << "     v" << i << " = " << V[i]->str() << "   model: " << model_str(g, M[i]) << "\n";
    g_where = mode + "_" + opname + "_query";
    try {
      check(i, opname, refp);
    } catch (const Fail &f) {
      // Known finding (known_findings.json): recorded once per case, then EXCLUDED BY
      // CONSTRUCTION so that the search continues behind it: the value is rebuilt from
      // the tight constraints of its model through the assume path (which this harness
      // checks to be exact) and must then pass the same oracle under a distinct tag.
      if (!R().is_known(f.cls) || M[i].empty())
        throw;
      R().known[std::string(P) + " " + f.cls]++;
      R().excl(f.cls);
      if (ctx.verbose)
        ctx.log << "     KNOWN-FINDING class=" << f.cls << " : " << f.msg << "\n     (value rebuilt from its model; search continues)\n";
      abs_p fresh = md.make();
      csts_t sys;
      for (size_t sh = 0; sh < g.sh.size(); sh++)
        if (!shape_free(g.sh[sh], M[i].fr))
          sys += mk_leq(g.sh[sh], x, g.tight(M[i].S, (int)sh), 0);
      fresh->add(sys);
      V[i]->assign_from(*fresh);
      g_where = mode + "_rebuilt_query";
      check(i, "rebuilt", nullptr);
    }
  }
  // final sweep: no value was disturbed by operations on the others
  for (int i = 0; i < NV; i++) {
    bool emp = M[i].empty();
    CHECK12(ctx, V[i]->is_bottom() == emp, mode + "_final_bottom_mismatch",
           "v" << i << " is_bottom()=" << V[i]->is_bottom() << " model empty=" << emp);
    if (emp)
      continue;
    for (int v = 0; v < n; v++) {
      itv_t iv = V[i]->at(x[v]);
      itv_t ex = M[i].fr[v] ? itv_t::top()
                            : itv_t(bound_t(z_number(OFF[v] - g.tight(M[i].S, 2 * v + 1))),
                                    bound_t(z_number(OFF[v] + g.tight(M[i].S, 2 * v))));
      CHECK12(ctx, ex <= iv, mode + "_final_at_unsound",
             "v" << i << ".at(x" << v << ")=" << to_str(iv) << " exact=" << to_str(ex));
      CHECK12(ctx, iv <= ex, mode + "_final_at_loose",
             "v" << i << ".at(x" << v << ")=" << to_str(iv) << " exact=" << to_str(ex));
    }
  }
  // classification / non-triviality
  R().cls("exact_assumes", n_assume);
  R().cls("exact_joins", n_join);
  R().cls("exact_meets", n_meet);
  R().cls("exact_forgets", n_forget);
  R().cls("exact_copies", n_copy);
  R().cls("entails_yes", ent_yes);
  R().cls("entails_no", ent_no);
  bool nt = false;
  unsigned maxc = 0;
  for (int i = 0; i < NV; i++) {
    const Model &m = M[i];
    maxc = std::max(maxc, (unsigned)m.ncst);
    R().cls(m.empty() ? "final_value_unsat" : "final_value_sat");
    if (m.empty())
      continue;
    bool bounded = false;
    for (int v = 0; v < n; v++)
      if (!m.fr[v])
        bounded = true;
    bool closure = false;
    for (size_t s = 0; s < g.sh.size() && !closure; s++)
      if (!shape_free(g.sh[s], m.fr) && !m.added.count({(int)s, g.tight(m.S, (int)s)}))
        closure = true;
    // intervals have no closure: every tight bound is syntactically present; the
    // closure condition is replaced by "some bound is tighter than the box"
    if (lang == L_ITV) {
      for (int v = 0; v < n && !closure; v++)
        if (!m.fr[v] && (g.tight(m.S, 2 * v) < B || g.tight(m.S, 2 * v + 1) < B))
          closure = true;
    }
    if (m.ncst >= 3 && __builtin_popcount(m.varmask) >= 2 && bounded && closure)
      nt = true;
  }
  R().cls(maxc >= 6 ? "constraints_6+" : maxc >= 3 ? "constraints_3-5" : "constraints_0-2");
  if (any_closure_needed)
    R().cls("closure_needed");
  if (nt) {
    ctx.nontrivial = true;
    R().cls("nontrivial_" + mode);
  }
}

// ---------------------------------------------------------------------------
// Part B: liftings
// ---------------------------------------------------------------------------
#if defined(C12_LIFT)
using sdbm_dom_t = cd::split_dbm_domain<z_number, varname_t, G::DefaultParams<z_number, G::adapt_ss>>;
template <class BaseAbsDom> struct RegionParams {
  using number_t = z_number;
  using varname_t = ::varname_t;
  using varname_allocator_t = crab::var_factory_impl::str_var_alloc_col;
  using base_abstract_domain_t = BaseAbsDom;
  using base_varname_t = typename BaseAbsDom::varname_t;
};
struct LiftDesc {
  const char *name;
  abs_p (*lifted)();
  abs_p (*base1)();
  abs_p (*base2)(); // second component for products (else = base1)
};
static const LiftDesc LIFTS[] = {
    {"bool_itv", &make_top<cd::flat_boolean_numerical_domain<itv_dom_t>>, &make_top<itv_dom_t>, nullptr},
    {"bool_sdbm", &make_top<cd::flat_boolean_numerical_domain<sdbm_dom_t>>, &make_top<sdbm_dom_t>, nullptr},
    {"smash_itv", &make_top<cd::array_smashing<itv_dom_t>>, &make_top<itv_dom_t>, nullptr},
    {"smash_sdbm", &make_top<cd::array_smashing<sdbm_dom_t>>, &make_top<sdbm_dom_t>, nullptr},
    {"adaptive_itv", &make_top<cd::array_adaptive_domain<itv_dom_t>>, &make_top<itv_dom_t>, nullptr},
    {"adaptive_sdbm", &make_top<cd::array_adaptive_domain<sdbm_dom_t>>, &make_top<sdbm_dom_t>, nullptr},
    {"product_itv_sdbm", &make_top<cd::reduced_numerical_domain_product2<itv_dom_t, sdbm_dom_t>>, &make_top<itv_dom_t>,
     &make_top<sdbm_dom_t>},
    {"product_sdbm_itv", &make_top<cd::reduced_numerical_domain_product2<sdbm_dom_t, itv_dom_t>>, &make_top<sdbm_dom_t>,
     &make_top<itv_dom_t>},
    {"region_itv", &make_top<cd::region_domain<RegionParams<itv_dom_t>>>, &make_top<itv_dom_t>, nullptr},
    {"region_sdbm", &make_top<cd::region_domain<RegionParams<sdbm_dom_t>>>, &make_top<sdbm_dom_t>, nullptr},
};
static const unsigned NLIFTS = sizeof(LIFTS) / sizeof(LIFTS[0]);

static const char *aop_str(cd::arith_operation_t op) {
  return op == cd::OP_ADDITION ? "+" : op == cd::OP_SUBTRACTION ? "-" : "*";
}
static void run_lift(Tape &t, CaseCtx &ctx) {
  const LiftDesc &ld = LIFTS[t.pick(NLIFTS)];
  const std::string name = ld.name;
  vfac_t vfac((ikos::index_t)(1 + t.pick(8) * 37));
  std::vector<var_t> x = make_vars(t, vfac, 4);
  const int n = 4;
  ctx.log << "lifting " << name << "\n";
  g_where = "lifting_" + name;
  R().cls("mode_lift_" + name);
  abs_p L = ld.lifted(), B1 = ld.base1(), B2 = ld.base2 ? ld.base2() : abs_p();
  auto all = [&](const std::function<void(Abs &)> &f) {
    f(*L);
    f(*B1);
    if (B2)
      f(*B2);
  };
  auto small_expr = [&](unsigned maxterms) {
    lin_t e{z_number(t.small_int(5))};
    unsigned k = 1 + t.pick(maxterms);
    for (unsigned j = 0; j < k; j++) {
      int c = (int)t.small_int(2);
      if (c == 0)
        c = 1;
      e = e + lin_t(z_number(c), x[t.pick(n)]);
    }
    return e;
  };
  unsigned nsteps = 1 + t.pick(14);
  unsigned nassume = 0, nassign = 0;
  unsigned usedmask = 0;
  for (unsigned step = 0; step < nsteps; step++) {
    unsigned op = t.pick(8);
    if (op <= 1) {
      var_t lhs = x[t.pick(n)];
      lin_t e = (op == 0 && t.flag()) ? lin_t(z_number(t.small_int(6))) : small_expr(2);
      ctx.log << step << ": " << to_str(lhs) << " := " << to_str(e) << "\n";
      all([&](Abs &d) { d.assign(lhs, e); });
      nassign++;
    } else if (op == 2 || op == 3) {
      static const cd::arith_operation_t ops[] = {cd::OP_ADDITION, cd::OP_SUBTRACTION, cd::OP_MULTIPLICATION};
      cd::arith_operation_t aop = ops[t.pick(3)];
      var_t lhs = x[t.pick(n)], y = x[t.pick(n)];
      if (op == 2) {
        z_number k(t.small_int(4));
        ctx.log << step << ": " << to_str(lhs) << " := " << to_str(y) << " " << aop_str(aop) << " " << k.get_str() << "\n";
        all([&](Abs &d) { d.applyk(aop, lhs, y, k); });
      } else {
        var_t z = x[t.pick(n)];
        ctx.log << step << ": " << to_str(lhs) << " := " << to_str(y) << " " << aop_str(aop) << " " << to_str(z) << "\n";
        all([&](Abs &d) { d.apply(aop, lhs, y, z); });
      }
      nassign++;
    } else if (op <= 6) {
      csts_t sys;
      unsigned k = 1 + t.pick(2);
      for (unsigned j = 0; j < k; j++) {
        lin_t e = small_expr(2);
        z_number c(t.small_int(8));
        switch (t.pick(6)) {
        case 0: sys += (e <= c); break;
        case 1: sys += (e >= c); break;
        case 2: sys += (e == c); break;
        case 3: sys += (e < c); break;
        case 4: sys += (e > c); break;
        default: sys += (e != c); break;
        }
      }
      ctx.log << step << ": assume " << to_str(sys) << "\n";
      all([&](Abs &d) { d.add(sys); });
      nassume++;
    } else {
      var_t v = x[t.pick(n)];
      ctx.log << step << ": forget " << to_str(v) << "\n";
      all([&](Abs &d) { d.forget1(v); });
    }
    bool use_mut = t.chance(40);
    for (int v = 0; v < n; v++) {
      itv_t li = use_mut ? L->at_mut(x[v]) : L->at(x[v]);
      itv_t b1 = use_mut ? B1->at_mut(x[v]) : B1->at(x[v]);
      if (ctx.verbose)
        ctx.log << "     x" << v << ": lifted " << to_str(li) << " base " << to_str(b1) << "\n";
      CHECK12(ctx, li <= b1, "lifting_" + name + "_looser_bounds",
             "after step " << step << " lifted.at(x" << v << ")=" << to_str(li) << " base.at=" << to_str(b1)
                           << "\n lifted=" << L->str() << "\n base=" << B1->str());
      if (B2) {
        itv_t b2 = use_mut ? B2->at_mut(x[v]) : B2->at(x[v]);
        CHECK12(ctx, li <= b2, "lifting_" + name + "_looser_bounds_than_second",
               "after step " << step << " lifted.at(x" << v << ")=" << to_str(li) << " second base.at=" << to_str(b2)
                             << "\n lifted=" << L->str() << "\n base=" << B2->str());
      }
      if (!b1.is_top() && !b1.is_bottom())
        usedmask |= 1u << v;
    }
  }
  R().cls("lift_assumes", nassume);
  R().cls("lift_assigns", nassign);
  R().cls(B1->is_bottom() ? "lift_final_unsat" : "lift_final_sat");
  if (nsteps >= 3 && nassume >= 1 && __builtin_popcount(usedmask) >= 2 && !B1->is_bottom()) {
    ctx.nontrivial = true;
    R().cls("nontrivial_lift_" + name);
  }
}
#endif

// An assert() inside crab aborts the process and would end the whole search.
// SIGABRT is turned into an oracle failure with its own tag
// (<mode>_<op>_crash_assert) by jumping back to run_case; the values of the
// aborted case are leaked, nothing of them is used afterwards.
static sigjmp_buf g_jmp;
static volatile sig_atomic_t g_armed = 0;
static void on_abort(int) {
  if (g_armed) {
    g_armed = 0;
    siglongjmp(g_jmp, 1);
  }
  signal(SIGABRT, SIG_DFL);
}
static void run_body(Tape &t, CaseCtx &ctx);

namespace verif {
void harness_init() {
  struct sigaction sa;
  memset(&sa, 0, sizeof sa);
  sa.sa_handler = on_abort;
  sa.sa_flags = SA_NODEFER;
  sigaction(SIGABRT, &sa, nullptr);
}
void run_case(const uint8_t *data, size_t size, CaseCtx &ctx) {
  Tape t(data, size);
  g_where = "init";
  if (sigsetjmp(g_jmp, 1)) {
    R().checks++;
    throw Fail{P, known_alias(g_where + "_crash_assert"),
               "[" + g_where + "_crash_assert] assert() failed inside crab (message on stderr) during: " + g_where};
  }
  g_armed = 1;
  try {
    run_body(t, ctx);
  } catch (...) {
    g_armed = 0;
    throw;
  }
  g_armed = 0;
}
} // namespace verif

static void run_body(Tape &t, CaseCtx &ctx) {
  {
  reset_params(t, ctx);
  unsigned part = t.pick(8);
  (void)part;
#if defined(C12_LIFT)
  if (NMODES == 0 || part >= 6) {
    run_lift(t, ctx);
    ctx.mixs(ctx.log.str());
    return;
  }
#endif
  if (NMODES > 0) {
    const ModeDesc &md = MODES[t.pick(NMODES)];
    run_exact(t, ctx, md);
  }
  ctx.mixs(ctx.log.str());
  }
}
