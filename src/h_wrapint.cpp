// C13 (a),(b) -- fixed-width integers (crab::wrapint) and wrapped intervals
// (crab::domains::wrapped_interval<z_number>) follow modular arithmetic.
//
// (a) every public operation of wrapint against an independent reference on
//     uint64_t / __int128 (results reduced mod 2^w), widths 1..64.
// (b) every operation of wrapped_interval: the bit-vector result computed by
//     the reference on members of the operands (all members when the operand
//     has <= 64 members, in particular always for w <= 6; sampled otherwise)
//     must be a member (at(wrapint)) of the abstract result; lattice
//     operations, half lines, trim, factories and queries against the
//     concretisation gamma([s,e]_w) = { s+i mod 2^w | 0 <= i <= (e-s) mod 2^w }.
//
// NEVER include wrapped_interval_impl.hpp here (ODR trap, see HARNESS_GUIDE).
#include "core/report.hpp"
#include "core/tape.hpp"

#include <crab/domains/wrapped_interval.hpp>
#include <crab/numbers/wrapint.hpp>

#include <algorithm>
#include <climits>
#include <string>
#include <vector>

using namespace verif;
using crab::wrapint;
using ikos::q_number;
using ikos::z_number;
typedef crab::domains::wrapped_interval<z_number> wi_t;
typedef __int128 i128;
typedef unsigned __int128 u128;

namespace verif {
const char *harness_name() { return "h_wrapint"; }
} // namespace verif

static const char *P = "C13";

// Exclusions by construction (see the final report of the harness author).
// An excluded trigger is never executed when its classifier tag is listed in
// VERIF_KNOWN; it is counted in excluded[tag]. This is needed for triggers
// that are undefined behaviour inside crab (the sanitizer flavour aborts on
// them, so the oracle never gets a chance to classify the failure).
#if defined(__has_feature)
#if __has_feature(undefined_behavior_sanitizer)
#define C13_UBSAN_BUILD 1
#endif
#endif
// -DC13_RUN_UB_TRIGGERS: UBSan build in *recover* mode (used to list all UB
// reports): run the triggers anyway
#if defined(C13_UBSAN_BUILD) && !defined(C13_RUN_UB_TRIGGERS)
static const bool kAbortOnUB = true; // asan/fuzz flavours: UBSan stops the process
#else
static const bool kAbortOnUB = false; // plain flavour: the oracle classifies the wrong result instead
#endif
static bool excluded_known(const std::string &tag) {
  if (kAbortOnUB && R().is_known(tag)) {
    R().excl(tag);
    return true;
  }
  return false;
}

// Like VCHECK but a failure whose tag is listed in VERIF_KNOWN is counted and
// the case CONTINUES (so the search goes on behind a known finding).
#define WCHECK(ctx, cond, tag, msgexpr)                                        \
  do {                                                                         \
    if ((ctx).want(P)) {                                                       \
      ::verif::R().checks++;                                                   \
      if (!(cond)) {                                                           \
        std::string _tag = (tag);                                              \
        std::ostringstream _os;                                                \
        _os << msgexpr;                                                        \
        if (::verif::R().is_known(_tag)) {                                     \
          if (!::verif::R().frozen)                                            \
            ::verif::R().known[std::string(P) + " " + _tag]++;                 \
          (ctx).log << "KNOWN-FINDING class=" << _tag << " : " << _os.str()    \
                    << "\n";                                                   \
        } else {                                                               \
          throw ::verif::Fail{P, _tag, _os.str()};                             \
        }                                                                      \
      }                                                                        \
    }                                                                          \
  } while (0)

// ---------------------------------------------------------------------------
// reference arithmetic (unsigned / __int128 only: no UB in here)
// ---------------------------------------------------------------------------
static inline uint64_t mask(unsigned w) { return w >= 64 ? ~(uint64_t)0 : (((uint64_t)1 << w) - 1); }
static inline uint64_t smin_u(unsigned w) { return (uint64_t)1 << (w - 1); }
static inline uint64_t smax_u(unsigned w) { return ((uint64_t)1 << (w - 1)) - 1; }
static inline bool isneg(uint64_t v, unsigned w) { return (v >> (w - 1)) & 1; }
static inline i128 sx(uint64_t v, unsigned w) { return isneg(v, w) ? (i128)v - ((i128)1 << w) : (i128)v; }
static inline uint64_t wrap(i128 v, unsigned w) { return (uint64_t)(u128)v & mask(w); }

static std::string u128_str(u128 u) {
  if (u == 0)
    return "0";
  std::string s;
  while (u) {
    s.insert(s.begin(), (char)('0' + (int)(u % 10)));
    u /= 10;
  }
  return s;
}
static std::string i128_str(i128 v) {
  bool neg = v < 0;
  u128 u = neg ? (u128)0 - (u128)v : (u128)v;
  return (neg ? "-" : "") + u128_str(u);
}
static z_number z_of(i128 v) {
  if (v >= (i128)INT64_MIN && v <= (i128)INT64_MAX)
    return z_number((int64_t)v);
  return z_number(i128_str(v));
}

enum BinOp { B_ADD, B_SUB, B_MUL, B_SDIV, B_UDIV, B_SREM, B_UREM, B_AND, B_OR, B_XOR, B_SHL, B_LSHR, B_ASHR };
enum RefStatus { REF_OK, REF_DIV0, REF_SDIV_OVERFLOW, REF_SHIFT_RANGE };

// w-bit result of x op y ; status != REF_OK when the pair is outside the
// documented domain of the operation.
static RefStatus ref_bin(BinOp op, uint64_t x, uint64_t y, unsigned w, uint64_t &r) {
  const uint64_t m = mask(w);
  r = 0;
  switch (op) {
  case B_ADD: r = (x + y) & m; return REF_OK;
  case B_SUB: r = (x - y) & m; return REF_OK;
  case B_MUL: r = (x * y) & m; return REF_OK;
  case B_AND: r = x & y; return REF_OK;
  case B_OR: r = x | y; return REF_OK;
  case B_XOR: r = x ^ y; return REF_OK;
  case B_UDIV:
    if (y == 0)
      return REF_DIV0;
    r = x / y;
    return REF_OK;
  case B_UREM:
    if (y == 0)
      return REF_DIV0;
    r = x % y;
    return REF_OK;
  case B_SDIV:
  case B_SREM: {
    if (y == 0)
      return REF_DIV0;
    i128 a = sx(x, w), b = sx(y, w);
    if (x == smin_u(w) && y == m) {
      // INT_MIN / -1: the quotient 2^(w-1) is not representable; two's
      // complement hardware wraps it to INT_MIN (remainder 0). Neither
      // wrapint.hpp nor wrapped_interval.hpp documents a result -> the pair is
      // reported back to the caller, which skips and counts it.
      r = (op == B_SDIV) ? smin_u(w) : 0;
      return REF_SDIV_OVERFLOW;
    }
    i128 q = (op == B_SDIV) ? a / b : a % b; // truncation toward zero, |a|,|b| <= 2^63
    r = wrap(q, w);
    return REF_OK;
  }
  case B_SHL:
    if (y >= w)
      return REF_SHIFT_RANGE;
    r = (x << y) & m;
    return REF_OK;
  case B_LSHR:
    if (y >= w)
      return REF_SHIFT_RANGE;
    r = x >> y;
    return REF_OK;
  case B_ASHR:
    if (y >= w)
      return REF_SHIFT_RANGE;
    r = x >> y;
    if (isneg(x, w))
      r |= m & ~(m >> y);
    return REF_OK;
  }
  return REF_OK;
}

// ---------------------------------------------------------------------------
// generators
// ---------------------------------------------------------------------------
static const char *wbucket(unsigned w) {
  if (w == 1) return "w1";
  if (w <= 7) return "w2_7";
  if (w <= 31) return "w8_31";
  if (w == 32) return "w32";
  if (w <= 63) return "w33_63";
  return "w64";
}

static unsigned gen_width_a(Tape &t) {
  static const unsigned tab[] = {8, 1, 2, 3, 4, 5, 7, 16, 32, 64, 63, 33, 31, 0, 0, 64};
  unsigned w = tab[t.pick(16)];
  if (w == 0)
    w = 1 + t.pick(64);
  return w;
}
static unsigned gen_width_b(Tape &t) {
  static const unsigned tab[] = {4, 1, 2, 3, 5, 6, 3, 4, 5, 6, 8, 16, 32, 64, 0, 99};
  unsigned w = tab[t.pick(16)];
  if (w == 0)
    w = 7 + t.pick(57); // 7..63
  if (w == 99)
    w = 1 + t.pick(64);
  return w;
}

// operand biased to 0, 1, 2^(w-1)-1, 2^(w-1), 2^(w-1)+1, 2^w-1, small, random
static uint64_t gen_val(Tape &t, unsigned w) {
  const uint64_t m = mask(w);
  switch (t.pick(13)) {
  case 0: return 0;
  case 1: return 1 & m;
  case 2: return m; // 2^w-1 == -1
  case 3: return smax_u(w);
  case 4: return smin_u(w);
  case 5: return (smin_u(w) + 1) & m;
  case 6: return (m - 1) & m;
  case 7: return t.pick(16) & m;
  case 8: return ((uint64_t)0 - (uint64_t)t.pick(16)) & m;
  case 9: {
    unsigned s = t.pick(w);
    return (((uint64_t)1 << s) + (uint64_t)t.small_int(2)) & m;
  }
  case 10: return (smax_u(w) - t.pick(4)) & m;
  case 11: return (smin_u(w) + 2 + t.pick(6)) & m;
  default: return t.u64() & m;
  }
}

// ---------------------------------------------------------------------------
// (a) wrapint
// ---------------------------------------------------------------------------
static void wrapint_checks(Tape &t, CaseCtx &ctx) {
  const unsigned w = gen_width_a(t);
  const uint64_t m = mask(w);
  const uint64_t x = gen_val(t, w), y = gen_val(t, w);
  const unsigned k = t.pick(w); // shift amount, 0 <= k < w
  const unsigned route = t.pick(3);
  ctx.log << "wrapint w=" << w << " x=" << x << " (s " << i128_str(sx(x, w)) << ") y=" << y << " (s "
          << i128_str(sx(y, w)) << ") k=" << k << " route=" << route << "\n";
  ctx.mix(w);
  ctx.mix(x);
  ctx.mix(y * 31 + k);
  R().cls(std::string("a_") + wbucket(w));

  // --- constructors ---------------------------------------------------------
  auto mk = [&](uint64_t v, unsigned r) -> wrapint {
    switch (r) {
    case 1:
      // z_number -> int64_t of INT64_MIN negates INT64_MIN (lib/bignums.cpp:34, UB, C20 territory)
      if (w == 64 && v == smin_u(64) && excluded_known("z_number_to_int64_min_negation_ub"))
        return wrapint(v, w);
      return wrapint(z_of(sx(v, w)), w);
    case 2: return wrapint(std::to_string(v), w);
    default: return wrapint(v, w);
    }
  };
  static const char *ctor_tag[] = {"wrapint_ctor_u64_wrong", "wrapint_ctor_z_wrong", "wrapint_ctor_str_wrong"};
  wrapint wx(0, 1), wy(0, 1);
  try {
    wx = mk(x, route);
    wy = mk(y, (route + 1) % 3);
  } catch (const crab_error &e) {
    WCHECK(ctx, false, "wrapint_ctor_raised", "constructor route " << route << " raised: " << e.what());
    return;
  }
  WCHECK(ctx, wx.get_uint64_t() == x && wx.get_bitwidth() == w, ctor_tag[route],
         "wrapint(" << x << "," << w << ") route " << route << " holds " << wx.get_uint64_t() << " width " << wx.get_bitwidth());
  WCHECK(ctx, wy.get_uint64_t() == y && wy.get_bitwidth() == w, ctor_tag[(route + 1) % 3],
         "wrapint(" << y << "," << w << ") route " << (route + 1) % 3 << " holds " << wy.get_uint64_t());
  if (wx.get_uint64_t() != x)
    wx = wrapint(x, w);
  if (wy.get_uint64_t() != y)
    wy = wrapint(y, w);
  {
    // reduction modulo 2^w in every constructor
    uint64_t raw = t.u64();
    wrapint a(raw, w);
    WCHECK(ctx, a.get_uint64_t() == (raw & m) && a.get_bitwidth() == w, "wrapint_ctor_u64_wrong",
           "wrapint(" << raw << "," << w << ") = " << a.get_uint64_t() << " expected " << (raw & m));
    wrapint s(std::to_string(raw), w);
    WCHECK(ctx, s.get_uint64_t() == (raw & m) && s.get_bitwidth() == w, "wrapint_ctor_str_wrong",
           "wrapint(\"" << raw << "\"," << w << ") = " << s.get_uint64_t() << " expected " << (raw & m));
    int64_t n = t.i64_pool();
    if (n == INT64_MIN && excluded_known("z_number_to_int64_min_negation_ub"))
      n = INT64_MIN + 1;
    z_number zn(n);
    WCHECK(ctx, wrapint::fits_wrapint(zn, w), "wrapint_fits_wrong", "fits_wrapint(" << n << "," << w << ") is false");
    try {
      wrapint b(zn, w);
      WCHECK(ctx, b.get_uint64_t() == ((uint64_t)n & m) && b.get_bitwidth() == w, "wrapint_ctor_z_wrong",
             "wrapint(z " << n << "," << w << ") = " << b.get_uint64_t() << " expected " << ((uint64_t)n & m));
      wrapint c(q_number(zn), w);
      WCHECK(ctx, c.get_uint64_t() == ((uint64_t)n & m) && c.get_bitwidth() == w, "wrapint_ctor_q_wrong",
             "wrapint(q " << n << "," << w << ") = " << c.get_uint64_t());
      WCHECK(ctx, wrapint::fits_wrapint(q_number(zn), w), "wrapint_fits_wrong", "fits_wrapint(q " << n << ")");
      // non-integral rational: rounding direction is not documented -> floor or ceil
      int64_t d = 2 + (int64_t)t.pick(4);
      int64_t n2 = n / 4; // keep floor/ceil inside int64
      i128 fl = (i128)n2 / d;
      if ((i128)n2 % d != 0 && n2 < 0)
        fl -= 1;
      i128 ce = ((i128)n2 % d != 0) ? fl + 1 : fl;
      wrapint e(q_number(z_number(n2), z_number(d)), w);
      WCHECK(ctx, e.get_uint64_t() == wrap(fl, w) || e.get_uint64_t() == wrap(ce, w), "wrapint_ctor_q_wrong",
             "wrapint(q " << n2 << "/" << d << "," << w << ") = " << e.get_uint64_t());
    } catch (const crab_error &e) {
      WCHECK(ctx, false, "wrapint_ctor_raised", "constructor from z/q " << n << " raised: " << e.what());
    }
    // beyond int64: fits_wrapint documents the precision limit
    z_number big = z_of(((i128)1 << 63) + (i128)t.pick(3) + (t.flag() ? ((i128)1 << 70) : 0));
    if (t.flag())
      big = -big - z_number(2);
    if (wrapint::fits_wrapint(big, w)) {
      try {
        wrapint b(big, w);
        (void)b;
      } catch (const crab_error &e) {
        WCHECK(ctx, false, "wrapint_fits_wrong", "fits_wrapint(" << big.get_str() << ") true but the constructor raised");
      }
    } else
      R().cls("a_z_beyond_int64_rejected_by_fits_wrapint");
  }

  // --- helpers ------------------------------------------------------------------
  auto val = [&](const char *op, uint64_t exp, unsigned ew, auto f) {
    R().cls(std::string("a_op_") + op);
    try {
      wrapint r = f();
      WCHECK(ctx, r.get_uint64_t() == exp && r.get_bitwidth() == ew, std::string("wrapint_") + op + "_wrong",
             op << " w=" << w << " x=" << x << " y=" << y << " k=" << k << " gave " << r.get_uint64_t() << " (width "
                << r.get_bitwidth() << ") expected " << exp << " (width " << ew << ")");
    } catch (const crab_error &e) {
      WCHECK(ctx, false, std::string("wrapint_") + op + "_raised",
             op << " w=" << w << " x=" << x << " y=" << y << " k=" << k << " raised " << e.what());
    }
  };
  auto bval = [&](const char *op, bool exp, auto f) {
    R().cls(std::string("a_op_") + op);
    try {
      bool r = f();
      WCHECK(ctx, r == exp, std::string("wrapint_") + op + "_wrong",
             op << " w=" << w << " x=" << x << " y=" << y << " gave " << r << " expected " << exp);
    } catch (const crab_error &e) {
      WCHECK(ctx, false, std::string("wrapint_") + op + "_raised", op << " raised " << e.what());
    }
  };
  auto sval = [&](const char *op, const std::string &exp, auto f) {
    R().cls(std::string("a_op_") + op);
    try {
      std::string r = f();
      WCHECK(ctx, r == exp, std::string("wrapint_") + op + "_wrong",
             op << " w=" << w << " x=" << x << " gave " << r << " expected " << exp);
    } catch (const crab_error &e) {
      WCHECK(ctx, false, std::string("wrapint_") + op + "_raised", op << " raised " << e.what());
    }
  };

  // --- observers ------------------------------------------------------------------
  bval("msb", isneg(x, w), [&] { return wx.msb(); });
  bval("is_zero", x == 0, [&] { return wx.is_zero(); });
  sval("get_unsigned_bignum", std::to_string(x), [&] { return wx.get_unsigned_bignum().get_str(); });
  sval("get_signed_bignum", i128_str(sx(x, w)), [&] { return wx.get_signed_bignum().get_str(); });
  sval("get_unsigned_str", std::to_string(x), [&] { return wx.get_unsigned_str(); });
  sval("get_signed_str", i128_str(sx(x, w)), [&] { return wx.get_signed_str(); });
  sval("write", std::to_string(x), [&] {
    crab::crab_string_os os;
    os << wx;
    return os.str();
  });
  bval("hash", true, [&] { return wx.hash() == wrapint(x, w).hash(); });
  val("get_signed_max", smax_u(w), w, [&] { return wrapint::get_signed_max(w); });
  val("get_signed_min", smin_u(w), w, [&] { return wrapint::get_signed_min(w); });
  val("get_unsigned_max", m, w, [&] { return wrapint::get_unsigned_max(w); });
  val("get_unsigned_min", 0, w, [&] { return wrapint::get_unsigned_min(w); });

  // --- arithmetic -------------------------------------------------------------------
  uint64_t r;
  ref_bin(B_ADD, x, y, w, r);
  val("add", r, w, [&] { return wx + wy; });
  val("add_assign", r, w, [&] { wrapint c(wx); c += wy; return c; });
  bval("add_assign_ref", true, [&] { wrapint c(wx); wrapint *p = &(c += wy); return p == &c; });
  ref_bin(B_SUB, x, y, w, r);
  val("sub", r, w, [&] { return wx - wy; });
  val("sub_assign", r, w, [&] { wrapint c(wx); c -= wy; return c; });
  bval("sub_assign_ref", true, [&] { wrapint c(wx); wrapint *p = &(c -= wy); return p == &c; });
  ref_bin(B_MUL, x, y, w, r);
  val("mul", r, w, [&] { return wx * wy; });
  val("mul_assign", r, w, [&] { wrapint c(wx); c *= wy; return c; });
  bval("mul_assign_ref", true, [&] { wrapint c(wx); wrapint *p = &(c *= wy); return p == &c; });
  val("neg", ((uint64_t)0 - x) & m, w, [&] { return -wx; });
  val("preinc", (x + 1) & m, w, [&] { wrapint c(wx); wrapint &q = ++c; return q; });
  bval("preinc_ref", true, [&] { wrapint c(wx); wrapint *p = &(++c); return p == &c && c.get_uint64_t() == ((x + 1) & m); });
  val("predec", (x - 1) & m, w, [&] { wrapint c(wx); wrapint &q = --c; return q; });
  bval("predec_ref", true, [&] { wrapint c(wx); wrapint *p = &(--c); return p == &c && c.get_uint64_t() == ((x - 1) & m); });
  val("postinc", x, w, [&] { wrapint c(wx); return c++; });
  val("postinc_after", (x + 1) & m, w, [&] { wrapint c(wx); c++; return c; });
  val("postdec", x, w, [&] { wrapint c(wx); return c--; });
  val("postdec_after", (x - 1) & m, w, [&] { wrapint c(wx); c--; return c; });

  // --- division / remainder ---------------------------------------------------------
  if (y != 0) {
    ref_bin(B_UDIV, x, y, w, r);
    val("udiv", r, w, [&] { return wx.udiv(wy); });
    ref_bin(B_UREM, x, y, w, r);
    val("urem", r, w, [&] { return wx.urem(wy); });
    RefStatus st = ref_bin(B_SDIV, x, y, w, r);
    if (st == REF_SDIV_OVERFLOW) {
      // undocumented: skip the single pair INT_MIN / -1, record what happens
      R().cls("a_sdiv_intmin_by_minus1_skipped");
      try {
        wrapint q = wx.sdiv(wy);
        R().cls(q.get_uint64_t() == smin_u(w) ? "a_sdiv_intmin_by_minus1_observed_wraps_to_intmin"
                                             : "a_sdiv_intmin_by_minus1_observed_other");
      } catch (const crab_error &) {
        R().cls("a_sdiv_intmin_by_minus1_observed_crab_error");
      }
      try {
        wrapint q = wx.srem(wy);
        R().cls(q.get_uint64_t() == 0 ? "a_srem_intmin_by_minus1_observed_zero" : "a_srem_intmin_by_minus1_observed_other");
      } catch (const crab_error &) {
        R().cls("a_srem_intmin_by_minus1_observed_crab_error");
      }
    } else if (w == 64 && x == smin_u(64) && y == 1 && excluded_known("z_number_to_int64_min_negation_ub")) {
      // quotient INT64_MIN is converted z_number -> int64_t inside sdiv
    } else {
      val("sdiv", r, w, [&] { return wx.sdiv(wy); });
      val("div_operator", r, w, [&] { return wx / wy; });
      ref_bin(B_SREM, x, y, w, r);
      val("srem", r, w, [&] { return wx.srem(wy); });
      val("rem_operator", r, w, [&] { return wx % wy; });
    }
  } else
    R().cls("a_divisor_zero_not_generated");

  // --- comparisons (unsigned) ---------------------------------------------------------
  bval("eq", x == y, [&] { return wx == wy; });
  bval("ne", x != y, [&] { return wx != wy; });
  bval("lt", x < y, [&] { return wx < wy; });
  bval("le", x <= y, [&] { return wx <= wy; });
  bval("gt", x > y, [&] { return wx > wy; });
  bval("ge", x >= y, [&] { return wx >= wy; });
  bval("eq_self", true, [&] { return wx == mk(x, (route + 2) % 3) && !(wx != mk(x, (route + 2) % 3)); });

  // --- bitwise -------------------------------------------------------------------------
  val("and", x & y, w, [&] { return wx & wy; });
  val("or", x | y, w, [&] { return wx | wy; });
  val("xor", x ^ y, w, [&] { return wx ^ wy; });

  // --- shifts, amount 0 <= k < w ---------------------------------------------------------
  {
    wrapint wk((uint64_t)k, w);
    ref_bin(B_SHL, x, k, w, r);
    val("shl", r, w, [&] { return wx << wk; });
    ref_bin(B_LSHR, x, k, w, r);
    val("lshr", r, w, [&] { return wx.lshr(wk); });
    ref_bin(B_ASHR, x, k, w, r);
    if (w == 64 && k == 0 && isneg(x, w)) {
      // crab computes all_ones << 64 here (UB)
      if (!excluded_known("wrapint_ashr_shift0_w64_wrong"))
        val("ashr_shift0_w64", r, w, [&] { return wx.ashr(wk); });
    } else {
      R().cls("a_op_ashr");
      try {
        wrapint q = wx.ashr(wk);
        uint64_t got = q.get_uint64_t();
        // "unreduced": correct modulo 2^w but with bits set above the width
        // (class invariant 0 <= _n < 2^w broken); anything else is plain wrong
        bool only_unreduced = got != r && (got & m) == r && q.get_bitwidth() == w;
        WCHECK(ctx, got == r && q.get_bitwidth() == w, only_unreduced ? "wrapint_ashr_negative_unreduced" : "wrapint_ashr_wrong",
               "ashr w=" << w << " x=" << x << " k=" << k << " gave " << got << " (width " << q.get_bitwidth() << ") expected " << r);
      } catch (const crab_error &e) {
        WCHECK(ctx, false, "wrapint_ashr_raised", "ashr w=" << w << " x=" << x << " k=" << k << " raised " << e.what());
      }
    }
  }

  // --- extensions / truncation ---------------------------------------------------------------
  {
    unsigned add = t.pick(64 - w + 1); // new width w+add <= 64, add == 0 allowed
    unsigned nw = w + add;
    if (add == 0 && w == 64 && isneg(x, w)) {
      // crab computes all_ones << 64 here (UB)
      if (!excluded_known("wrapint_sext_add0_w64_wrong"))
        val("sext_add0_w64", x, nw, [&] { return wx.sext(0); });
    } else
      val("sext", wrap(sx(x, w), nw), nw, [&] { return wx.sext(add); });
    val("zext", x, nw, [&] { return wx.zext(add); });
    unsigned keep = 1 + t.pick(w); // 1..w
    if (w > 1 && t.pick(4) == 3)
      keep = w - 1;
    if (w == 64 && keep == 63) {
      // crab computes 1 << 64 here (UB)
      if (!excluded_known("wrapint_keep_lower_63_wrong"))
        val("keep_lower_63", x & mask(keep), keep, [&] { return wx.keep_lower(keep); });
    } else
      val("keep_lower", x & mask(keep), keep, [&] { return wx.keep_lower(keep); });
    ctx.log << "  add=" << add << " keep=" << keep << "\n";
    ctx.mix(add * 64 + keep);
  }

  // --- non-triviality: an overflow / wrap happened, or a signed op on a negative operand
  bool wrapped = false;
  if ((u128)x + (u128)y > (u128)m)
    wrapped = true, R().cls("a_add_wraps");
  if (x < y)
    wrapped = true, R().cls("a_sub_wraps");
  if ((u128)x * (u128)y > (u128)m)
    wrapped = true, R().cls("a_mul_wraps");
  if (((u128)x << k) > (u128)m)
    wrapped = true, R().cls("a_shl_wraps");
  if (isneg(x, w) || isneg(y, w))
    wrapped = true, R().cls("a_negative_operand");
  if (wrapped)
    ctx.nontrivial = true;
  R().cls("mode_wrapint");
}

// ---------------------------------------------------------------------------
// (b) wrapped_interval: model
// ---------------------------------------------------------------------------
struct WI {
  int kind; // 0 bottom, 1 top (factory, no bitwidth), 2 [s,e]_w (may be the full circle)
  uint64_t s, e;
  unsigned w;
};
static u128 wi_count(const WI &a) {
  if (a.kind == 0)
    return 0;
  if (a.kind == 1)
    return (u128)1 << a.w;
  return (u128)((a.e - a.s) & mask(a.w)) + 1;
}
static bool wi_full(const WI &a) { return a.kind != 0 && wi_count(a) == ((u128)1 << a.w); }
static uint64_t wi_member(const WI &a, u128 i) {
  uint64_t base = a.kind == 2 ? a.s : 0;
  return (base + (uint64_t)i) & mask(a.w);
}
static bool wi_has(const WI &a, uint64_t v) {
  if (a.kind == 0)
    return false;
  if (a.kind == 1)
    return true;
  const uint64_t m = mask(a.w);
  return ((v - a.s) & m) <= ((a.e - a.s) & m);
}
// crosses the north pole (signed limit 0111..1 -> 1000..0) / south pole (1..1 -> 0..0)
static bool wi_cross_north(const WI &a) {
  return a.kind == 2 && !wi_full(a) && a.w > 0 && wi_has(a, smax_u(a.w)) && a.e != smax_u(a.w);
}
static bool wi_cross_south(const WI &a) {
  return a.kind == 2 && !wi_full(a) && wi_has(a, mask(a.w)) && a.e != mask(a.w);
}
static std::string wi_str(const WI &a) {
  if (a.kind == 0)
    return "_|_";
  if (a.kind == 1)
    return "top";
  std::ostringstream o;
  o << "[" << a.s << "," << a.e << "]_" << a.w;
  if (wi_full(a))
    o << "(full)";
  return o.str();
}

static WI gen_wi(Tape &t, unsigned w) {
  const uint64_t m = mask(w);
  WI a{2, 0, 0, w};
  switch (t.pick(14)) {
  case 0:
    a.s = gen_val(t, w);
    a.e = a.s + t.pick(5);
    break;
  case 1:
    a.s = a.e = gen_val(t, w);
    break;
  case 2: // crosses the north pole
    a.s = smax_u(w) - t.pick(4);
    a.e = smin_u(w) + t.pick(4);
    break;
  case 3: // crosses the south pole
    a.s = m - t.pick(4);
    a.e = t.pick(4);
    break;
  case 4: // crosses both poles
    a.s = smax_u(w) - t.pick(4);
    a.e = t.pick(4);
    break;
  case 5:
    a.kind = 1;
    break;
  case 6:
    a.kind = 0;
    break;
  case 7: // full circle with an explicit bitwidth
    a.s = gen_val(t, w);
    a.e = a.s - 1;
    break;
  case 8:
    a.s = gen_val(t, w);
    a.e = gen_val(t, w);
    break;
  case 9:
    switch (t.pick(4)) {
    case 0: a.s = 0; a.e = smax_u(w); break;
    case 1: a.s = smin_u(w); a.e = m; break;
    case 2: a.s = smin_u(w); a.e = smax_u(w); break;
    default: a.s = 0; a.e = m - 1; break;
    }
    break;
  case 10: // almost everything
    a.s = gen_val(t, w);
    a.e = a.s + m - 1 - t.pick(3);
    break;
  case 11: // south pole crossing, starting in the negative hemisphere, longer
    a.s = m - t.pick(16);
    a.e = t.pick(16);
    break;
  case 12:
    a.s = gen_val(t, w);
    a.e = a.s + (t.u64() & m);
    break;
  default:
    a.s = t.pick(8);
    a.e = a.s + t.pick(8);
    break;
  }
  a.s &= m;
  a.e &= m;
  return a;
}

// second operand for the lattice operations: related to the first one
// (equal, inside, around, overlapping on either side, complement, covering both
// ends the long way round, endpoint singletons)
static WI gen_related(Tape &t, const WI &A) {
  if (A.kind != 2 || t.pick(8) >= 5)
    return gen_wi(t, A.w);
  const unsigned w = A.w;
  const uint64_t m = mask(w);
  const uint64_t span = (A.e - A.s) & m;
  WI b{2, A.s, A.e, w};
  uint64_t i = t.pick(4), j = t.pick(4);
  switch (t.pick(10)) {
  case 0: break; // equal
  case 1: // inside
    if (i + j <= span)
      b.s = A.s + i, b.e = A.e - j;
    break;
  case 2: // around (widening step)
    if ((u128)span + i + j < ((u128)1 << w) - 1)
      b.s = A.s - i, b.e = A.e + j;
    break;
  case 3: b.s = A.s + (i <= span ? i : 0); b.e = A.e + 1 + j; break; // overlaps on the right
  case 4: b.s = A.s - 1 - i; b.e = A.e - (j <= span ? j : 0); break; // overlaps on the left
  case 5: b.s = A.e + 1; b.e = A.s - 1; break;                       // complement
  case 6: b.s = A.e - (i <= span ? i : 0); b.e = A.s + (j <= span ? j : 0); break; // covers both ends the long way
  case 7: b.s = b.e = A.s; break;
  case 8: b.s = b.e = A.e; break;
  default: b.s = b.e = A.s + (span ? (t.u64() % span) : 0); break;
  }
  b.s &= m;
  b.e &= m;
  return b;
}

// shift amount: singleton k < w (mostly) or a short range of values < w
static WI gen_shift_wi(Tape &t, unsigned w) {
  WI a{2, 0, 0, w};
  unsigned k = t.pick(w);
  a.s = k;
  a.e = k;
  if (t.pick(4) == 3) {
    unsigned hi = k + t.pick(3);
    if (hi > w - 1)
      hi = w - 1;
    a.e = hi;
  }
  a.s &= mask(w);
  a.e &= mask(w);
  return a;
}

static wi_t build(const WI &a, Tape &t) {
  if (a.kind == 0)
    return wi_t::bottom();
  if (a.kind == 1)
    return t.flag() ? wi_t() : wi_t::top();
  const unsigned w = a.w;
  unsigned route = t.pick(4);
  if (route == 1 && a.s == a.e)
    return wi_t(wrapint(a.s, w));
  if ((route == 2 || route == 3) && w == 64 && a.s == smin_u(64) && excluded_known("z_number_to_int64_min_negation_ub"))
    route = 0;
  if (route == 3 && a.s == a.e)
    return wi_t::mk_winterval(z_of(sx(a.s, w)), w);
  if (route == 2) {
    i128 lb = sx(a.s, w);
    i128 ub = lb + (i128)((a.e - a.s) & mask(w));
    if (ub <= (i128)INT64_MAX)
      return wi_t::mk_winterval(z_of(lb), z_of(ub), w);
  }
  return wi_t(wrapint(a.s, w), wrapint(a.e, w));
}

static std::string show(const wi_t &r) {
  if (r.is_bottom())
    return "_|_";
  if (r.is_top())
    return "top";
  std::ostringstream o;
  o << "[" << r.start().get_uint64_t() << "," << r.end().get_uint64_t() << "]_" << r.start().get_bitwidth();
  return o.str();
}

// members of gamma(a): all of them when there are at most 64 (always the case
// for w <= 6), otherwise start, end, neighbours, midpoints, pole values and
// tape-chosen offsets.
static std::vector<uint64_t> members(const WI &a, Tape &t, bool &exhaustive) {
  std::vector<uint64_t> out;
  u128 n = wi_count(a);
  if (n == 0)
    return out;
  if (n <= 64) {
    for (u128 i = 0; i < n; i++)
      out.push_back(wi_member(a, i));
    return out;
  }
  exhaustive = false;
  const unsigned w = a.w;
  const uint64_t m = mask(w);
  u128 offs[] = {0, 1, 2, n - 1, n - 2, n - 3, n / 2, n / 2 + 1, n / 3, (u128)t.u64() % n, (u128)t.u64() % n, (u128)t.pick(16) % n};
  for (u128 o : offs)
    out.push_back(wi_member(a, o));
  uint64_t special[] = {0, 1, 2, m, m - 1, smax_u(w), smax_u(w) - 1, smin_u(w), smin_u(w) + 1, (uint64_t)(w - 1) & m, (uint64_t)w & m};
  for (uint64_t v : special)
    if (wi_has(a, v & m))
      out.push_back(v & m);
  std::sort(out.begin(), out.end());
  out.erase(std::unique(out.begin(), out.end()), out.end());
  return out;
}

// membership in a crab result through the public query at(wrapint)
static bool res_has(CaseCtx &ctx, const std::string &op, const wi_t &r, uint64_t v, unsigned w) {
  try {
    return r.at(wrapint(v, w));
  } catch (const crab_error &e) {
    WCHECK(ctx, false, "wint_" + op + "_result_width_wrong",
           op << ": at(" << v << " width " << w << ") on result " << show(r) << " raised " << e.what());
    return true;
  }
}

// structural sanity of a result: bounds reduced modulo 2^w, expected bitwidth,
// is_top / is_bottom consistent with exhaustive membership when w <= 6
static void check_result_shape(CaseCtx &ctx, const std::string &op, const wi_t &r, unsigned w) {
  if (r.is_bottom() || r.is_top()) {
    WCHECK(ctx, !(r.is_bottom() && r.is_top()), "wint_" + op + "_top_and_bottom", op << ": result is both top and bottom");
  } else {
    wrapint s = r.start(), e = r.end();
    WCHECK(ctx, s.get_bitwidth() == w && e.get_bitwidth() == w, "wint_" + op + "_result_width_wrong",
           op << ": result " << show(r) << " expected width " << w);
    WCHECK(ctx, s.get_uint64_t() <= mask(s.get_bitwidth()) && e.get_uint64_t() <= mask(e.get_bitwidth()),
           "wint_" + op + "_bounds_not_reduced",
           op << ": result bounds " << show(r) << " are not reduced modulo 2^" << s.get_bitwidth());
  }
  if (w <= 6) {
    unsigned cnt = 0;
    for (uint64_t v = 0; v <= mask(w); v++)
      if (res_has(ctx, op, r, v, w))
        cnt++;
    WCHECK(ctx, r.is_top() == (cnt == (1u << w)), "wint_" + op + "_is_top_inconsistent",
           op << ": result " << show(r) << " is_top=" << r.is_top() << " but contains " << cnt << " of " << (1u << w) << " values");
    WCHECK(ctx, r.is_bottom() == (cnt == 0), "wint_" + op + "_is_bottom_inconsistent",
           op << ": result " << show(r) << " is_bottom=" << r.is_bottom() << " but contains " << cnt << " values");
  }
}

enum Op {
  O_ADD, O_SUB, O_MUL, O_SDIV, O_DIVOP, O_UDIV, O_SREM, O_UREM, O_AND, O_OR, O_XOR, O_SHL, O_LSHR, O_ASHR,
  O_ADD_ASSIGN, O_SUB_ASSIGN, O_MUL_ASSIGN, O_DIV_ASSIGN, O_NEG, O_ZEXT, O_SEXT, O_TRUNC,
  O_LEQ, O_EQ, O_JOIN, O_MEET, O_WIDEN, O_WIDEN_TH, O_NARROW, O_LOWER, O_UPPER, O_TRIM, O_TO_ITV, O_MKW, O_QUERIES,
  O_COUNT
};
static const char *op_name[] = {
    "add", "sub", "mul", "sdiv", "divop", "udiv", "srem", "urem", "and", "or", "xor", "shl", "lshr", "ashr",
    "add_assign", "sub_assign", "mul_assign", "div_assign", "neg", "zext", "sext", "trunc",
    "leq", "eq", "join", "meet", "widen", "widen_thresholds", "narrow", "lower_half_line", "upper_half_line", "trim",
    "to_interval", "mk_winterval", "queries"};

static BinOp base_of(Op o) {
  switch (o) {
  case O_ADD: case O_ADD_ASSIGN: return B_ADD;
  case O_SUB: case O_SUB_ASSIGN: return B_SUB;
  case O_MUL: case O_MUL_ASSIGN: return B_MUL;
  case O_SDIV: case O_DIVOP: case O_DIV_ASSIGN: return B_SDIV;
  case O_UDIV: return B_UDIV;
  case O_SREM: return B_SREM;
  case O_UREM: return B_UREM;
  case O_AND: return B_AND;
  case O_OR: return B_OR;
  case O_XOR: return B_XOR;
  case O_SHL: return B_SHL;
  case O_LSHR: return B_LSHR;
  default: return B_ASHR;
  }
}

// operand check shared by all ops: the crab object built by the public
// constructors / factories denotes exactly the model set
static void check_operand(CaseCtx &ctx, Tape &t, const WI &A, const wi_t &a, const char *which) {
  const unsigned w = A.w;
  if (A.kind == 0) {
    WCHECK(ctx, a.is_bottom() && !a.is_top(), "wint_ctor_wrong", which << ": bottom() is not bottom");
  } else if (A.kind == 1 || wi_full(A)) {
    WCHECK(ctx, a.is_top() && !a.is_bottom(), "wint_ctor_wrong", which << ": " << wi_str(A) << " built as " << show(a) << " is not top");
  } else {
    WCHECK(ctx, !a.is_top() && !a.is_bottom() && a.start().get_uint64_t() == A.s && a.end().get_uint64_t() == A.e &&
                    a.start().get_bitwidth() == w && a.end().get_bitwidth() == w,
           "wint_ctor_wrong", which << ": " << wi_str(A) << " built as " << show(a));
    WCHECK(ctx, a.is_singleton() == (A.s == A.e), "wint_is_singleton_wrong", which << ": " << wi_str(A) << " is_singleton=" << a.is_singleton());
  }
  // at() against the model: all values for w <= 6, otherwise members + outside neighbours
  if (w <= 6) {
    for (uint64_t v = 0; v <= mask(w); v++)
      WCHECK(ctx, a.at(wrapint(v, w)) == wi_has(A, v), "wint_at_wrong",
             which << ": " << wi_str(A) << ".at(" << v << ") = " << a.at(wrapint(v, w)));
  } else {
    const uint64_t m = mask(w);
    uint64_t base = A.kind == 2 ? A.s : 0, fin = A.kind == 2 ? A.e : 0;
    uint64_t probes[] = {base, fin, (fin + 1) & m, (base - 1) & m, (fin + 2) & m, (base + ((fin - base) & m) / 2) & m, 0, m, smax_u(w), smin_u(w), t.u64() & m};
    for (uint64_t v : probes)
      WCHECK(ctx, a.at(wrapint(v, w)) == wi_has(A, v), "wint_at_wrong",
             which << ": " << wi_str(A) << ".at(" << v << ") = " << a.at(wrapint(v, w)));
  }
}

static void count_operand(const WI &A) {
  if (A.kind == 0)
    R().cls("b_operand_bottom");
  else if (A.kind == 1 || wi_full(A))
    R().cls("b_operand_top");
  else {
    if (A.s == A.e)
      R().cls("b_operand_singleton");
    if (wi_cross_north(A))
      R().cls("b_operand_cross_north");
    if (wi_cross_south(A))
      R().cls("b_operand_cross_south");
  }
}

static bool same_shape(const wi_t &a, const wi_t &b) {
  if (a.is_bottom() || b.is_bottom())
    return a.is_bottom() == b.is_bottom();
  if (a.is_top() || b.is_top())
    return a.is_top() == b.is_top();
  return a.start().get_uint64_t() == b.start().get_uint64_t() && a.end().get_uint64_t() == b.end().get_uint64_t() &&
         a.start().get_bitwidth() == b.start().get_bitwidth();
}

// Narrow classifier suffixes: predicates over the decoded failing case that
// name the region of the input space in which a recorded root cause lives, so
// that a different failure of the same operation keeps its own tag.
static bool wi_has_negative(const WI &a) {
  if (a.kind == 0)
    return false;
  if (a.kind == 1)
    return true;
  return isneg(a.s, a.w) || isneg(a.e, a.w) || a.s > a.e;
}
static std::string unsound_suffix(int op_is, const WI &A, const WI &B) {
  switch (op_is) {
  case 1: // mul: signed_mul is only reached with an operand in the negative hemisphere
    return (wi_has_negative(A) || wi_has_negative(B)) ? "_negative_hemisphere" : "";
  case 2: // udiv: dividend not cut at the south pole
    return wi_cross_south(A) ? "_dividend_crosses_south" : "";
  case 3: // widening: right operand covers both ends of the left one without including it
    return (A.kind == 2 && !wi_full(A) && B.kind == 2 && wi_has(B, A.s) && wi_has(B, A.e)) ? "_right_covers_both_ends" : "";
  case 4: // shl by 1 at width 64 goes through wrapint::keep_lower(63)
    return (A.w == 64 && B.kind == 2 && B.s == 1 && B.e == 1) ? "_w64_shift1" : "";
  case 5: // ashr by 0 at width 64 goes through wrapint::ashr's shift by 64
    return (A.w == 64 && B.kind == 2 && B.s == 0 && B.e == 0) ? "_w64_shift0" : "";
  }
  return "";
}

static void winterval_checks(Tape &t, CaseCtx &ctx) {
  unsigned w = gen_width_b(t);
  Op op;
  {
    static const Op arith[] = {O_ADD, O_SUB, O_MUL, O_SDIV, O_UDIV, O_SREM, O_UREM, O_AND, O_OR, O_XOR, O_SHL, O_LSHR, O_ASHR,
                               O_DIVOP, O_ADD_ASSIGN, O_SUB_ASSIGN, O_MUL_ASSIGN, O_DIV_ASSIGN, O_MUL, O_SDIV, O_UDIV, O_SHL, O_ASHR, O_LSHR};
    static const Op unary[] = {O_NEG, O_ZEXT, O_SEXT, O_TRUNC, O_TRUNC, O_SEXT};
    static const Op lattice[] = {O_JOIN, O_MEET, O_LEQ, O_WIDEN, O_WIDEN_TH, O_NARROW, O_EQ, O_TRIM};
    static const Op other[] = {O_LOWER, O_UPPER, O_TO_ITV, O_MKW, O_QUERIES};
    switch (t.pick(8)) {
    case 0: case 4: case 5: op = arith[t.pick(sizeof arith / sizeof arith[0])]; break;
    case 1: op = unary[t.pick(sizeof unary / sizeof unary[0])]; break;
    case 2: case 6: op = lattice[t.pick(sizeof lattice / sizeof lattice[0])]; break;
    case 3: op = other[t.pick(sizeof other / sizeof other[0])]; break;
    default: op = (Op)t.pick(O_COUNT); break;
    }
  }
  const std::string on = op_name[op];
  if ((op == O_WIDEN || op == O_WIDEN_TH) && w == 1) {
    // operator|| / widening_thresholds: assert(w > 1) documents the precondition
    R().excl("wint_widen_w1_assert_precondition");
    w = 2;
  }
  if ((op == O_WIDEN || op == O_WIDEN_TH) && w >= 35 && excluded_known("wint_widen_shift_int_overflow_ub"))
    w = 34; // crab computes (int)1 << (w-3) (UB for w >= 35)
  if (op == O_TRUNC && w == 1)
    w = 2; // there is no narrower integer type
  const uint64_t m = mask(w);
  ctx.mix(1000 + w);
  ctx.mix(op);
  R().cls(std::string("b_") + wbucket(w));
  R().cls("b_op_" + on);

  const bool is_shift = (op == O_SHL || op == O_LSHR || op == O_ASHR);
  const bool is_cast = (op == O_ZEXT || op == O_SEXT || op == O_TRUNC);
  WI A = gen_wi(t, w);
  if (is_cast) {
    // callers (wrapped_interval_domain::apply(int_conv_operation_t)) never pass
    // top or bottom; top has no bitwidth and SExt/ZExt raise CRAB_ERROR on it
    while (A.kind != 2 || wi_full(A)) {
      R().cls("b_cast_operand_top_or_bottom_regenerated");
      A = WI{2, gen_val(t, w), 0, w};
      A.e = (A.s + t.pick(5)) & m;
      if (w == 1)
        A.e = A.s;
    }
  }
  const bool is_lattice = (op == O_JOIN || op == O_MEET || op == O_LEQ || op == O_WIDEN || op == O_WIDEN_TH || op == O_NARROW ||
                           op == O_EQ || op == O_TRIM);
  WI B = is_shift ? gen_shift_wi(t, w) : (is_lattice ? gen_related(t, A) : gen_wi(t, w));
  wi_t a = build(A, t), b = build(B, t);
  ctx.log << "winterval w=" << w << " op=" << on << " a=" << wi_str(A) << " b=" << wi_str(B) << "\n";
  ctx.mix(A.kind * 7 + A.s * 3 + A.e);
  ctx.mix(B.kind * 11 + B.s * 5 + B.e);
  check_operand(ctx, t, A, a, "a");
  check_operand(ctx, t, B, b, "b");
  count_operand(A);
  if (!is_cast && op != O_NEG && op != O_LOWER && op != O_UPPER && op != O_TO_ITV && op != O_MKW && op != O_QUERIES)
    count_operand(B);
  bool exhaustive = true;
  std::vector<uint64_t> ma = members(A, t, exhaustive), mb = members(B, t, exhaustive);
  if (wi_cross_north(A) || wi_cross_south(A) || ((!is_cast && op != O_NEG) && (wi_cross_north(B) || wi_cross_south(B))))
    ctx.nontrivial = true;

  uint64_t pairs = 0, skipped = 0;
  auto fail_raise = [&](const crab_error &e) {
    WCHECK(ctx, false, "wint_" + on + "_raised", on << " on a=" << wi_str(A) << " b=" << wi_str(B) << " raised " << e.what());
  };

  switch (op) {
  // ------------------------------------------------------------------ binary arithmetic / bitwise / shifts
  case O_ADD: case O_SUB: case O_MUL: case O_SDIV: case O_DIVOP: case O_UDIV: case O_SREM: case O_UREM:
  case O_AND: case O_OR: case O_XOR: case O_SHL: case O_LSHR: case O_ASHR:
  case O_ADD_ASSIGN: case O_SUB_ASSIGN: case O_MUL_ASSIGN: case O_DIV_ASSIGN: {
    if (op == O_SHL && w == 64 && A.kind == 2 && !wi_full(A) && B.kind == 2 && B.s == B.e) {
      // Shl(k) calls Trunc(64-k): k == 1 -> keep_lower(63) (1 << 64, UB);
      // k == 0 -> ashr by wrapint(64,64) (shift by 64, UB)
      if (B.s == 1 && excluded_known("wrapint_keep_lower_63_wrong"))
        break;
      if (B.s == 0 && excluded_known("wint_shl_w64_shift0_ub"))
        break;
    }
    if (base_of(op) == B_SDIV && w == 64 && A.kind == 2 && !wi_full(A) && B.kind == 2 && !wi_full(B) && wi_has(A, smin_u(64)) &&
        wi_has(B, 1) && excluded_known("z_number_to_int64_min_negation_ub"))
      break; // an endpoint quotient INT64_MIN / 1 is converted z_number -> int64_t inside wrapint::sdiv
    if (op == O_ASHR && A.kind == 2 && !wi_full(A) && B.kind == 2 && B.s == B.e && B.s == 0 && w == 64 &&
        excluded_known("wrapint_ashr_shift0_w64_wrong"))
      break;
    wi_t res = wi_t::bottom();
    try {
      switch (op) {
      case O_ADD: res = a + b; break;
      case O_SUB: res = a - b; break;
      case O_MUL: res = a * b; break;
      case O_SDIV: res = a.SDiv(b); break;
      case O_DIVOP: res = a / b; break;
      case O_UDIV: res = a.UDiv(b); break;
      case O_SREM: res = a.SRem(b); break;
      case O_UREM: res = a.URem(b); break;
      case O_AND: res = a.And(b); break;
      case O_OR: res = a.Or(b); break;
      case O_XOR: res = a.Xor(b); break;
      case O_SHL: res = a.Shl(b); break;
      case O_LSHR: res = a.LShr(b); break;
      case O_ASHR: res = a.AShr(b); break;
      default: {
        wi_t c(a), plain = wi_t::bottom();
        wi_t *p = nullptr;
        switch (op) {
        case O_ADD_ASSIGN: p = &(c += b); plain = a + b; break;
        case O_SUB_ASSIGN: p = &(c -= b); plain = a - b; break;
        case O_MUL_ASSIGN: p = &(c *= b); plain = a * b; break;
        default: p = &(c /= b); plain = a / b; break;
        }
        WCHECK(ctx, p == &c, "wint_" + on + "_wrong", on << " does not return *this");
        WCHECK(ctx, same_shape(c, plain), "wint_" + on + "_wrong",
               on << " left " << show(c) << " but the binary operator gives " << show(plain));
        res = c;
      }
      }
    } catch (const crab_error &e) {
      fail_raise(e);
      break;
    }
    ctx.log << "  result " << show(res) << "\n";
    check_result_shape(ctx, on, res, w);
    const BinOp bo = base_of(op);
    for (uint64_t x : ma)
      for (uint64_t y : mb) {
        uint64_t r;
        RefStatus st = ref_bin(bo, x, y, w, r);
        if (st != REF_OK) {
          skipped++;
          if (st == REF_SDIV_OVERFLOW)
            R().cls(res_has(ctx, on, res, r, w) ? "b_sdiv_intmin_by_minus1_skipped_result_has_wrapped_value"
                                                : "b_sdiv_intmin_by_minus1_skipped_result_lacks_wrapped_value");
          continue;
        }
        pairs++;
        if ((bo == B_ADD && (u128)x + y > (u128)m) || (bo == B_SUB && x < y) || (bo == B_MUL && (u128)x * y > (u128)m))
          ctx.nontrivial = true;
        WCHECK(ctx, res_has(ctx, on, res, r, w), "wint_" + on + "_unsound" + unsound_suffix(bo == B_MUL ? 1 : (bo == B_UDIV ? 2 : (bo == B_SHL ? 4 : (bo == B_ASHR ? 5 : 0))), A, B),
               on << " w=" << w << ": a=" << wi_str(A) << " b=" << wi_str(B) << " result " << show(res) << " misses " << x
                  << " " << on << " " << y << " = " << r);
      }
    break;
  }
  // ------------------------------------------------------------------ unary minus
  case O_NEG: {
    wi_t res = wi_t::bottom();
    try {
      res = -a;
    } catch (const crab_error &e) {
      fail_raise(e);
      break;
    }
    ctx.log << "  result " << show(res) << "\n";
    check_result_shape(ctx, on, res, w);
    for (uint64_t x : ma) {
      pairs++;
      uint64_t r = ((uint64_t)0 - x) & m;
      WCHECK(ctx, res_has(ctx, on, res, r, w), "wint_neg_unsound",
             "neg w=" << w << ": a=" << wi_str(A) << " result " << show(res) << " misses -" << x << " = " << r);
    }
    break;
  }
  // ------------------------------------------------------------------ casts
  case O_ZEXT: case O_SEXT: {
    // bits_to_add >= 1 is what the CrabIR type checker guarantees; 0 is
    // accepted by wrapped_interval_domain and generated rarely
    unsigned room = 64 - w;
    unsigned add = room == 0 ? 0 : (t.pick(16) == 15 ? 0 : 1 + t.pick(room));
    if (room > 0 && add > 0 && t.pick(4) == 3)
      add = room; // extend to exactly 64 bits
    unsigned nw = w + add;
    ctx.log << "  bits_to_add=" << add << "\n";
    ctx.mix(add);
    if (op == O_SEXT && add == 0 && w == 64 && excluded_known("wrapint_sext_add0_w64_wrong"))
      break;
    wi_t res = wi_t::bottom();
    try {
      res = (op == O_ZEXT) ? a.ZExt(add) : a.SExt(add);
    } catch (const crab_error &e) {
      fail_raise(e);
      break;
    }
    ctx.log << "  result " << show(res) << "\n";
    check_result_shape(ctx, on, res, nw);
    for (uint64_t x : ma) {
      pairs++;
      uint64_t r = (op == O_ZEXT) ? x : wrap(sx(x, w), nw);
      WCHECK(ctx, res_has(ctx, on, res, r, nw), "wint_" + on + "_unsound" + ((op == O_SEXT && w == 64 && add == 0) ? "_w64_add0" : ""),
             on << " " << w << "->" << nw << ": a=" << wi_str(A) << " result " << show(res) << " misses ext(" << x << ") = " << r);
    }
    break;
  }
  case O_TRUNC: {
    // 1 <= bits_to_keep < w (type checker: destination strictly narrower)
    unsigned keep;
    switch (t.pick(4)) {
    case 1: keep = w - 1; break;
    case 2: keep = (w > 8) ? 8 * (1 + t.pick((w - 1) / 8)) : 1; break; // 8,16,.. < w
    default: keep = 1 + t.pick(w - 1); break;
    }
    ctx.log << "  bits_to_keep=" << keep << "\n";
    ctx.mix(keep);
    if (w == 64 && keep == 63 && excluded_known("wrapint_keep_lower_63_wrong"))
      break;
    wi_t res = wi_t::bottom();
    try {
      res = a.Trunc(keep);
    } catch (const crab_error &e) {
      fail_raise(e);
      break;
    }
    ctx.log << "  result " << show(res) << "\n";
    check_result_shape(ctx, on, res, keep);
    for (uint64_t x : ma) {
      pairs++;
      uint64_t r = x & mask(keep);
      if (r != x)
        ctx.nontrivial = true;
      WCHECK(ctx, res_has(ctx, on, res, r, keep), std::string("wint_trunc_unsound") + ((w == 64 && keep == 63) ? "_w64_keep63" : ""),
             "trunc " << w << "->" << keep << ": a=" << wi_str(A) << " result " << show(res) << " misses trunc(" << x << ") = " << r);
    }
    break;
  }
  // ------------------------------------------------------------------ order / equality
  case O_LEQ: {
    bool le = false, ge = false;
    try {
      le = a <= b;
      ge = b <= a;
    } catch (const crab_error &e) {
      fail_raise(e);
      break;
    }
    ctx.log << "  a<=b " << le << "  b<=a " << ge << "\n";
    if (le) {
      R().cls("b_leq_true");
      for (uint64_t x : ma) {
        pairs++;
        WCHECK(ctx, res_has(ctx, on, b, x, w), "wint_leq_unsound",
               wi_str(A) << " <= " << wi_str(B) << " holds but " << x << " is in a and not in b");
      }
    }
    if (ge)
      for (uint64_t y : mb) {
        pairs++;
        WCHECK(ctx, res_has(ctx, on, a, y, w), "wint_leq_unsound",
               wi_str(B) << " <= " << wi_str(A) << " holds but " << y << " is in b and not in a");
      }
    break;
  }
  case O_EQ: {
    bool eq = false, ne = false;
    try {
      eq = a == b;
      ne = a != b;
    } catch (const crab_error &e) {
      fail_raise(e);
      break;
    }
    WCHECK(ctx, eq != ne, "wint_ne_inconsistent", wi_str(A) << " vs " << wi_str(B) << ": == gives " << eq << ", != gives " << ne);
    if (eq) {
      R().cls("b_eq_true");
      for (uint64_t x : ma) {
        pairs++;
        WCHECK(ctx, wi_has(B, x) && res_has(ctx, on, b, x, w), "wint_eq_unsound", wi_str(A) << " == " << wi_str(B) << " but " << x << " only in a");
      }
      for (uint64_t y : mb) {
        pairs++;
        WCHECK(ctx, wi_has(A, y) && res_has(ctx, on, a, y, w), "wint_eq_unsound", wi_str(A) << " == " << wi_str(B) << " but " << y << " only in b");
      }
    }
    break;
  }
  // ------------------------------------------------------------------ join / widening: contain both
  case O_JOIN: case O_WIDEN: case O_WIDEN_TH: {
    wi_t res = wi_t::bottom();
    try {
      if (op == O_JOIN)
        res = a | b;
      else if (op == O_WIDEN)
        res = a || b;
      else {
        crab::thresholds<z_number> ts(t.flag() ? UINT_MAX : 3 + t.pick(6));
        unsigned n = t.pick(6);
        for (unsigned i = 0; i < n; i++) {
          uint64_t v;
          switch (t.pick(5)) {
          case 0: v = (B.e + 1 + t.pick(8)) & m; break;
          case 1: v = gen_val(t, w); break;
          case 2: v = (A.e + t.pick(16)) & m; break;
          case 3: v = m; break;
          default: v = t.u64() & m; break;
          }
          z_number zv = t.pick(8) == 7 ? z_of(-(i128)(v >> 1)) : z_number::from_uint64(v);
          ts.add(ikos::bound<z_number>(zv));
          ctx.log << "  threshold " << zv.get_str() << "\n";
        }
        res = a.widening_thresholds(b, ts);
      }
    } catch (const crab_error &e) {
      fail_raise(e);
      break;
    }
    ctx.log << "  result " << show(res) << "\n";
    check_result_shape(ctx, on, res, w);
    for (uint64_t x : ma) {
      pairs++;
      WCHECK(ctx, res_has(ctx, on, res, x, w), "wint_" + on + "_misses_left" + unsound_suffix(op == O_JOIN ? 0 : 3, A, B),
             on << ": a=" << wi_str(A) << " b=" << wi_str(B) << " result " << show(res) << " misses " << x << " from a");
    }
    for (uint64_t y : mb) {
      pairs++;
      WCHECK(ctx, res_has(ctx, on, res, y, w), "wint_" + on + "_misses_right",
             on << ": a=" << wi_str(A) << " b=" << wi_str(B) << " result " << show(res) << " misses " << y << " from b");
    }
    break;
  }
  // ------------------------------------------------------------------ meet / narrowing: contain the common members
  case O_MEET: case O_NARROW: {
    wi_t res = wi_t::bottom();
    try {
      res = (op == O_MEET) ? (a & b) : (a && b);
    } catch (const crab_error &e) {
      fail_raise(e);
      break;
    }
    ctx.log << "  result " << show(res) << "\n";
    check_result_shape(ctx, on, res, w);
    unsigned common = 0;
    for (uint64_t x : ma)
      if (wi_has(B, x)) {
        pairs++, common++;
        WCHECK(ctx, res_has(ctx, on, res, x, w), "wint_" + on + "_misses_common",
               on << ": a=" << wi_str(A) << " b=" << wi_str(B) << " result " << show(res) << " misses common member " << x);
      }
    for (uint64_t y : mb)
      if (wi_has(A, y)) {
        pairs++, common++;
        WCHECK(ctx, res_has(ctx, on, res, y, w), "wint_" + on + "_misses_common",
               on << ": a=" << wi_str(A) << " b=" << wi_str(B) << " result " << show(res) << " misses common member " << y);
      }
    if (common)
      R().cls("b_meet_nonempty_intersection");
    break;
  }
  // ------------------------------------------------------------------ half lines (used for x <= rhs / x >= rhs)
  case O_LOWER: case O_UPPER: {
    bool is_signed = t.flag();
    ctx.log << "  is_signed=" << is_signed << "\n";
    ctx.mix(is_signed);
    wi_t res = wi_t::bottom();
    try {
      if (t.flag())
        res = (op == O_LOWER) ? a.lower_half_line(is_signed) : a.upper_half_line(is_signed);
      else
        res = (op == O_LOWER) ? ikos::linear_interval_solver_impl::lower_half_line<wi_t>(a, is_signed)
                              : ikos::linear_interval_solver_impl::upper_half_line<wi_t>(a, is_signed);
    } catch (const crab_error &e) {
      fail_raise(e);
      break;
    }
    ctx.log << "  result " << show(res) << "\n";
    check_result_shape(ctx, on, res, w);
    auto key = [&](uint64_t v) -> i128 { return is_signed ? sx(v, w) : (i128)v; };
    std::vector<uint64_t> cand;
    if (w <= 6)
      for (uint64_t v = 0; v <= m; v++)
        cand.push_back(v);
    else {
      uint64_t lo = is_signed ? smin_u(w) : 0, hi = is_signed ? smax_u(w) : m;
      uint64_t c0[] = {lo, (lo + 1) & m, hi, (hi - 1) & m, 0, m, t.u64() & m, t.u64() & m};
      for (uint64_t v : c0)
        cand.push_back(v);
      for (uint64_t x : ma) {
        cand.push_back(x);
        cand.push_back((x + 1) & m);
        cand.push_back((x - 1) & m);
      }
    }
    for (uint64_t x : ma)
      for (uint64_t v : cand) {
        bool in_line = (op == O_LOWER) ? key(v) <= key(x) : key(v) >= key(x);
        if (!in_line)
          continue;
        pairs++;
        WCHECK(ctx, res_has(ctx, on, res, v, w), "wint_" + on + "_unsound",
               on << "(" << (is_signed ? "signed" : "unsigned") << ") of " << wi_str(A) << " = " << show(res) << " misses " << v
                  << " which is " << (op == O_LOWER ? "<=" : ">=") << " member " << x);
      }
    break;
  }
  // ------------------------------------------------------------------ trim: gamma(a) \ gamma(b)
  case O_TRIM: {
    wi_t res = wi_t::bottom();
    try {
      res = ikos::linear_interval_solver_impl::trim_interval<wi_t>(a, b);
    } catch (const crab_error &e) {
      fail_raise(e);
      break;
    }
    ctx.log << "  result " << show(res) << "\n";
    check_result_shape(ctx, on, res, w);
    for (uint64_t x : ma)
      if (!wi_has(B, x)) {
        pairs++;
        WCHECK(ctx, res_has(ctx, on, res, x, w), "wint_trim_unsound",
               "trim(" << wi_str(A) << "," << wi_str(B) << ") = " << show(res) << " misses " << x);
      }
    if (B.kind == 2 && B.s == B.e && (A.kind == 2 && !wi_full(A)) && (B.s == A.s || B.s == A.e))
      R().cls("b_trim_endpoint_removed");
    break;
  }
  // ------------------------------------------------------------------ to_interval: signed reading
  case O_TO_ITV: {
    try {
      ikos::interval<z_number> it = a.to_interval();
      if (A.kind == 0) {
        WCHECK(ctx, it.is_bottom(), "wint_to_interval_unsound", "to_interval(bottom) is not bottom");
      }
      for (uint64_t x : ma) {
        pairs++;
        ikos::bound<z_number> v(z_of(sx(x, w)));
        WCHECK(ctx, !it.is_bottom() && it.lb() <= v && v <= it.ub(), "wint_to_interval_unsound",
               "to_interval(" << wi_str(A) << ") misses signed value " << i128_str(sx(x, w)));
      }
    } catch (const crab_error &e) {
      fail_raise(e);
    }
    break;
  }
  // ------------------------------------------------------------------ factories from big numbers
  case O_MKW: {
    try {
      // single number
      {
        i128 n = (i128)t.i64_pool();
        if (n == (i128)INT64_MIN && excluded_known("z_number_to_int64_min_negation_ub"))
          n += 1;
        bool big = t.pick(8) == 7;
        if (big)
          n = ((i128)1 << 63) + t.pick(3) + ((i128)t.pick(4) << 64), n = t.flag() ? -n - 2 : n;
        wi_t r = wi_t::mk_winterval(z_of(n), w);
        ctx.log << "  mk_winterval(" << i128_str(n) << "," << w << ") = " << show(r) << "\n";
        if (big) {
          // documented: "return top if n does not fit into a wrapint"
          WCHECK(ctx, r.is_top(), "wint_mk_winterval_nofit_not_top", "mk_winterval(" << i128_str(n) << "," << w << ") = " << show(r));
        } else {
          pairs++;
          WCHECK(ctx, res_has(ctx, on, r, wrap(n, w), w), "wint_mk_winterval_unsound",
                 "mk_winterval(" << i128_str(n) << "," << w << ") = " << show(r) << " misses " << wrap(n, w));
        }
      }
      // range lb <= ub
      {
        i128 lb = (i128)t.i64_pool();
        u128 span;
        unsigned sk = t.pick(8);
        if (sk < 3)
          span = t.pick(9);
        else if (sk < 6)
          span = t.u64() & m; // < 2^w
        else if (sk == 6)
          span = m;
        else
          span = (u128)(t.u64() & m) + ((u128)(1 + t.pick(3)) << w); // >= 2^w
        if (lb + (i128)span > (i128)INT64_MAX) {
          if (span > (u128)INT64_MAX)
            span = (u128)INT64_MAX;
          lb = (i128)INT64_MAX - (i128)span;
          if (lb < (i128)INT64_MIN)
            lb = (i128)INT64_MIN, span = (u128)INT64_MAX;
        }
        if (lb == (i128)INT64_MIN && excluded_known("z_number_to_int64_min_negation_ub"))
          lb += 1, span -= (span ? 1 : 0);
        i128 ub = lb + (i128)span;
        bool wide = span >= ((u128)1 << w);
        wi_t r = wi_t::mk_winterval(z_of(lb), z_of(ub), w);
        ctx.log << "  mk_winterval(" << i128_str(lb) << "," << i128_str(ub) << "," << w << ") = " << show(r) << (wide ? " (span >= 2^w)" : "") << "\n";
        R().cls(wide ? "b_mkw_span_ge_2w" : "b_mkw_span_lt_2w");
        check_result_shape(ctx, on, r, w);
        i128 probes[] = {lb, ub, lb + 1, ub - 1, lb + (i128)(span / 2), lb + (i128)(span ? (u128)t.u64() % (span + 1) : 0),
                         lb + (i128)(span ? (u128)t.pick(200) % (span + 1) : 0)};
        for (i128 v : probes) {
          if (v < lb || v > ub)
            continue;
          if (wide) {
            // ub - lb >= 2^w: the header is silent on what the factory denotes
            // then (it keeps [lb mod 2^w, ub mod 2^w]); observed, not demanded
            R().cls(res_has(ctx, on, r, wrap(v, w), w) ? "b_mkw_widespan_member_in_result_observed" : "b_mkw_widespan_member_missing_observed");
            continue;
          }
          pairs++;
          WCHECK(ctx, res_has(ctx, on, r, wrap(v, w), w), "wint_mk_winterval_range_unsound",
                 "mk_winterval(" << i128_str(lb) << "," << i128_str(ub) << "," << w << ") = " << show(r) << " misses "
                                 << i128_str(v) << " mod 2^" << w << " = " << wrap(v, w));
        }
        if (lb < 0 || (u128)ub > (u128)m)
          ctx.nontrivial = true;
      }
    } catch (const crab_error &e) {
      fail_raise(e);
    }
    break;
  }
  // ------------------------------------------------------------------ pole queries / printing
  default: {
    try {
      wi_t nl = wi_t::signed_limit(w), sl = wi_t::unsigned_limit(w);
      if (w > 1) {
        WCHECK(ctx, !nl.is_top() && nl.start().get_uint64_t() == smax_u(w) && nl.end().get_uint64_t() == smin_u(w), "wint_signed_limit_wrong",
               "signed_limit(" << w << ") = " << show(nl));
        WCHECK(ctx, !sl.is_top() && sl.start().get_uint64_t() == m && sl.end().get_uint64_t() == 0, "wint_unsigned_limit_wrong",
               "unsigned_limit(" << w << ") = " << show(sl));
      }
      if (A.kind == 2 && !wi_full(A) && w > 1) {
        // documented meaning (APLAS'12): the interval contains the pole, i.e.
        // both pole values and the step between them
        WCHECK(ctx, a.cross_signed_limit() == wi_cross_north(A), "wint_cross_signed_limit_wrong",
               wi_str(A) << ".cross_signed_limit() = " << a.cross_signed_limit());
        WCHECK(ctx, a.cross_unsigned_limit() == wi_cross_south(A), "wint_cross_unsigned_limit_wrong",
               wi_str(A) << ".cross_unsigned_limit() = " << a.cross_unsigned_limit());
        WCHECK(ctx, a.get_bitwidth(__LINE__) == w, "wint_get_bitwidth_wrong", wi_str(A) << ".get_bitwidth() = " << a.get_bitwidth(__LINE__));
      }
      crab::crab_string_os os;
      os << a;
      std::string s = os.str();
      ctx.log << "  printed " << s << "\n";
      WCHECK(ctx, (s == "_|_") == (A.kind == 0) && (s == "top") == (A.kind == 1 || wi_full(A)), "wint_write_wrong",
             wi_str(A) << " printed as " << s);
      pairs++;
    } catch (const crab_error &e) {
      fail_raise(e);
    }
    break;
  }
  }
  R().cls("b_member_checks", pairs);
  if (skipped)
    R().cls("b_member_pairs_skipped_outside_domain", skipped);
  R().cls(exhaustive ? "b_exhaustive" : "b_sampled");
  if (exhaustive && w <= 6)
    R().cls("b_exhaustive_w_le_6");
  if (ctx.nontrivial)
    R().cls("b_nontrivial_pole_or_wrap");
  R().cls("mode_winterval");
}

namespace verif {
void run_case(const uint8_t *data, size_t size, CaseCtx &ctx) {
  Tape t(data, size);
  // 3/8 wrapint, 5/8 wrapped intervals
  if (t.pick(8) < 3)
    wrapint_checks(t, ctx);
  else
    winterval_checks(t, ctx);
}
} // namespace verif
