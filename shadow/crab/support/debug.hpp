// Shadow of crab/support/debug.hpp used ONLY by /verif harness builds.
// Found first on the include path (-I /verif/shadow) and force-included.
//  * CRAB_ERROR   -> throws verif::crab_error (clean rejection) instead of exit(1)
//  * CRAB_VERBOSE_IF -> bumps a deterministic step counter (watchdog for C05)
#pragma once
#include_next <crab/support/debug.hpp>
#include <stdexcept>
#include <string>

#include "../../../src/core/hooks.hpp"
namespace verif {
template <typename... ArgTypes> inline std::string fmt_msg(ArgTypes... args) {
  crab::crab_string_os sos;
  crab::crab_os &os = sos; // same overload set as the original (crab::errs())
  using expand_variadic_pack = int[];
  (void)expand_variadic_pack{0, ((os << args), void(), 0)...};
  return sos.str();
}
} // namespace verif

#undef CRAB_ERROR
#define CRAB_ERROR(...)                                                        \
  do {                                                                         \
    throw ::verif::crab_error(::verif::fmt_msg(__VA_ARGS__));                  \
  } while (0)

#undef CRAB_VERBOSE_IF
#define CRAB_VERBOSE_IF(LEVEL, CODE)                                           \
  do {                                                                         \
    ::verif::step_hook();                                                      \
    if (::crab::CrabVerbosity >= LEVEL) {                                      \
      CODE;                                                                    \
    }                                                                          \
  } while (0)
