#!/usr/bin/env python3
"""usage: ddmin.py <harness-binary> <tape> <out> [want_rc]  -- delta-debug a crashing tape (env VERIF_PROP is passed through)"""
import subprocess, sys, os
b, tape, out = sys.argv[1:4]
want = int(sys.argv[4]) if len(sys.argv) > 4 else None
def rc_of(data):
    open(out + ".tmp", "wb").write(bytes(data))
    try:
        r = subprocess.run([b, "--replay", out + ".tmp", "-q"], stdout=subprocess.DEVNULL, stderr=subprocess.DEVNULL, timeout=120)
        return r.returncode
    except subprocess.TimeoutExpired:
        return -999
cur = list(open(tape, "rb").read())
if want is None:
    want = rc_of(cur)
print("want rc", want, "len", len(cur))
n = 2
while len(cur) >= 2:
    chunk = max(1, len(cur) // n)
    red = False
    for i in range(0, len(cur), chunk):
        cand = cur[:i] + cur[i + chunk:]
        if rc_of(cand) == want:
            cur = cand; n = max(n - 1, 2); red = True; break
    if not red:
        if chunk == 1: break
        n = min(n * 2, len(cur))
for i in range(len(cur)):
    if cur[i]:
        for v in (0, 1, cur[i] // 2):
            if v >= cur[i]: continue
            cand = cur[:i] + [v] + cur[i + 1:]
            if rc_of(cand) == want:
                cur = cand; break
open(out, "wb").write(bytes(cur)); os.remove(out + ".tmp")
print("minimised to", len(cur))
