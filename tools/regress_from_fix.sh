#!/bin/bash
# usage: tools/regress_from_fix.sh <fix-commit> <property-id> [more property ids]
# Reverts one "fix:" commit of /repo in a scratch copy, runs the quick check of the
# property against it and stores the shrunk failing tape as a regression tape
# /verif/regress/<id>/<harness>/fix_<commit>.tape (replayed first by every run).
set -u
C=$1; shift
D=$(mktemp -d /tmp/crabrev.XXXXXX)
trap 'rm -rf "$D"' EXIT
mkdir -p "$D/src"
rsync -a /repo/include /repo/lib "$D/src/"
git -C /repo diff "$C" "$C^" -- include lib > "$D/rev.diff"
( cd "$D/src" && patch -p1 --quiet < "$D/rev.diff" ) || { echo "REVERT-FAILED $C"; exit 3; }
for P in "$@"; do
  CRAB_SRC="$D/src" VERIF_BUILD="$D/vb" VERIF_EVIDENCE_DIR="$D/ev" VERIF_FAILURES_DIR="$D/fail" \
    /verif/check "$P" ${TIER:-quick} > "$D/out.$P" 2>&1
  rc=$?
  n=0
  for t in $(grep '^VIOLATION' "$D/out.$P" | sed 's/.*replay=//'); do
    case "$t" in
      */regress/*) h=$(basename "$(dirname "$t")") ;;   # a saved regression tape failing again
      *) h=$(basename "$t" | sed 's/__.*//') ;;
    esac
    mkdir -p /verif/regress/$P/$h
    cp "$t" /verif/regress/$P/$h/fix_${C}_$n.tape
    n=$((n+1)); [ $n -ge 2 ] && break
  done
  echo "REVERT $C property=$P rc=$rc tapes=$n $(grep -m1 -A1 '^VIOLATION' "$D/out.$P" | tail -1 | cut -c1-220)"
  [ $rc -eq 2 ] && tail -5 "$D/out.$P"
done
