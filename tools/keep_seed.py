#!/usr/bin/env python3
"""usage: keep_seed.py <seed-out-dir> <dest-name> <confirm-log> <caught-by text>
Copies a confirmed seeded change into /verif/seeded/<dest-name>/ with a meta.json recording what was run."""
import json, os, shutil, sys, re
src, name, clog, caught = sys.argv[1:5]
dst = os.path.join('/verif/seeded', name)
os.makedirs(dst, exist_ok=True)
for f in ('patch.diff', 'demo.cc', 'build.sh'):
    shutil.copy(os.path.join(src, f), os.path.join(dst, f))
am = json.load(open(os.path.join(src, 'meta.json')))
log = open(clog).read()
sec = log.split('== ' + src.rstrip('/'))[1].split('\n== ')[0] if ('== ' + src.rstrip('/')) in log else ''
meta = {
    "property": am.get("property"),
    "title": am.get("title"),
    "what_it_breaks": am.get("what_it_breaks"),
    "needs_to_manifest": am.get("needs_to_manifest"),
    "files": am.get("files"),
    "origin": "written by a sub-agent that was given only the property text and a scratch git worktree of /repo (nothing from /verif)",
    "confirmed_by_us": {
        "how": "tools/confirm_seed.sh in the scratch worktree: git apply; ninja -k 0 (all targets except the pre-existing broken 'wrapint' test must build); ctest; demo with the change; git checkout; demo without the change",
        "result": [l.strip() for l in sec.strip().split('\n') if l.strip()],
    },
    "our_checks": caught,
    "how_to_rerun": "tools/mutant_run.sh seeded/%s/patch.diff %s   (applies the patch to a scratch copy of /repo and runs the quick check against it)" % (name, am.get("property")),
}
json.dump(meta, open(os.path.join(dst, 'meta.json'), 'w'), indent=1)
print("kept", dst)
