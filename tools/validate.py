#!/usr/bin/env python3
"""validate MANIFEST.json and evidence/*.json against the schemas (uses the tooling venv's jsonschema)"""
import json, sys, glob
import jsonschema
ok = True
m = json.load(open('/verif/MANIFEST.json'))
jsonschema.validate(m, json.load(open('/root/.vp/MANIFEST.schema.json')))
print('MANIFEST valid; checks:', [c['property_id'] for c in m['checks']], 'n/a:', [c['property_id'] for c in m.get('not_applicable', [])])
es = json.load(open('/root/.vp/EVIDENCE.schema.json'))
for f in sorted(glob.glob('/verif/evidence/*.json')):
    try:
        jsonschema.validate(json.load(open(f)), es)
        print(f, 'valid')
    except Exception as e:
        ok = False
        print(f, 'INVALID', str(e)[:300])
sys.exit(0 if ok else 1)
