#!/usr/bin/env python3
"""usage: verify_regress.py [-j N] [--regen]
For every status=fixed entry of known_findings.json that has regression tapes: reverts the fix: commit in a scratch
copy of /repo (include + lib), builds only the harnesses its tapes belong to and replays the tapes there. A tape is
GOOD when it fails on the reverted tree (it still decodes to a case that shows the defect); STALE otherwise (the
decoders changed since it was saved). With --regen the entries whose tapes are all stale, and the entries without
tapes, are regenerated with tools/regen_regress.py-style full quick runs (tools/regress_from_fix.sh).
Prints one line per entry; writes tools/verify_regress.out."""
import concurrent.futures as cf
import glob, json, os, shutil, subprocess, sys, tempfile
os.chdir('/verif')
J = int(sys.argv[sys.argv.index('-j') + 1]) if '-j' in sys.argv else 4
regen = '--regen' in sys.argv
kf = json.load(open('known_findings.json'))


def one(f):
    c = f['commit']
    tapes = sorted(glob.glob('regress/*/*/fix_%s_*.tape' % c))
    if not tapes:
        return c, 'NO-TAPES', []
    d = tempfile.mkdtemp(prefix='crabver.', dir='/tmp')
    try:
        os.makedirs(d + '/src')
        subprocess.run(['rsync', '-a', '/repo/include', '/repo/lib', d + '/src/'], check=True)
        diff = subprocess.run(['git', '-C', '/repo', 'diff', c, c + '^', '--', 'include', 'lib'], capture_output=True, text=True).stdout
        r = subprocess.run(['patch', '-p1', '--quiet'], input=diff, text=True, cwd=d + '/src', capture_output=True)
        if r.returncode != 0:
            return c, 'REVERT-FAILED', tapes
        hs = sorted({t.split('/')[2] for t in tapes})
        r = subprocess.run(['make', '-C', '/verif', '-j4', 'CRAB_SRC=' + d + '/src', 'BUILD=' + d + '/vb', 'FLAVOUR=plain'] +
                           [d + '/vb/plain/' + h for h in hs], capture_output=True, text=True)
        if r.returncode != 0:
            return c, 'BUILD-FAILED ' + r.stderr[-300:], tapes
        good, stale = [], []
        for t in tapes:
            _, prop, h, _ = t.split('/')
            env = dict(os.environ, VERIF_PROP=prop, VERIF_KNOWN='')
            try:
                rr = subprocess.run([d + '/vb/plain/' + h, '--replay', os.path.abspath(t), '-q'], env=env, capture_output=True, text=True, timeout=300)
                bad = rr.returncode != 0 or 'REPLAY-FAIL' in rr.stdout
            except subprocess.TimeoutExpired:
                bad = True
            (good if bad else stale).append(t)
        return c, 'GOOD=%d STALE=%d' % (len(good), len(stale)), stale
    finally:
        shutil.rmtree(d, ignore_errors=True)


fixed = [f for f in kf['findings'] if f['status'] == 'fixed']
out = open('tools/verify_regress.out', 'w')
todo = []
with cf.ThreadPoolExecutor(J) as ex:
    for f, (c, res, stale) in zip(fixed, ex.map(one, fixed)):
        line = '%s %s %s %s' % (c, ','.join(f['properties']), res, ' '.join(stale))
        print(line, flush=True)
        out.write(line + '\n')
        out.flush()
        if res == 'NO-TAPES' or (res.startswith('GOOD=0') and stale):
            todo.append(f)
print('to regenerate:', [f['commit'] for f in todo])
if regen:
    for f in todo:
        c = f['commit']
        old = {t: open(t, 'rb').read() for t in glob.glob('regress/*/*/fix_%s_*.tape' % c)}
        for t in old:
            os.remove(t)
        got = []
        for p in (f.get('try_properties') or f['properties']):
            r = subprocess.run(['tools/regress_from_fix.sh', c, p], capture_output=True, text=True)
            print(r.stdout.strip()[:300], flush=True)
            got = sorted(glob.glob('regress/*/*/fix_%s_*.tape' % c))
            if got:
                break
        if not got:
            for t, b in old.items():
                open(t, 'wb').write(b)
            got = sorted(old)
            print('KEPT-OLD', c, flush=True)
        f['regress'] = got
        json.dump(kf, open('known_findings.json', 'w'), indent=1)
