#!/bin/bash
# usage: tools/sensitivity.sh [pattern]   -- runs the quick check of the target property against every catalogue
# mutant (mutants/cNN_*.diff) and every seeded change (seeded/<id>-<n>/patch.diff) in scratch copies of /repo and
# writes one line per change to sensitivity_results.txt (CAUGHT / MISSED / BROKEN).
cd /verif
PAT=${1:-}
OUT=${SENS_OUT:-/verif/sensitivity_results.txt}
run() { # name patch prop
  local line
  local outp
  outp=$(tools/mutant_run.sh "$2" "$3" 2>&1)
  if echo "$outp" | grep -q PATCH-FAILED; then
    grep -v "^$1 " $OUT > $OUT.tmp 2>/dev/null; mv $OUT.tmp $OUT 2>/dev/null
    echo "$1 property=$3 PATCH-DOES-NOT-APPLY" | tee -a $OUT
    return
  fi
  line=$(echo "$outp" | grep '^MUTANT' | head -1)
  local rc=$(echo "$line" | sed 's/.* rc=\([0-9]*\).*/\1/')
  local verdict=MISSED
  [ "$rc" = "1" ] && verdict=CAUGHT
  [ "$rc" = "2" ] && verdict=BROKEN
  local cls=$(echo "$line" | sed -n 's/.*class=\([^ ]*\).*/\1/p')
  grep -v "^$1 " $OUT > $OUT.tmp 2>/dev/null; mv $OUT.tmp $OUT 2>/dev/null
  echo "$1 property=$3 $verdict ${cls}" | tee -a $OUT
}
touch $OUT
for m in mutants/*.diff; do
  n=$(basename $m .diff)
  [ -n "$PAT" ] && [[ "$n" != *$PAT* ]] && continue
  p=$(echo $n | sed -n 's/^c\([0-9][0-9]\)_.*/C\1/p')
  [ -z "$p" ] && p=C20
  [ -f /verif/evidence/$p.json ] || grep -q "\"$p\"" checks_config.py || continue
  run "mutants/$n" "$m" "$p"
done
for d in seeded/*/; do
  n=$(basename $d)
  [ -n "$PAT" ] && [[ "$n" != *$PAT* ]] && continue
  p=$(python3 -c "import json;print(json.load(open('$d/meta.json'))['property'])")
  run "seeded/$n" "$d/patch.diff" "$p"
done
sort -o $OUT $OUT
