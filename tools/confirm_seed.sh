#!/bin/bash
# usage: tools/confirm_seed.sh <worktree-with-_build> <seed-dir (patch.diff, demo.cc, build.sh)> [jobs]
# Confirms a seeded change in a scratch worktree: compiles, ctest passes, demo fails with it and passes without.
WT=$1; S=$2; J=${3:-8}
cd "$WT" || exit 2
git checkout -q -- include lib
echo "== $S"
git apply --check "$S/patch.diff" || { echo "PATCH-DOES-NOT-APPLY"; exit 3; }
git apply "$S/patch.diff"
ninja -C _build -k 0 -j$J > "$S/confirm_build.log" 2>&1
nfail=$(grep -c "^FAILED:" "$S/confirm_build.log")
echo "build: FAILED targets=$nfail ($(grep '^FAILED:' "$S/confirm_build.log" | head -3 | tr '\n' ' '))"
ctest --test-dir _build -j$J --timeout 900 > "$S/confirm_ctest.log" 2>&1
echo "ctest with change: $(grep -E 'tests passed|tests failed' "$S/confirm_ctest.log") ; failed: $(grep -A30 'The following tests FAILED' "$S/confirm_ctest.log" | grep -E '^\s+[0-9]+ -' | tr '\n' ' ')"
( cd "$S" && rm -f demo && bash build.sh "$WT" > confirm_demo_build_changed.log 2>&1; ./demo > confirm_demo_changed.log 2>&1; echo "demo with change: rc=$? $(tail -n 1 confirm_demo_changed.log | cut -c1-200)" )
git checkout -q -- include lib
if git diff --quiet HEAD -- lib; then :; fi
ninja -C _build -j$J Crab > /dev/null 2>&1
( cd "$S" && rm -f demo && bash build.sh "$WT" > confirm_demo_build_unchanged.log 2>&1; ./demo > confirm_demo_unchanged.log 2>&1; echo "demo unchanged: rc=$? $(tail -n 1 confirm_demo_unchanged.log | cut -c1-200)" )
