#!/usr/bin/env python3
"""usage: regen_regress.py [--all]
For every status=fixed entry of known_findings.json (all of them with --all, otherwise only those without
regression tapes) reverts the fix: commit in a scratch copy, runs the quick check of its first property and stores
the failing tapes under regress/ (tools/regress_from_fix.sh); then rewrites the 'regress' lists."""
import glob, json, os, subprocess, sys
os.chdir('/verif')
allf = '--all' in sys.argv
kf = json.load(open('known_findings.json'))
for f in kf['findings']:
    if f['status'] != 'fixed':
        continue
    c = f['commit']
    have = sorted(glob.glob('regress/*/*/fix_%s_*.tape' % c))
    if have and not allf:
        f['regress'] = have
        continue
    saved = {}
    if allf:
        for t in have:
            saved[t] = open(t, 'rb').read()
            os.remove(t)
    props = f.get('try_properties') or f['properties']
    got = []
    for p in props:
        r = subprocess.run(['tools/regress_from_fix.sh', c, p], capture_output=True, text=True)
        print(r.stdout.strip()[:300], flush=True)
        got = sorted(glob.glob('regress/*/*/fix_%s_*.tape' % c))
        if got:
            break
    if not got and saved:
        # nothing reproduced this time (budget): keep the earlier tapes rather than losing them
        for t, b in saved.items():
            open(t, 'wb').write(b)
        got = sorted(saved)
        print('KEPT-OLD', c, flush=True)
    f['regress'] = got
    json.dump(kf, open('known_findings.json', 'w'), indent=1)
json.dump(kf, open('known_findings.json', 'w'), indent=1)
print('without tapes:', [f['commit'] for f in kf['findings'] if f['status'] == 'fixed' and not f['regress']])
