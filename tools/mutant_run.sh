#!/bin/bash
# usage: tools/mutant_run.sh <patch.diff> <property-id>... 
# Applies the patch to a scratch copy of /repo (include + lib), runs the quick
# checks against it with a private build dir, prints the verdicts, removes the copy.
set -u
PATCH=$(realpath "$1"); shift
D=$(mktemp -d /tmp/crabmut.XXXXXX)
trap 'rm -rf "$D"' EXIT
mkdir -p "$D/src"
rsync -a /repo/include /repo/lib "$D/src/"
( cd "$D/src" && patch -p1 --quiet < "$PATCH" ) || { echo "PATCH-FAILED $PATCH"; exit 3; }
for P in "$@"; do
  CRAB_SRC="$D/src" VERIF_BUILD="$D/vb" VERIF_EVIDENCE_DIR="$D/ev" VERIF_FAILURES_DIR="$D/fail" \
    /verif/check "$P" ${TIER:-quick} > "$D/out.$P" 2>&1
  rc=$?
  echo "MUTANT $(basename "$PATCH") property=$P rc=$rc $(grep -m1 -A1 '^VIOLATION' "$D/out.$P" | tr '\n' ' ' | cut -c1-300)"
  [ $rc -eq 2 ] && tail -5 "$D/out.$P"
done
