#!/usr/bin/env python3
"""Regenerates /verif/MANIFEST.json from checks_config.CHECKS + manifest_meta.py"""
import json, sys, os
sys.path.insert(0, '/verif')
from checks_config import CHECKS
from manifest_meta import META, NOT_APPLICABLE, NOTES
props = [json.loads(l)['id'] for l in open('/verif/properties.jsonl')]
checks = []
for p in props:
    if p not in CHECKS or p not in META:
        continue
    m = META[p]
    checks.append({
        "property_id": p,
        "quick_cmd": "./check %s quick" % p,
        "thorough_cmd": "./check %s thorough" % p,
        "evidence_file": "/verif/evidence/%s.json" % p,
        "replay_cmd_template": "./check %s --replay {path}" % p,
        "engine": "choice-tape",
        "level_claimed": {"category": "exploration", "text": m["text"], "design_ref": m.get("design_ref", "DESIGN.md section 3 " + p)},
        "level_note": m["note"],
        "technique": m["technique"],
    })
na = [{"property_id": p, "reason": NOT_APPLICABLE.get(p, "check not built yet in this round; see DESIGN.md section 3 for the planned harness")}
      for p in props if p not in [c["property_id"] for c in checks]]
man = {
    "version": 1,
    "setup_cmd": "make -C /verif -j16 all",
    "hooks": {
        "guard": "none (no source hooks: a shadow header found first on the include path intercepts CRAB_ERROR and CRAB_VERBOSE_IF in harness builds only)",
        "enable": "-I /verif/shadow -include crab/support/debug.hpp (harness builds compile /repo/lib/*.cpp and /repo/include with these flags; /repo itself is unchanged)",
        "baseline_off_cmd": "cmake --build /repo/_build -- -k 0 ; ctest --test-dir /repo/_build -j8 --timeout 900   # the target wrapint (tests/domains/wrapint/wrapint.cc lacks #include <bitset>) does not compile on the pinned tree either and is not part of the 120 baseline tests",
        "source_commits": [],
        "add_only": True,
    },
    "engines": [
        {"name": "choice-tape", "path": "/verif/src/core", "serves_properties": [c["property_id"] for c in checks],
         "kind_free_text": "every generator is a deterministic decoder of a byte string; rapidcheck generates and shrinks the byte string (quick+thorough), libFuzzer mutates it coverage-guided under ASan/UBSan (thorough); the shrunk tape is the replay file"},
    ],
    "checks": checks,
    "not_applicable": na,
    "notes": NOTES,
}
json.dump(man, open('/verif/MANIFEST.json', 'w'), indent=1)
print("wrote MANIFEST.json with", len(checks), "checks,", len(na), "not claimed")
