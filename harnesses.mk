# list of harness binaries (name[-variant]); see Makefile
HARNESSES := h_numbers h_wto h_patricia h_scalar h_wrapint h_fwd-interval h_hist-interval
HARNESSES += h_hist-pack_sdbm h_hist-sdbm h_hist-soct h_hist-ric h_hist-term_int h_hist-bool_int h_fwd-sdbm h_fwd-soct h_fwd-ric h_fwd-term_int h_fwd-bool_int
HARNESSES += h_fixpo_exact
HARNESSES += h_histg-interval h_histg-sdbm h_histg-bool_int h_histv-interval h_histv-sdbm h_histv-bool_int
HARNESSES += h_exact-itv h_exact-sdbm h_exact-dbm h_exact-soct h_exact-lift
HARNESSES += h_fwd-aa_int h_fwd-aa_sdbm h_fwd-aa_bool_int h_fwd-as_disint h_fwd-as_sdbm h_fwd-as_bool_int h_fwd-wint
HARNESSES += h_transform h_dataflow
HARNESSES += h_bwd-interval h_bwd-sdbm h_bwd-soct h_bwd-bool_int h_bwd-dbm h_bwd-aa_int
HARNESSES += h_inter-interval h_inter-sdbm h_inter-bool_int h_inter-bu_sdbm_interval h_inter-bu_interval_interval h_inter-bu_sdbm_sdbm h_inter-bu_term_int_interval
HARNESSES += h_rgn-interval h_rgn-bool_int h_rgn-sdbm h_rgn-constant h_rgn-sign_constant
