# list of harness binaries (name[-variant]); see Makefile
HARNESSES := h_numbers h_wto h_patricia h_scalar h_fwd-interval
