# list of harness binaries (name[-variant]); see Makefile
HARNESSES := h_numbers
