# Build of the /verif harnesses against the working tree of crab.
#   make -j16 all                       every harness, plain flavour
#   make build/plain/h_numbers          one harness
#   make FLAVOUR=fuzz build/fuzz/h_numbers
#   make CRAB_SRC=/tmp/mut BUILD=/tmp/mut/vb ...   (mutation / seeded runs)
CRAB_SRC ?= /repo
BUILD    ?= build
FLAVOUR  ?= plain
CXX      := clang++
V        := $(abspath .)
B        := $(BUILD)/$(FLAVOUR)
GEN      := $(BUILD)/gen

# -DNDEBUG: the configuration crab's own build and test suite use (CMAKE_BUILD_TYPE with -DNDEBUG); the
# 'asan' flavour keeps assertions enabled for triage.
COMMON := -std=gnu++17 -O1 -w -fno-omit-frame-pointer
NDBG := -DNDEBUG
ifeq ($(FLAVOUR),fuzz)
  SANC := -g -fsanitize=fuzzer-no-link,address,undefined -fno-sanitize=vptr
  SANL := -fsanitize=fuzzer,address,undefined
  DRIVER := $(B)/core/driver_fuzz.o
  DRVLIBS :=
else ifeq ($(FLAVOUR),asan)
  SANC := -g -fsanitize=address,undefined -fno-sanitize=vptr -fno-sanitize-recover=undefined
  NDBG :=
  SANL := -fsanitize=address,undefined
  DRIVER := $(B)/core/driver_rc.o
  DRVLIBS := -lrapidcheck
else
  SANC := -g0
  SANL :=
  DRIVER := $(B)/core/driver_rc.o
  DRVLIBS := -lrapidcheck
endif

INC := -I$(V)/shadow -I$(GEN) -I$(CRAB_SRC)/include -I$(V)/src
CRABFLAGS := $(COMMON) $(NDBG) $(SANC) $(INC) -include crab/support/debug.hpp

# name -> source file is src/<name up to first '-'>.cpp ; the rest of the name
# is passed as -DVERIF_VARIANT_<suffix> and -DVERIF_VARIANT="<suffix>"
HARNESSES :=
-include harnesses.mk

LIBSRC := $(wildcard $(CRAB_SRC)/lib/*.cpp)
LIBOBJ := $(patsubst $(CRAB_SRC)/lib/%.cpp,$(B)/lib/%.o,$(LIBSRC))

.PHONY: all clean
all: $(addprefix $(B)/,$(HARNESSES))

$(GEN)/crab/config.h: $(CRAB_SRC)/include/crab/config.h.cmake
	@mkdir -p $(dir $@)
	sed -e 's|#cmakedefine CRAB_STATS .*|#define CRAB_STATS TRUE|' \
	    -e 's|#cmakedefine \([A-Z_]*\) .*|/* #undef \1 */|' $< > $@

$(B)/lib/%.o: $(CRAB_SRC)/lib/%.cpp $(GEN)/crab/config.h
	@mkdir -p $(dir $@)
	@echo "CXX $@"; $(CXX) $(CRABFLAGS) -MMD -MP -c $< -o $@

$(B)/libcrabv.a: $(LIBOBJ)
	@rm -f $@
	ar rcs $@ $^

$(B)/core/driver_rc.o: src/core/driver_rc.cpp src/core/report.hpp
	@mkdir -p $(dir $@)
	$(CXX) $(COMMON) -g0 $(SANL) -I$(V)/src -c $< -o $@

$(B)/core/driver_fuzz.o: src/core/driver_fuzz.cpp src/core/report.hpp
	@mkdir -p $(dir $@)
	$(CXX) $(COMMON) -g0 -I$(V)/src -c $< -o $@

$(B)/core/report.o: src/core/report.cpp src/core/report.hpp src/core/hooks.hpp
	@mkdir -p $(dir $@)
	$(CXX) $(COMMON) $(SANC) -I$(V)/src -c $< -o $@

.SECONDEXPANSION:
hsrc = src/$(firstword $(subst -, ,$(1))).cpp
hvar = $(subst $(firstword $(subst -, ,$(1))),,$(1))
hdef = $(if $(call hvar,$(1)),-DVERIF_VARIANT_$(subst -,_,$(patsubst -%,%,$(call hvar,$(1)))) -DVERIF_VARIANT='"$(patsubst -%,%,$(call hvar,$(1)))"',)

$(B)/obj/%.o: $$(call hsrc,$$*) $(GEN)/crab/config.h
	@mkdir -p $(dir $@)
	@echo "CXX $@"; $(CXX) $(CRABFLAGS) $(call hdef,$*) -MMD -MP -c $(call hsrc,$*) -o $@

$(B)/%: $(B)/obj/%.o $(B)/core/report.o $(DRIVER) $(B)/libcrabv.a
	$(CXX) $(SANL) -o $@ $(B)/obj/$*.o $(B)/core/report.o $(DRIVER) $(B)/libcrabv.a $(DRVLIBS) -lgmp

.PRECIOUS: $(B)/obj/%.o

clean:
	rm -rf $(BUILD)

-include $(wildcard $(B)/lib/*.d) $(wildcard $(B)/obj/*.d)
