"""Per-property job tables for ./check.  cases = rapidcheck max_success per shard."""


def job(h, qc, qs, tc, ts, max_size=100, fuzz_secs=0, fuzz_procs=4, **kw):
    d = {"harness": h, "quick": {"cases": qc, "shards": qs}, "thorough": {"cases": tc, "shards": ts},
         "max_size": max_size, "fuzz_secs": fuzz_secs, "fuzz_procs": fuzz_procs}
    d.update(kw)
    return d


CHECKS = {
    "C20": {
        "jobs": [job("h_numbers", 30000, 8, 400000, 16, fuzz_secs=240, fuzz_procs=8)],
        "rule": "choice-tape cases, each 1-4 rounds of {z_number vs __int128 differential, identities on operands "
                "built from decimal strings up to 60 digits, q_number vs exact rational, safe_i64 vs __int128, linear "
                "expression/constraint/system checks over <=6 variables and 3-6 valuations}; non-trivial = an operand beyond "
                "64 bits, a result crossing +-2^63, an overflowing safe_i64 operation, a non-integral rational, or a "
                "constraint over >=2 variables; distinct = hash of decoded operands",
        "assumptions": ["q_number(num,den) is only built with den > 0 (GMP canonical-sign precondition)",
                        "shift amounts are 0..199; z_number(string) is trusted to parse decimal (cross-checked by round trips)"],
        "min_nontrivial_frac": 0.2,
    },
}
