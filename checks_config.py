"""Per-property job tables for ./check.  cases = rapidcheck max_success per shard."""


def job(h, qc, qs, tc, ts, max_size=100, fuzz_secs=0, fuzz_procs=4, **kw):
    d = {"harness": h, "quick": {"cases": qc, "shards": qs}, "thorough": {"cases": tc, "shards": ts},
         "max_size": max_size, "fuzz_secs": fuzz_secs, "fuzz_procs": fuzz_procs}
    d.update(kw)
    return d


CHECKS = {
    "C20": {
        "jobs": [job("h_numbers", 80000, 8, 400000, 16, fuzz_secs=240, fuzz_procs=8)],
        "rule": "choice-tape cases, each 1-4 rounds of {z_number vs __int128 differential, identities on operands "
                "built from decimal strings up to 60 digits, q_number vs exact rational, safe_i64 vs __int128, linear "
                "expression/constraint/system checks over <=6 variables and 3-6 valuations}; non-trivial = an operand beyond "
                "64 bits, a result crossing +-2^63, an overflowing safe_i64 operation, a non-integral rational, or a "
                "constraint over >=2 variables; distinct = hash of decoded operands",
        "assumptions": ["q_number(num,den) is only built with den > 0 (GMP canonical-sign precondition)",
                        "shift amounts are 0..199; z_number(string) is trusted to parse decimal (cross-checked by round trips)"],
        "min_nontrivial_frac": 0.2,
    },
    "C07": {
        "jobs": [job("h_wto", 100000, 8, 400000, 16, fuzz_secs=240, fuzz_procs=8)],
        "rule": "choice-tape digraphs with 1..14 nodes (4 shapes: raw edge list, bitmask sparse..dense, structured seq/if/while/do-while "
                "plus gotos, chain with back/forward jumps), any entry node, decoded successor insertion order; each graph is checked as "
                "wto<cfg_ref>, its clone(), wto<cfg_rev> and wto<call_graph_ref>; non-trivial = two cycles nested or sharing a node "
                "(nesting depth >= 2, component inside component, or >= 2 back edges to one head); distinct = hash of the edge list+entry+order",
        "assumptions": ["parallel edges do not exist (both graph types deduplicate)", "nesting() of a node unreachable from the entry is only counted (undocumented)"],
        "min_nontrivial_frac": 0.2,
    },
    "C19": {
        "jobs": [job("h_patricia", 30000, 8, 150000, 16, fuzz_secs=240, fuzz_procs=8)],
        "rule": "operation histories (<=32 steps) over 4 separate_domain environments sharing structure through copies, keys = indexable with "
                "arbitrary 64-bit indices (dense, 2^k, 2^k+-1, 2^63+d, clustered prefixes), value lattices interval/constant/boolean/discrete_domain, "
                "compared after every step with a std::map model (at, find, iteration, size, is_top, is_bottom, <= between all pairs); plus "
                "patricia_tree_set, discrete_domain and set_domain vs std::set; non-trivial = two environments with overlapping but different key "
                "sets were merged or compared and >= 6 distinct keys were used; distinct = hash of the decoded history",
        "assumptions": ["rename targets are fresh (documented precondition)", "join(k,bottom) is not generated (legality unclear)",
                        "size()/iteration are not called on top (they raise by design)"],
        "min_nontrivial_frac": 0.2,
    },
    "C08": {
        "jobs": [job("h_scalar", 120000, 8, 500000, 16, fuzz_secs=240, fuzz_procs=8)],
        "rule": "pairs of abstract scalars (bound, interval<z>, interval<q>, congruence, interval_congruence, sign, constant, small_range, "
                "boolean_value, dis_interval) built through public constructors/operators x every operation; up to 8 concrete members are sampled "
                "per operand (bounds, neighbours, 0, +-1, 2^40/2^70 for infinite bounds, b+a*k) and every defined concrete result must be a member "
                "of the abstract result; tightness of interval<z> + - neg * | & against an independent corner model; non-trivial = both operands "
                "neither top nor bottom and a concrete result defined for some sampled pair; distinct = hash of operands+operation",
        "assumptions": ["udiv/urem/lshr only on non-negative operands, shifts only by 0..64, division by 0 skipped (DESIGN 2.3)",
                        "CRAB_ERROR raised inside an operation is counted as diagnostic, not as violation"],
        "min_nontrivial_frac": 0.2,
    },
    "C13": {
        "jobs": [job("h_wrapint", 100000, 8, 500000, 16, fuzz_secs=240, fuzz_procs=8),
                 job("h_fwd-wint", 3000, 2, 20000, 4, fuzz_secs=300, fuzz_procs=2)],
        "rule": "(a) wrapint: widths 1..64, operands biased to 0, 1, 2^(w-1)+-1, 2^w-1, every public operation against a uint64/__int128 reference; "
                "(b) wrapped_interval: (start,end,w) incl. pole-crossing, top, bottom, singletons, every operation; exhaustive over gamma(a) x gamma(b) "
                "for w <= 6, sampled members otherwise, membership through at(wrapint); non-trivial = (a) the w-bit result differs from the unbounded "
                "result or a signed op has a negative operand, (b) an operand crosses a pole; (c) the C01 program generator over wrapped_interval_domain "
                "with 32/64-bit variables, conditions only of the forms x~c and x~y with constants inside the signed width, executed by the reference "
                "interpreter in machine-integer mode (every write reduced modulo 2^w and read as signed; udiv/urem/lshr on the unsigned reading; shifts "
                "by less than w; real trunc/sext/zext), initial and havoc values biased to the signed/unsigned boundaries; membership of every reached "
                "state in the reported invariant; non-trivial (c) = an execution on which some write wrapped, checked against an invariant that is "
                "neither top nor bottom; distinct = hash of width+operands+operation (a,b) / CFG+parameters (c)",
        "assumptions": ["equal bitwidths, divisor != 0, shift amount < w, keep_lower(k) with 1 <= k <= w (preconditions in the code)",
                        "INT_MIN / -1 is skipped and counted (undocumented)", "widening requires w > 1 (assert in the code)",
                        "part (c): wrapped_interval_with_history_domain and wrapped_numerical_domain are compiled out of the tree (#if 0, 'EXPERIMENTAL CODE') and are not tested",
                        "part (c): INT_MIN sdiv/srem -1 and shifts by >= w truncate the execution"],
        "min_nontrivial_frac": 0.2,
    },
    "C06": {
        "jobs": [job("h_fixpo_exact", 40000, 8, 150000, 16, fuzz_secs=180, fuzz_procs=8)],
        "rule": "part 1 (3/4 of cases): digraph CFGs of 1..10 blocks over a finite state space Z_m^k (<= 64 states) with harness-interpreted finite "
                "statements, a client subclass of interleaved_fwd_fixpoint_iterator over 64-bit state sets (join=widening=union, meet=narrowing="
                "intersection), any start block with empty WTO nesting, 0..3 assumption sets, delays 0..5, descending 0..3, compared for EQUALITY "
                "with a naive round-robin least solution; part 2 (1/4): counted-loop programs over the interval domain with bounds around the "
                "widening delay, compared with the harness' own join-only iteration and the domain's widening-call counter; non-trivial = a cycle "
                "reachable from the start block; distinct = hash of graph+statements+parameters",
        "assumptions": ["start blocks have empty WTO nesting (the property's own wording)", "thresholds = 0",
                        "part 2 uses only exact monotone interval transfer functions (x:=c, x:=x+c, x:=y+c, single-variable assumes)"],
        "min_nontrivial_frac": 0.2,
    },
}
FWD_Q = ["interval", "sdbm", "soct", "ric", "term_int", "bool_int"]
HIST_Q = ["interval", "sdbm", "soct", "ric", "term_int", "bool_int", "pack_sdbm"]
HISTG_Q = ["interval", "sdbm", "bool_int"]
PROG_ASSUME = ["concrete semantics of DESIGN.md section 2.3: mathematical integers, truncating sdiv/srem, udiv/urem/lshr only on non-negative operands, "
               "shifts by 0..64, zext only of values in [0,2^w); executions leaving this model are truncated and counted, never judged",
               "int64-weight DBM domains (the default zones/octagons): constants <= 10^6 and cases where an abstract bound or a concrete value "
               "exceeds 2^40 are truncated (overflow is documented as unchecked in graph_config.hpp)"]
CHECKS["C01"] = {
    "jobs": [job("h_fwd-" + d, 1500, 2, 12000, 4, fuzz_secs=300, fuzz_procs=2) for d in FWD_Q],
    "rule": "choice-tape CrabIR programs (structured seq/if/while nests and unstructured digraphs up to 10 blocks, 2-6 ints, optional 64-bit ints, "
            "booleans for boolean domains, all statement kinds the domain supports) x widening delay 0-5, descending iterations 0-3, thresholds "
            "{0,1,5,20}, liveness on/off, initial value top or constraints around a first state; 4-12 concrete executions per program; after every "
            "block entry, every statement (re-propagated with the analyzer's transformer) and every block exit the concrete state must be a member "
            "(M1 not bottom, M2 at()/operator[], M3 exported constraints incl. disjunctive, M4 point meet, M5 entailment probes) of the reported "
            "invariant; non-trivial = an execution of >= 3 blocks checked against an invariant that is neither top nor bottom; distinct = hash of "
            "the printed CFG + parameters",
    "assumptions": PROG_ASSUME + ["alternative entry blocks and assumption maps are explored by the C06 harness, not yet by this one"],
    "min_nontrivial_frac": 0.1,
    "min_class_frac": {"has_loop": 0.2},
}
CHECKS["C02"] = {
    "jobs": [job("h_fwd-" + d, 700, 2, 12000, 4, fuzz_secs=300, fuzz_procs=2) for d in FWD_Q],
    "rule": "same programs as C01 with numerical and boolean assertions tagged by debug_info ids; the intra-procedural assertion checker's per-assertion "
            "verdict is compared with 4-12 concrete executions: SAFE and violated by an execution, or UNREACHABLE and reached by an execution, is a "
            "violation; non-trivial = >= 1 assertion classified safe/unreachable and >= 1 execution reaching an assertion; distinct = hash of CFG+parameters",
    "assumptions": PROG_ASSUME + ["only the intra-procedural forward analyzer + checker so far (forward+backward and inter-procedural analyzers: harnesses not built yet)"],
    "min_nontrivial_frac": 0.03,
}
CHECKS["C03"] = {
    "jobs": [job("h_hist-" + d, 4000, 2, 40000, 4, fuzz_secs=300, fuzz_procs=2, env={"VERIF_TAPE_SCALE": "12"}) for d in HIST_Q] +
            [job("h_hist-" + d, 4000, k, 40000, 4, env={"VERIF_TAPE_SCALE": "12"}) for d, k in [("interval", 2), ("sdbm", 4), ("soct", 3)]],
    "rule": "operation histories of 3-40 steps over 6 abstract values and 2-5 ints (+64-bit int, booleans for boolean domains, 3 fresh names): assign, "
            "arithmetic/bitwise/cast apply, select, assume (1-2 constraints, non-unit coefficients, ==, !=, <), boolean operations, weak_assign, "
            "forget/project/rename/expand, join, meet, widening (with thresholds), narrowing of decreasing pairs, copies, queries; every value "
            "carries <= 12 witness states that are members by construction (images under the concrete operation); after each step all witnesses of "
            "the result must be members (M1-M5); non-trivial = a checked value neither top nor bottom with witnesses after >= 3 steps and >= 2 "
            "non-trivial values; distinct = hash of the decoded history",
    "assumptions": PROG_ASSUME,
    "min_nontrivial_frac": 0.1,
}
CHECKS["C04"] = {
    "jobs": [job("h_hist-" + d, 2200, 2, 30000, 4, fuzz_secs=300, fuzz_procs=2, env={"VERIF_TAPE_SCALE": "12"}) for d in HIST_Q],
    "rule": "the C03 histories with the lattice laws checked at every step: x <= x (also on a copy), bottom <= x, x <= top, A <= B answering yes implies "
            "every witness of A is a member of B (A,B arbitrary reachable values, or B derived from A by join/forget to obtain yes-answers), witnesses of "
            "both operands in the join, common witnesses in the meet, is_bottom/is_top after set_to_*/make_*, not is_bottom while a witness exists; every 8 steps and at the end an "
            "all-pairs sweep over the six values of the history: bottom on the left and top on the right must answer yes, every yes-answer is checked against the witnesses of the left; "
            "non-trivial = >= 1 yes-answer of <= and >= 2 values neither top nor bottom; distinct = hash of the decoded history",
    "assumptions": PROG_ASSUME,
    "min_nontrivial_frac": 0.1,
}
CHECKS["C05"] = {
    "jobs": [job("h_hist-" + d, 6000, 2, 40000, 4, fuzz_secs=300, fuzz_procs=2, env={"VERIF_TAPE_SCALE": "12"}) for d in HIST_Q] +
            [job("h_fwd-" + d, 500, 1, 8000, 2) for d in FWD_Q],
    "rule": "(a) every forward analysis of the C01 programs runs under a deterministic budget of 4*10^5 fixpoint/transfer events (ordinary runs: "
            "10-10^3); (b) widening chains x_{i+1} = x_i widen (x_i join?) f(x_i) for a decoded loop body f, guard, optional thresholds and "
            "interleaved normalising queries: both arguments' witnesses must be members of each result and the number of strict increases (by the "
            "domain's own <=) must stay below 8((n+1)^2 (T+3)+4); plus widening/narrowing steps inside histories; non-trivial = (a) a program with a "
            "loop, (b) a chain with >= 2 strict increases; distinct = hash of the decoded case",
    "assumptions": PROG_ASSUME + ["backward and inter-procedural analyses are not yet under the watchdog (harnesses not built yet)"],
    "min_nontrivial_frac": 0.05,
}
CHECKS["C16"] = {
    "jobs": [job("h_hist-" + d, 1500, 2, 30000, 4, fuzz_secs=300, fuzz_procs=2, env={"VERIF_TAPE_SCALE": "12"}) for d in HIST_Q] +
            [job("h_histg-" + d, 1500, 2, 30000, 4, env={"VERIF_TAPE_SCALE": "12"}) for d in HISTG_Q] +
            [job("h_histv-" + d, 1500, 1, 30000, 2, env={"VERIF_TAPE_SCALE": "12"}) for d in HISTG_Q],
    "rule": "the C03 histories with (i) copy isolation: after a copy, an observation snapshot (is_bottom, is_top, at(v) for all v, 8 entailment probes) "
            "of every value not operated on by a step must be unchanged after that step and its witnesses must remain members; (ii) queries, "
            "operator[], normalize(), minimize() leave the value <=-equal to a pre-copy and keep all witnesses; (iii) h_histg / h_histv: the same history on D "
            "and on abstract_domain_ref<var>(D) resp. abstract_domain<var>(D) must give equal snapshots and equal <= answers after every step; (iv) moves: the result of a "
            "binary operation (history) / of every widening of a widening chain (3 in 8 of the C16 cases are chains with loop bodies and guards) is copied, then move-assigned into an "
            "existing value: the moved-to value and the copy must give equal snapshots, directly and after normalize() of a copy of each; C16 histories start (3 in 4) from values that "
            "bind every integer variable and share their representation (A0 built by assignments, other values copies of it), a fifth of their steps are copies and the three steps after "
            "a copy usually operate on the copy or its source; non-trivial = a copy followed by "
            ">= 2 mutations and >= 1 observation of an untouched value (history) / a chain with >= 1 strict increase and a compared move; distinct = hash of the decoded case",
    "assumptions": PROG_ASSUME + ["snapshots are taken twice at copy time so that lazily cached representation changes settle before comparison"],
    "min_nontrivial_frac": 0.05,
}

EXACT_V = ["itv", "sdbm", "dbm", "soct", "lift"]
CHECKS["C12"] = {
    "jobs": [job("h_exact-" + v, 15000, 3, 120000, 6, fuzz_secs=0) for v in EXACT_V],
    "rule": "part A (model based): histories of 1-16 steps over 4 abstract values and <=4 variables inside the box [-B,B]^n (B<=4, optionally shifted by "
            "per-variable offsets up to 2^40 to exercise large constants): assume of 1-3 constraints of the domain's own language (+-x<=k; x-y<=k for "
            "zones; +-x+-y<=k for octagons; several syntactic forms, == included), join, meet, forget/project, copy, normalize/minimize, for "
            "interval_domain, split_dbm (graph representations ss/adapt_ss/pt/ht x weights int64/safe_i64/z_number x all zones parameters), sparse_dbm, "
            "split_oct (all oct parameters). The model of a value is the exact set of integer points of the box plus the set of unconstrained "
            "variables (join = best abstraction of the union in the language, by brute force). After every step: is_bottom <=> no point; at(v) = exact "
            "[min,max]; entails(c) <=> every point satisfies c for EVERY constraint c of the language with constant in range (sampled per shape when "
            "the budget of 1500 queries is used up); join above both operands and below every pool value above both; meet dually; <= never yes when a "
            "point of the left is outside the right. Part B (differential): straight-line numerical histories on a base domain and on its "
            "boolean/array-smashing/array-adaptive/region liftings and reduced product: lifted.at(v) <= base.at(v) after every step. non-trivial = >= 3 "
            "constraints over >= 2 variables, a satisfiable bounded result and some tight bound that is not syntactically present (closure needed); "
            "distinct = hash of the decoded history",
    "assumptions": ["integer points only inside the box: every constrained variable is also boxed, so the brute-force model is exact",
                    "completeness of operator<= (answering no although included) is only counted as a diagnostic: C12 states join-above/join-least, not a complete inclusion test",
                    "an octagon answer that needs integer tightening beyond the rational closure is classified under a separate tag (<mode>_..._tightening)"],
    "min_nontrivial_frac": 0.1,
}

ARR_Q = ["aa_int", "aa_sdbm", "aa_bool_int", "as_disint", "as_sdbm", "as_bool_int"]
CHECKS["C14"] = {
    "jobs": [job("h_fwd-" + d, 2500, 2, 15000, 4, fuzz_secs=300, fuzz_procs=2) for d in ARR_Q],
    "rule": "the C01 program generator with array statements weighted up (array_init of every array in the entry block most of the time, array_init, "
            "weak stores at constant / aligned symbolic (es*v) / arbitrary symbolic indices, strong stores only on single-cell arrays, store_range, "
            "array_assign, loads; element size = byte width of the scalars, 4 or 8) over array_adaptive<interval|split_dbm|flat-bool+interval> and "
            "array_smashing<dis_interval|split_dbm|flat-bool+interval>, all array_adaptive parameters (is_smashable, smash_at_nonzero_offset, "
            "max_smashable_cells, max_array_size) and zones parameters decoded from the tape; loops and branches give joins and widenings of array "
            "states; 4-12 concrete executions per program in a byte-offset cell model; after every statement (in particular after every load) the "
            "concrete scalar state must be a member of the propagated invariant and a reached state is never bottom; non-trivial = a load whose "
            "result was checked against a non-top invariant, in a program with a symbolic-index load or a loop/branch/unstructured shape; distinct = "
            "hash of CFG+parameters",
    "assumptions": PROG_ASSUME + ["a load of a cell that was never written on that execution is outside the model (property C14's own wording: 'a value that a cell can hold')",
                                 "element size equals the byte width of the loaded/stored scalar (type_checker.hpp TODO, array_adaptive ghost variables)",
                                 "is_strong_update=true is only passed for single-cell arrays (cfg.hpp: the flag is the client's knowledge that the store overwrites the array)"],
    "min_nontrivial_frac": 0.05,
}

CHECKS["C17"] = {
    "jobs": [job("h_transform", 25000, 8, 80000, 16, fuzz_secs=300, fuzz_procs=4, env={"VERIF_TAPE_SCALE": "12"})],
    "rule": "functions f() -> outputs (0-3 outputs, possibly arrays) built by the program generator: structured shapes, structured + decorations "
            "(dead-end blocks, blocks unreachable from the entry, self loops, extra edges, edges back to the entry) and unstructured digraphs, always with an "
            "exit block (whose outgoing edges are removed), numeric/boolean/array statements without division, `unreachable` in the middle of blocks, "
            "interval-provable assertions; 1-3 transformation stages per case out of cfg::simplify(), dead_code_elimination and lower_safe_assertions (fed with "
            "the safe set of a real flat-boolean+interval analysis + assertion checker), each applied to a clone() of the previous CFG. Oracle: clone() prints "
            "like the original; the transformation does not raise CRAB_ERROR; the source CFG is unchanged; well-formedness (entry/exit kept and present, every "
            "edge endpoint exists, v in next(u) <=> u in prev(v)); behaviour both ways: every exit-reaching execution of the original (2-4 initial states, <= 30 "
            "blocks) has a counterpart in the transformed CFG with the same sequence of (condition text, outcome) and the same outputs at exit, found by a "
            "bounded DFS over successor choices and havoc values, and conversely; an exhausted budget is inconclusive (counted), never a violation; "
            "non-trivial = some stage changed the CFG text and an exit-reaching execution of that stage was matched; distinct = hash of the decoded case",
    "assumptions": ["an exit block with successors is outside the domain (undocumented; the generator removes the exit's outgoing edges)",
                    "programs contain no division/remainder, so no removed statement can fail (the proviso of C17)",
                    "a lowered assertion is compared as a condition with its outcome, not as an assertion kind"],
    "min_nontrivial_frac": 0.1,
}
CHECKS["C18"] = {
    "jobs": [job("h_dataflow", 25000, 8, 80000, 16, fuzz_secs=300, fuzz_procs=4, env={"VERIF_TAPE_SCALE": "12"})],
    "rule": "the C17 function generator. Liveness: a base execution keeps a snapshot at the end of every block; at 1-4 fork points every variable that "
            "live_and_dead_analysis reports as not live at the end of the block is perturbed (int +-d, bool flip, one array cell) in a copy of the execution "
            "that continues with the same remaining choices: block path, evaluated conditions with outcomes, assertion outcomes, end kind and outputs at exit "
            "must be equal (common prefix when a run leaves the model); dead_exit is disjoint from live-out. Assertion crawler (both modes): every assertion "
            "syntactically reachable from a block is a key of get_results(block); a variable perturbed at a block entry whose perturbation changes the operands "
            "of an assertion evaluated later on the same path must be in the set listed for that assertion at that block; control dependences (path divergence) "
            "are counted, not judged; non-trivial = a perturbed dead variable is later redefined and used, or a listed data dependence reaches an assertion >= 2 "
            "blocks away through >= 1 assignment; distinct = hash of the decoded case",
    "assumptions": ["an exit block with successors is outside the domain (as for C17)",
                    "the crawler's control-dependence claims are not judged (the property speaks of values flowing into the condition)"],
    "min_nontrivial_frac": 0.08,
}

BWD_Q = ["interval", "sdbm", "soct", "bool_int", "dbm"]
TD_Q = ["interval", "sdbm", "bool_int"]
BU_Q = ["bu_sdbm_interval", "bu_interval_interval", "bu_sdbm_sdbm", "bu_term_int_interval"]
CALL_ASSUME = ["calls: fresh frame; inputs := actuals simultaneously; other callee variables arbitrary; a callee returns after executing its exit block; lhs := outputs simultaneously; "
               "callees never assign their inputs; inputs and outputs are disjoint (cfg.hpp / top_down_inter_analyzer.hpp header comments)",
               "concrete recursion is cut at call depth 6 (truncated, counted)"]
CHECKS["C09"] = {
    "jobs": [job("h_inter-" + d, 8000, 2, 40000, 4, fuzz_secs=300, fuzz_procs=2) for d in TD_Q],
    "rule": "call graphs of 1-5 functions sharing one variable factory (names private or drawn from small shared pools so that caller/callee/formal/actual names collide; permuted, "
            "repeated and constant actuals; lhs that are also arguments; DAGs, direct and mutual recursion (~18 %), orphan entry functions) analysed by top_down_inter_analyzer "
            "with ALL parameters decoded (max_call_contexts inf/1/2/3, exact vs approximate reuse, precise vs imprecise recursion, delay, descending iterations, thresholds, "
            "checker on/off, only_main_as_entry, keep_invariants, liveness, initial value); 8-24 concrete inter-procedural executions from every entry; every (function, block, "
            "state) visited must be a member of get_pre/get_post of that block; every concrete call and 1-3 direct runs of each callee are checked against every stored "
            "(pre, post) summary: inputs in pre => inputs+outputs in post; non-trivial = a concrete call returned and its callee has a summary/entry invariant neither top nor "
            "bottom and shares a name with a caller or has >= 2 call sites; distinct = hash of the decoded call graph + parameters",
    "assumptions": PROG_ASSUME + CALL_ASSUME,
    "min_nontrivial_frac": 0.1,
}
CHECKS["C10"] = {
    "jobs": [job("h_inter-" + d, 8000, 2, 40000, 3, fuzz_secs=300, fuzz_procs=1) for d in BU_Q],
    "rule": "the C09 call-graph generator restricted to the documented domain of the bottom-up analyzer (main is the only function without callers and is not recursive; "
            "recursion among other functions allowed) analysed by bottom_up_inter_analyzer<cg, summary domain, forward domain> for (sdbm, interval), (interval, interval), (sdbm, "
            "sdbm), (term_int, interval): block invariants of the top-down phase vs concrete executions from main as in C09; every terminating concrete run of a non-main "
            "function from ARBITRARY decoded inputs (called directly by the interpreter) and every concrete call must satisfy the function's bottom-up summary; non-trivial as C09; "
            "distinct = hash of the decoded call graph + parameters",
    "assumptions": PROG_ASSUME + CALL_ASSUME,
    "min_nontrivial_frac": 0.1,
}
BWD_KNOWN_NOTE = "array_adaptive backward transfer functions (h_bwd-aa_int) carry recorded findings, see known_findings.json"
CHECKS["C11"] = {
    "jobs": [job("h_bwd-" + d, 6000, 2, 30000, 4, fuzz_secs=300, fuzz_procs=2) for d in BWD_Q] + [job("h_bwd-aa_int", 800, 1, 8000, 2)],
    "rule": "programs of the C01 generator with an exit that every block can reach (edges added by construction), numeric/boolean/callsite statements (arrays for the "
            "array_adaptive variant), 1-2 appended assertions; necessary_preconditions_fixpoint_iterator in error mode (error states = violated assertions) and in good mode "
            "(post-condition = 0-2 decoded constraints), with supplied forward invariants none or those of a real forward run; 8-24 concrete executions, starting at any block "
            "when no invariants are supplied, with start values on the bounds of the reported precondition; for every execution that violates an assertion (resp. completes the "
            "exit block in the post-condition) every earlier (block, entry state) must be a member of the precondition reported for that block; an execution that lies outside "
            "the supplied forward invariants is not judged; non-trivial = such an execution passing through >= 2 distinct blocks whose precondition is neither top nor bottom; "
            "distinct = hash of the decoded case",
    "assumptions": PROG_ASSUME + ["the backward analysis only speaks about blocks that reach the exit (it works on the reversed CFG)", BWD_KNOWN_NOTE],
    "min_nontrivial_frac": 0.08,
}
CHECKS["C02"]["jobs"] += [job("h_bwd-" + d, 800, 1, 12000, 2, fuzz_secs=300, fuzz_procs=1) for d in ["interval", "sdbm", "bool_int"]] + \
                         [job("h_inter-interval", 3000, 4, 20000, 4)] + [job("h_inter-" + d, 800, 1, 12000, 2) for d in ["sdbm", "bu_sdbm_interval", "bu_interval_interval"]]
CHECKS["C02"]["rule"] += ("; the same comparison for the checker run on intra_forward_backward_analyzer (h_bwd: backward on/off, 0-5 refinement iterations, refined invariants "
                          "on/off: with refined invariants UNREACHABLE is only held to the SAFE standard), for the checker interleaved with the top-down inter-procedural analyzer "
                          "(an assertion is claimed safe only if its verdict list is non-empty and every entry is safe/unreachable) and for inter_checker on the bottom-up analyzer")
CHECKS["C02"]["assumptions"] = PROG_ASSUME + CALL_ASSUME
CHECKS["C05"]["jobs"] += [job("h_bwd-" + d, 500, 1, 8000, 2) for d in ["interval", "sdbm"]] + [job("h_inter-" + d, 500, 1, 8000, 2) for d in ["interval", "bool_int", "bu_sdbm_interval"]]
CHECKS["C05"]["rule"] += ("; the same deterministic budget (4*10^5 / 1.5*10^6 events) around the backward, forward+backward, top-down (incl. direct and mutual recursion, precise and "
                          "imprecise) and bottom-up analyses")
CHECKS["C05"]["assumptions"] = PROG_ASSUME + CALL_ASSUME

RGN_Q = ["interval", "bool_int", "sdbm", "constant", "sign_constant"]
CHECKS["C15"] = {
    "jobs": [job("h_rgn-" + d, 3000, 2, 20000, 4, fuzz_secs=300, fuzz_procs=2) for d in RGN_Q],
    "rule": "region programs built by a generator on top of the C01 one: 1-3 regions (int / bool / reference / unknown), 2-5 reference variables with a home region, region_init "
            "in the entry block, make_ref with distinct allocation sites (also in loops), aliases (gep with offset 0, select_ref incl. NULL arms), gep_ref with non-zero offsets "
            "within and across regions, store_to_ref / load_from_ref of ints, bools and references, region_copy, region_cast through unknown regions, remove_ref, ref_to_int / "
            "int_to_ref, assume_ref / assert_ref against NULL and between references, the add_tag intrinsic, numeric/boolean code in between; region_domain over interval, "
            "flat-bool+interval, split_dbm, constant, sign+constant with ALL five region.* parameters (and zones parameters) decoded from the tape; forward analysis + 4-12 "
            "concrete executions on a heap model (reference = null or (object, offset); cell = (region, object, offset); a read of a never-written cell, a use of a freed or "
            "int_to_ref reference, an ordering of references into different objects leave the model); oracle: the scalar state after every statement (in particular after "
            "every load_from_ref) is a member of the propagated invariant; a definite is_null_ref answer equals the concrete nullness; get_allocation_sites / get_tags answering "
            "true contain the concrete allocation site / the tags of the cell; non-trivial = a judged load from a region holding >= 2 cells, or whose cell was last stored "
            "through another reference variable, or after the same make_ref executed twice with its earlier object still referenced; distinct = hash of CFG+parameters",
    "assumptions": PROG_ASSUME + ["cell identity is (region, object, offset), the granularity the domain's own reference counting commits to; every reference variable is used with its home region only",
                                 "region_copy / region_cast into a region with live references, loads through int_to_ref results and gep from NULL are outside the model",
                                 "tags are a lower-bound model (recorded only on already written cells)"],
    "min_nontrivial_frac": 0.1,
}
